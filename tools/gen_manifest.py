#!/usr/bin/env python3
"""Generates /verif/MANIFEST.json from the table below (kept next to the checker so the two stay in step)."""
import json, os, sys

ENV = "GOFLAGS=-mod=mod GOPROXY=off GOSUMDB=off GOTOOLCHAIN=local GOWORK=off"

# property id -> (technique, level text, level note, design ref)
CLAIMED = {
}

NOT_APPLICABLE = {
}

def load_tables():
    here = os.path.dirname(os.path.abspath(__file__))
    with open(os.path.join(here, "manifest_table.json")) as f:
        t = json.load(f)
    return t["claimed"], t["not_applicable"]

def main():
    claimed, na = load_tables()
    checks = []
    for pid in sorted(claimed):
        c = claimed[pid]
        checks.append({
            "property_id": pid,
            "quick_cmd": f"/verif/bin/pv -prop {pid} -tier quick",
            "thorough_cmd": f"/verif/bin/pv -prop {pid} -tier thorough",
            "evidence_file": f"/verif/evidence/{pid}.json",
            "replay_cmd_template": "/verif/bin/pv -explain {path}",
            "engine": "pv",
            "level_claimed": {
                "category": "other",
                "text": c["text"],
                "design_ref": c.get("design_ref", "DESIGN.md §4 " + pid),
            },
            "level_note": c["note"],
            "technique": c["technique"] + "; plus the table-driven generic rules of DESIGN.md §6.2 scoped to this property (frozen write paths, no new causes of refusal or panic (RFG1/RPN1), monotone write guards and success conditions, always-made writes not bypassed, frozen field writes, write-site arguments, return values, leaf-helper terms, codec calls and literal cases, lost receiver writes, discarded errors)",
        })
    m = {
        "version": 1,
        "setup_cmd": f"cd /verif/tools/pv && env {ENV} go build -o /verif/bin/pv .",
        "hooks": {
            "guard": "verif",
            "enable": "none needed: the checks are static and read /repo's sources as they are; no hook or instrumentation was added to /repo",
            "baseline_off_cmd": "cd /repo && env GOFLAGS=-mod=mod GOPROXY=off GOSUMDB=off go test -json -vet=off -count=1 -timeout 25m ./...",
            "source_commits": [],
            "add_only": True,
        },
        "engines": [{
            "name": "pv",
            "path": "/verif/tools/pv",
            "serves_properties": sorted(claimed),
            "kind_free_text": "repository-specific static analyser (go/packages + go/ssa + CFG edge cuts + repo call graph); decides rule instances from /repo's current source, executes nothing",
        }],
        "checks": checks,
        "notes": "All checks are static analysis (family fixed by the task). Each claims named structural necessary conditions of its property at level 'other'; DESIGN.md §4 lists per property what is decided and what is not. Genuine defects found by the rules were repaired in /repo by 'fix:' commits or are listed in /verif/known_findings.json.",
        "not_applicable": [{"property_id": k, "reason": v} for k, v in sorted(na.items())],
    }
    out = os.path.join(os.path.dirname(os.path.dirname(os.path.abspath(__file__))), "MANIFEST.json")
    with open(out, "w") as f:
        json.dump(m, f, indent=1)
        f.write("\n")
    print("wrote", out, "claimed:", len(checks), "not_applicable:", len(na))

if __name__ == "__main__":
    main()
