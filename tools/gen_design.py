#!/usr/bin/env python3
"""Assemble /verif/DESIGN.md from tools/design/00_head.md, the per-property
section generated from /verif/evidence/*.json (what the checker really applied on
its last run) and tools/design/50_tail.md, whose @@SEEDED_TABLE@@ marker is
replaced by the table built from seeded/catch_table.json and the meta.json files.
"""
import glob, json, os, re

V = "/verif"

def props():
    out = {}
    for line in open(f"{V}/properties.jsonl"):
        line = line.strip()
        if line:
            p = json.loads(line)
            out[p["id"]] = p
    return out

def esc(s):
    return s.replace("|", "\\|").replace("\n", " ")

def section4():
    P = props()
    known = json.load(open(f"{V}/known_findings.json"))["findings"]
    out = ["## 4. Property by property (generated from the evidence of the last run)\n",
           "Level claimed is `other` everywhere: each check decides the named structural",
           "clauses on all paths of the current source and states what it does not decide.",
           "`instances` is the number of rule instances found on the current tree, `floor`",
           "the number confirmed by hand on the pinned tree (fewer = UNDECIDED).\n"]
    for pid in sorted(P):
        ev_path = f"{V}/evidence/{pid}.json"
        if not os.path.exists(ev_path):
            continue
        ev = json.load(open(ev_path))
        c = ev["coverage"]
        title = P[pid].get("title", "")
        out.append(f"### {pid} — {title}\n")
        out.append(f"Obligations on the current tree: {c['obligations']} "
                   f"(discharged {c['discharged']}, known findings {c.get('known_findings', 0)}).\n")
        out.append("| rule | instances / floor | clause decided |")
        out.append("|---|---|---|")
        def key(r):
            m = re.match(r"C\d+-R(\d+)(\w*)", r)
            return (int(m.group(1)), m.group(2)) if m else (999, r)
        for rid in sorted(c["rules"], key=key):
            out.append(f"| {rid} | {c['instances_per_rule'].get(rid, 0)} / {c['floors'].get(rid, 0)} | {esc(c['rules'][rid])} |")
        expl = c.get("explanation", "")
        if "NOT decided:" in expl:
            nd = expl.split("NOT decided:", 1)[1].strip()
            out.append(f"\n**Not decided:** {nd}\n")
        ks = [k for k in known if k["property"] == pid]
        for k in ks:
            if k["status"] == "known":
                out.append(f"**Known finding** `{k['instance']}` — see §5.2.\n")
        fx = [k for k in ks if k["status"] == "fixed"]
        if fx:
            out.append("**Repaired defects found by these rules:** " + "; ".join(f"`{k['commit']}` ({k['instance'].split('/', 1)[0]})" for k in fx) + " — see §5.1.\n")
    return "\n".join(out) + "\n"

def seeded_table():
    path = f"{V}/seeded/catch_table.json"
    if not os.path.exists(path):
        return "(run `python3 tools/selftest.py` to produce seeded/catch_table.json)\n"
    T = json.load(open(path))
    rows = ["| change | property | what was changed | reported by (first instances of the expected property) | also fires |",
            "|---|---|---|---|---|"]
    for name in sorted(T):
        e = T[name]
        exp = e["expect"]
        summ = ""
        meta = os.path.join(V, os.path.dirname(name), "meta.json")
        if name.endswith("patch.diff") and os.path.exists(meta):
            m = json.load(open(meta))
            summ = m.get("summary", "")
        else:
            for line in open(os.path.join(V, name)):
                if line.startswith("#") and "expect" not in line:
                    summ = line.lstrip("# ").strip()
                    break
        summ = re.sub(r"\s+", " ", summ)
        if len(summ) > 220:
            summ = summ[:217] + "…"
        inst = []
        for p in exp:
            inst += e["instances"].get(p, [])[:2]
        others = [p for p in e["fired"] if p not in exp]
        label = os.path.dirname(name).replace("seeded/", "") if name.endswith("patch.diff") else os.path.basename(name)
        rows.append(f"| {label} | {','.join(exp)} | {esc(summ)} | {esc('; '.join('`'+i+'`' for i in inst)) or '**missed**'} | {','.join(others)} |")
    return "\n".join(rows) + "\n"

def main():
    head = open(f"{V}/tools/design/00_head.md").read()
    tail = open(f"{V}/tools/design/50_tail.md").read()
    tail = tail.replace("@@SEEDED_TABLE@@", seeded_table())
    open(f"{V}/DESIGN.md", "w").write(head + "\n" + section4() + "\n" + tail)
    print("DESIGN.md written:", sum(1 for _ in open(f"{V}/DESIGN.md")), "lines")

if __name__ == "__main__":
    main()
