#!/bin/bash
# try_patches.sh <dir>... : for each <dir>/{a,b,c}/patch.diff apply to /repo, run all checks into a scratch verif dir, restore.
mkdir -p /tmp/pvtry; cp /verif/known_findings.json /tmp/pvtry/
for D in "$@"; do
 for v in a b c d e; do
  f="$D/$v/patch.diff"; [ -f "$f" ] || continue
  prop=$(python3 -c "import json;print(json.load(open('$D/$v/meta.json')).get('property'))" 2>/dev/null)
  if ! git -C /repo apply --whitespace=nowarn "$f" 2>/tmp/try_apply.err; then echo "APPLY-FAIL $f: $(head -1 /tmp/try_apply.err)"; continue; fi
  out=$(/verif/bin/pv -prop all -verif /tmp/pvtry 2>&1)
  fired=$(echo "$out" | grep -oE "^VIOLATION property=C[0-9]+" | sed 's/VIOLATION property=//' | tr '\n' ',')
  und=$(echo "$out" | grep -oE "^UNDECIDED property=C[0-9]+" | sed 's/UNDECIDED property=//' | tr '\n' ',')
  tag=MISSED; case ",$fired" in *",$prop,"*) tag=CAUGHT;; esac
  [ "$tag" = MISSED ] && [ -n "$fired" ] && tag=OTHER
  echo "$tag $(basename $D)/$v expect=$prop fired=${fired:--} undecided=${und:--}"
  if [ "$1" != "-q" ]; then echo "$out" | grep -E "^\s+violated" | cut -c1-260 | head -4; fi
  git -C /repo checkout -- . ; git -C /repo clean -fdq
 done
done
