// mutgen: a small syntactic mutation generator used to validate the checks of /verif (not a registered check).
// For every non-test Go file given it emits single-point mutants: relational and logical operator replacement,
// arithmetic operator replacement, negated if-conditions, deleted call statements, and deleted `return err`-style
// early exits. Each mutant is written as <out>/<n>/file.go with <out>/<n>/meta.json {file, line, op, before, after}.
package main

import (
	"bytes"
	"encoding/json"
	"flag"
	"fmt"
	"go/ast"
	"go/parser"
	"go/printer"
	"go/token"
	"os"
	"path/filepath"
	"strings"
)

type meta struct {
	File, Op, Before, After, Func string
	Line                         int
}

var swaps = map[token.Token][]token.Token{
	token.LSS: {token.LEQ}, token.LEQ: {token.LSS}, token.GTR: {token.GEQ}, token.GEQ: {token.GTR},
	token.EQL: {token.NEQ}, token.NEQ: {token.EQL}, token.LAND: {token.LOR}, token.LOR: {token.LAND},
	token.ADD: {token.SUB}, token.SUB: {token.ADD},
}

func main() {
	root := flag.String("root", "/repo", "repository root")
	out := flag.String("out", "", "output directory")
	flag.Parse()
	n := 0
	for _, rel := range flag.Args() {
		path := filepath.Join(*root, rel)
		src, err := os.ReadFile(path)
		if err != nil {
			fmt.Fprintln(os.Stderr, err)
			continue
		}
		// count mutation points first, then re-parse for each to mutate a fresh tree
		points := collect(src, path, -1, nil)
		for i := 0; i < points; i++ {
			var m meta
			mutated := mutate(src, path, i, &m)
			if mutated == nil {
				continue
			}
			m.File = rel
			dir := filepath.Join(*out, fmt.Sprintf("%05d", n))
			os.MkdirAll(dir, 0o755)
			os.WriteFile(filepath.Join(dir, "file.go"), mutated, 0o644)
			b, _ := json.Marshal(m)
			os.WriteFile(filepath.Join(dir, "meta.json"), b, 0o644)
			n++
		}
	}
	fmt.Println(n, "mutants")
}

func collect(src []byte, path string, target int, m *meta) int {
	_, n := walk(src, path, target, m)
	return n
}

func mutate(src []byte, path string, target int, m *meta) []byte {
	out, _ := walk(src, path, target, m)
	return out
}

// walk visits mutation points in a fixed order; when the counter hits target the point is mutated.
func walk(src []byte, path string, target int, m *meta) ([]byte, int) {
	fset := token.NewFileSet()
	f, err := parser.ParseFile(fset, path, src, parser.ParseComments)
	if err != nil {
		return nil, 0
	}
	count := 0
	done := false
	str := func(n ast.Node) string {
		var b bytes.Buffer
		printer.Fprint(&b, fset, n)
		s := b.String()
		if len(s) > 120 {
			s = s[:120]
		}
		return strings.ReplaceAll(s, "\n", " ")
	}
	hit := func() bool {
		c := count
		count++
		return c == target
	}
	for _, d := range f.Decls {
		fd, ok := d.(*ast.FuncDecl)
		if !ok || fd.Body == nil {
			continue
		}
		fname := fd.Name.Name
		ast.Inspect(fd.Body, func(n ast.Node) bool {
			if done {
				return false
			}
			switch x := n.(type) {
			case *ast.BinaryExpr:
				if alts, ok := swaps[x.Op]; ok {
					// skip string concatenation heuristically
					if x.Op == token.ADD {
						if bl, ok := x.X.(*ast.BasicLit); ok && bl.Kind == token.STRING {
							return true
						}
						if bl, ok := x.Y.(*ast.BasicLit); ok && bl.Kind == token.STRING {
							return true
						}
					}
					for _, a := range alts {
						if hit() {
							*m = meta{Op: "binop", Before: str(x), Func: fname, Line: fset.Position(x.Pos()).Line}
							x.Op = a
							m.After = str(x)
							done = true
							return false
						}
					}
				}
			case *ast.IfStmt:
				if hit() {
					*m = meta{Op: "negate-if", Before: str(x.Cond), Func: fname, Line: fset.Position(x.Pos()).Line}
					x.Cond = &ast.UnaryExpr{Op: token.NOT, X: &ast.ParenExpr{X: x.Cond}}
					m.After = str(x.Cond)
					done = true
					return false
				}
			case *ast.BlockStmt:
				for i, s := range x.List {
					switch st := s.(type) {
					case *ast.ExprStmt:
						if _, isCall := st.X.(*ast.CallExpr); isCall {
							if hit() {
								*m = meta{Op: "delete-call", Before: str(st), After: "", Func: fname, Line: fset.Position(st.Pos()).Line}
								x.List = append(append([]ast.Stmt{}, x.List[:i]...), x.List[i+1:]...)
								done = true
								return false
							}
						}
					case *ast.IfStmt:
						// delete a whole guard `if cond { return ... }` (an early exit)
						if st.Else == nil && st.Init == nil && len(st.Body.List) == 1 {
							if _, isRet := st.Body.List[0].(*ast.ReturnStmt); isRet {
								if hit() {
									*m = meta{Op: "delete-guard", Before: str(st), After: "", Func: fname, Line: fset.Position(st.Pos()).Line}
									x.List = append(append([]ast.Stmt{}, x.List[:i]...), x.List[i+1:]...)
									done = true
									return false
								}
							}
						}
					}
				}
			}
			return true
		})
		if done {
			break
		}
	}
	if target < 0 {
		return nil, count
	}
	if !done {
		return nil, count
	}
	var b bytes.Buffer
	if err := printer.Fprint(&b, fset, f); err != nil {
		return nil, count
	}
	return b.Bytes(), count
}
