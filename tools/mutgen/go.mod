module verif/mutgen

go 1.23
