#!/bin/bash
# benign_test.sh [dir with *.diff, default /verif/benign] : applies each behaviour-preserving diff to /repo, runs all checks, restores.
# Any VIOLATION / UNDECIDED here is a false alarm to be triaged.
D="${1:-/verif/benign}"
mkdir -p /tmp/pvben; cp /verif/known_findings.json /tmp/pvben/
for f in "$D"/*.diff; do
  if ! git -C /repo apply --whitespace=nowarn "$f" 2>/tmp/ben_apply.err; then echo "APPLY-FAIL $f: $(head -1 /tmp/ben_apply.err)"; continue; fi
  out=$(/verif/bin/pv -prop all -verif /tmp/pvben 2>&1)
  v=$(echo "$out" | grep -E "^VIOLATION|^UNDECIDED" | sed 's/ replay.*//' | tr '\n' ' ')
  if [ -z "$v" ]; then echo "QUIET  $(basename $f)"; else echo "ALARM  $(basename $f): $v"; echo "$out" | grep -E "^\s+(violated|undecided)" | cut -c1-330; fi
  git -C /repo checkout -- . ; git -C /repo clean -fdq
done
