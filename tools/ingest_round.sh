#!/bin/bash
# ingest_round.sh <round-dir> <name-infix> [Cxx ...]
# For every <round-dir>/<Cxx>/out/{a,b,c}/ with a patch.diff, confirm the seeded change with
# verify_seed.sh and store it as /verif/seeded/<Cxx>_<infix><x>/ ; 5 confirmations run in parallel.
# Results (KEPT / REJECTED lines) are appended to <round-dir>/ingest.log.
R="$1"; INF="$2"; shift 2
PROPS="$@"; [ -z "$PROPS" ] && PROPS=$(ls "$R" | grep '^C[0-9][0-9]$')
for p in $PROPS; do for x in a b c d; do
  d="$R/$p/out/$x"
  [ -f "$d/patch.diff" ] && [ -f "$d/meta.json" ] || continue
  [ -d "/verif/seeded/${p}_${INF}${x}" ] && continue
  grep -q "${p}_${INF}${x}" "$R/ingest.log" 2>/dev/null && continue
  echo "$d ${p}_${INF}${x}"
done; done | xargs -P 5 -L 1 bash -c '/verif/tools/verify_seed.sh "$0" "$1" 2>&1 | grep -E "^(RESULT|KEPT|REJECTED|patch does not|no demo)"' | tee -a "$R/ingest.log"
