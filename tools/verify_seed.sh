#!/bin/bash
# verify_seed.sh <dir-with-patch.diff+meta.json+demo> <name>
# Confirms in a scratch worktree of /repo that the seeded change compiles, that the
# existing suite still passes with it, and that the demonstration fails with it and
# passes without it; then stores it under /verif/seeded/<name>/. Never touches /repo's tree.
set -u
SRC="$1"; NAME="$2"
export GOFLAGS=-mod=mod GOPROXY=off GOSUMDB=off GOTOOLCHAIN=local
unset GOWORK
WT=/tmp/vseed_$NAME
git -C /repo worktree remove --force "$WT" >/dev/null 2>&1
git -C /repo worktree add -q "$WT" HEAD || exit 2
cleanup() { git -C /repo worktree remove --force "$WT" >/dev/null 2>&1; git -C /repo worktree prune; }
trap cleanup EXIT
DEMO_PATH=$(python3 -c "import json;print(json.load(open('$SRC/meta.json'))['demo_path'])")
DEMO_FILE=$(ls "$SRC"/*_test.go 2>/dev/null | head -1)
[ -z "$DEMO_FILE" ] && DEMO_FILE=$(ls "$SRC"/*.go 2>/dev/null | head -1)
DEMO_DIR=""
if [ -z "$DEMO_FILE" ]; then
  # a demonstration made of several files: a sub-directory holding the test package
  DEMO_DIR=$(find "$SRC" -mindepth 1 -maxdepth 1 -type d | head -1)
  [ -n "$DEMO_DIR" ] && DEMO_FILE=$(ls "$DEMO_DIR"/*_test.go 2>/dev/null | head -1)
fi
if [ -z "$DEMO_FILE" ]; then echo "no demo file in $SRC"; exit 2; fi
if [ -n "$DEMO_DIR" ]; then
  # demo_path names the files or the directory; the package directory is x/<name of the sub-directory> unless demo_path says otherwise
  PKGDIR=$(python3 - "$DEMO_PATH" "$(basename "$DEMO_DIR")" <<'PY'
import re,sys
p,d=sys.argv[1],sys.argv[2]
m=re.search(r'([\w./-]*'+re.escape(d)+r')', p)
print(m.group(1).rstrip('/') if m else 'x/'+d)
PY
)
  TARGET="$WT/$PKGDIR/$(basename "$DEMO_FILE")"
else
case "$DEMO_PATH" in *.go) TARGET="$WT/$DEMO_PATH";; *) TARGET="$WT/$DEMO_PATH/$(basename "$DEMO_FILE")";; esac
fi
mkdir -p "$(dirname "$TARGET")"
PKG="./$(dirname "${TARGET#$WT/}")"
cd "$WT"
# 1. suite with the patch (no demo)
git apply --whitespace=nowarn "$SRC/patch.diff" || { echo "patch does not apply"; exit 2; }
go build ./... || { echo "RESULT $NAME: does not build"; exit 1; }
SUITE=$(go test -vet=off -count=1 ./... 2>&1 | grep -v "no test files" | grep -cv "^ok")
# 2. demo with the patch
if [ -n "$DEMO_DIR" ]; then cp "$DEMO_DIR"/*.go "$(dirname "$TARGET")"/; else cp "$DEMO_FILE" "$TARGET"; fi
go test -vet=off -count=1 "$PKG" > /tmp/vseed_$NAME.with.log 2>&1; WITH=$?
# 3. demo without the patch
git apply -R --whitespace=nowarn "$SRC/patch.diff"
go test -vet=off -count=1 "$PKG" > /tmp/vseed_$NAME.without.log 2>&1; WITHOUT=$?
echo "RESULT $NAME: suite_nonok_lines=$SUITE demo_with_patch_exit=$WITH demo_without_patch_exit=$WITHOUT"
if [ "$SUITE" = "0" ] && [ "$WITH" != "0" ] && [ "$WITHOUT" = "0" ]; then
  D=/verif/seeded/$NAME
  mkdir -p "$D"
  cp "$SRC/patch.diff" "$D/patch.diff"
  if [ -n "$DEMO_DIR" ]; then for g in "$DEMO_DIR"/*.go; do cp "$g" "$D/$(basename "$g").txt"; done; else cp "$DEMO_FILE" "$D/$(basename "$DEMO_FILE").txt"; fi
  python3 - "$SRC/meta.json" "$D/meta.json" "$DEMO_PATH" "$(basename "$DEMO_FILE")" <<'EOF'
import json,sys
m=json.load(open(sys.argv[1]))
m['demo_path']=sys.argv[3]
m['demo_file']=sys.argv[4]+'.txt'
m['confirmed']="verify_seed.sh: in a scratch worktree of /repo HEAD the patch applied and built, `go test -vet=off -count=1 ./...` had no failing package with the patch, the demonstration failed with the patch and passed without it"
json.dump(m,open(sys.argv[2],'w'),indent=1)
EOF
  echo "KEPT $D"
else
  echo "REJECTED $NAME (see /tmp/vseed_$NAME.*.log)"
  tail -5 /tmp/vseed_$NAME.with.log
fi
