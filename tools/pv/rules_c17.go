package main

import (
	"fmt"
	"strings"

	"golang.org/x/tools/go/ssa"
)

func init() { register("C17", checkC17) }

const govK = "(x/gov/keeper.Keeper)."

func checkC17(r *Run) {
	P := r.P
	govReadsAreFresh(r, "C17-R5")
	g := P.CG()
	r.NotDecided("the behaviour of amino/JSON decoding of a parameter value (a malformed value from the rightful owner makes Subspace.Update return an error that ModifyParam drops: nothing is written but the result is OK — recorded as an observation, outside the statement, which is about non-owners)")
	r.NotDecided("ownership hand-over histories (decided: each single change is authorised against the ACL stored at that moment)")
	acl := govK + "VerifyACL(param:k, param:ctx, param:aclKey, param:owner)"
	ownerEq := `^\(types\.Address\)\.Equals\(\(x/gov/types\.ACL\)\.GetOwner\(` + q(govK+"GetACL(param:k, param:ctx)") + `, param:aclKey\), param:owner\)$`

	// ------------------------------------------------------------------ R1
	r.Rule("C17-R1", "parameter writes are authorised: in ModifyParam (Subspace.Update) and HandleUpgrade (Subspace.Set) the write is dominated by VerifyACL(ctx, aclKey, owner)==nil, i.e. ACL.GetOwner(aclKey).Equals(owner); the subspace and key written are SplitACLKey(aclKey) of the aclKey that was checked; GetOwner returns the address paired with exactly that key", 12)
	for _, w := range []struct{ fn, call, val string }{
		{"ModifyParam", "(types.Subspace).Update", "param:paramValue"},
		{"HandleUpgrade", "(types.Subspace).Set", "param:paramValue"},
	} {
		f := r.fn(govK + w.fn)
		if f == nil {
			continue
		}
		c := r.oneCall("C17-R1", w.fn, f, w.call)
		if c == nil {
			continue
		}
		t := P.callTerm(c)
		want := w.call + "(param:k.spaces[x/gov/types.SplitACLKey(param:aclKey)#0]#0, param:ctx, x/gov/types.SplitACLKey(param:aclKey)#1, " + w.val + ")"
		r.Check(t.String() == want, "C17-R1", w.fn+"/writes-checked-key", P.InstrPos(c), t.String(), "parameter write is "+t.String()+" ; required "+want)
		r.requireAtoms("C17-R1", w.fn+"/write", c, P.Guards(c, 1), []req{
			{"acl-verified", `^isnil\(` + q(acl) + `\)$`},
			{"sender-is-listed-owner", ownerEq},
		})
		// a failed ACL check returns an error result and nothing else happens
		for _, e := range P.ifEdgesFor(f, `^!isnil\(`+q(acl)+`\)$`) {
			reach, wit, _ := ReachFromBlock(e.B.Succs[e.I], func(in ssa.Instruction) bool {
				ci, ok := in.(ssa.CallInstruction)
				return ok && E5writes(P, ci)
			}, nil, nil)
			r.Check(!reach, "C17-R1", w.fn+"/unauthorised=>no-write", P.Pos(f.Pos()), "an unauthorised sender reaches no write", "after a failed ACL check execution can still reach the write at "+P.InstrPos(wit))
		}
		for _, ret := range Returns(f) {
			tt := P.TermAt(ret.Results[0], ret).String()
			if strings.HasPrefix(tt, "types.Error.Result("+acl) {
				r.OK("C17-R1", w.fn+"/unauthorised=>error-result", P.InstrPos(ret), "returns the ACL error")
			}
		}
		r.callersExactly("C17-R1", w.fn, r.edgesTo(f), map[string][]string{"ModifyParam": {"x/gov.handleMsgChangeParam"}, "HandleUpgrade": {"x/gov.handleMsgUpgrade"}}[w.fn])
	}
	if f := r.fn(govK + "VerifyACL"); f != nil {
		for i, ret := range P.successReturns(f, 0, "nil") {
			r.requireAtoms("C17-R1", fmt.Sprintf("VerifyACL/success-return#%d", i), ret, P.Guards(ret, 0), []req{
				{"owner-equals-sender", `^\(types\.Address\)\.Equals\(\(x/gov/types\.ACL\)\.GetOwner\(` + q(govK+"GetACL(param:k, param:ctx)") + `, param:paramName\), param:owner\)$`},
			})
		}
	}
	if f := r.fn("(x/gov/types.ACL).GetOwner"); f != nil {
		// judged per alternative: an early return inside the loop and a result variable with break read the same
		for _, a := range P.RetAlternatives(f, 0) {
			t := a.T.String()
			if t == "nil" {
				continue
			}
			ok, _ := HasAtom(a.G, `^\(param:a\[.*\]\.Key == param:permKey\)$`)
			r.Check(ok && strings.HasPrefix(t, "param:a[") && strings.HasSuffix(t, "].Addr"), "C17-R1", "ACL.GetOwner/pair-of-that-key", P.InstrPos(a.Ret), t, "GetOwner returns "+t+" under "+strings.Join(atomStrings(a.G), " ; "))
		}
	}
	if f := r.fn(govK + "GetACL"); f != nil {
		if c := r.oneCall("C17-R1", "GetACL", f, "(types.Subspace).Get"); c != nil {
			t := P.callTerm(c).String()
			r.Check(strings.HasPrefix(t, "(types.Subspace).Get(param:k.paramstore, param:ctx, global:x/gov/types.ACLKey, "), "C17-R1", "GetACL/reads-stored-acl", P.InstrPos(c), t, "GetACL reads "+t)
		}
	}
	if f := r.fn("x/gov/types.SplitACLKey"); f != nil {
		for _, ret := range Returns(f) {
			a, b := P.TermAt(ret.Results[0], ret).String(), P.TermAt(ret.Results[1], ret).String()
			r.Check(a == `strings.Split(param:aclKey, "/")[0]` && b == `strings.Split(param:aclKey, "/")[1]`, "C17-R1", "SplitACLKey", P.InstrPos(ret), a+" , "+b, "SplitACLKey returns ("+a+", "+b+")")
		}
	}
	// the upgrade handler checks the upgrade key of the gov subspace
	if f := r.fn("x/gov.handleMsgUpgrade"); f != nil {
		if c := r.oneCall("C17-R1", "handleMsgUpgrade", f, govK+"HandleUpgrade"); c != nil {
			t := P.callTerm(c).String()
			want := govK + `HandleUpgrade(param:k, param:ctx, x/gov/types.NewACLKey("gov", global:x/gov/types.UpgradeKey), param:msg.Upgrade, param:msg.Address)`
			r.Check(t == want, "C17-R1", "handleMsgUpgrade/args", P.InstrPos(c), t, "upgrade is handled as "+t+" ; required "+want)
		}
	}
	if f := r.fn("x/gov.handleMsgChangeParam"); f != nil {
		if c := r.oneCall("C17-R1", "handleMsgChangeParam", f, govK+"ModifyParam"); c != nil {
			t := P.callTerm(c).String()
			want := govK + "ModifyParam(param:k, param:ctx, param:msg.ParamKey, param:msg.ParamVal, param:msg.FromAddress)"
			r.Check(t == want, "C17-R1", "handleMsgChangeParam/args", P.InstrPos(c), t, "change is handled as "+t+" ; required "+want)
		}
	}

	// ------------------------------------------------------------------ R2
	r.Rule("C17-R2", "DAO funds move only for the DAO owner, by the stated amount, from the DAO account: DAOTransferFrom -> SendCoinsFromModuleToAccount(dao, to, coins(amount)) and DAOBurn -> BurnCoins(dao, coins(amount)) are dominated by GetDAOOwner(ctx).Equals(owner); a non-owner gets an error result", 8)
	coins := `types.NewCoins(list(types.NewCoin("upokt", param:amount)))`
	for _, w := range []struct{ fn, call, want string }{
		{"DAOTransferFrom", "x/gov/types.AuthKeeper.SendCoinsFromModuleToAccount", `x/gov/types.AuthKeeper.SendCoinsFromModuleToAccount(param:k.AuthKeeper, param:ctx, "dao", param:to, ` + coins + `)`},
		{"DAOBurn", "x/gov/types.AuthKeeper.BurnCoins", `x/gov/types.AuthKeeper.BurnCoins(param:k.AuthKeeper, param:ctx, "dao", ` + coins + `)`},
	} {
		f := r.fn(govK + w.fn)
		if f == nil {
			continue
		}
		c := r.oneCall("C17-R2", w.fn, f, w.call)
		if c == nil {
			continue
		}
		t := P.callTerm(c).String()
		r.Check(t == w.want, "C17-R2", w.fn+"/bank-call", P.InstrPos(c), t, "bank call is "+t+" ; required "+w.want)
		r.requireAtoms("C17-R2", w.fn+"/bank-call", c, P.Guards(c, 0), []req{
			{"sender-is-dao-owner", `^\(types\.Address\)\.Equals\(` + q(govK+"GetDAOOwner(param:k, param:ctx)") + `, param:owner\)$`},
		})
		// success result only after the bank call succeeded
		for i, ret := range Returns(f) {
			tt := P.TermAt(ret.Results[0], ret).String()
			if strings.HasPrefix(tt, "complit:types.Result") {
				ok, _ := HasAtom(P.Guards(ret, 0), `^isnil\(`+q(w.want)+`\)$`)
				r.Check(ok, "C17-R2", fmt.Sprintf("%s/ok-result#%d", w.fn, i), P.InstrPos(ret), "OK only after the bank call succeeded", "an OK result is returned without a successful bank call")
			}
		}
		// no other bank operation in the function
		n := 0
		for _, nm := range calleeNames(f, true) {
			if strings.HasPrefix(nm, "x/gov/types.AuthKeeper.") && !strings.HasSuffix(nm, "GetModuleAccount") {
				n++
			}
		}
		r.Check(n == 1, "C17-R2", w.fn+"/single-bank-op", P.Pos(f.Pos()), "one bank operation", fmt.Sprintf("%d bank operations in %s", n, w.fn))
	}
	if f := r.fn(govK + "GetDAOOwner"); f != nil {
		if c := r.oneCall("C17-R2", "GetDAOOwner", f, "(types.Subspace).Get"); c != nil {
			t := P.callTerm(c).String()
			r.Check(strings.HasPrefix(t, "(types.Subspace).Get(param:k.paramstore, param:ctx, global:x/gov/types.DAOOwnerKey, "), "C17-R2", "GetDAOOwner/reads-stored-owner", P.InstrPos(c), t, "GetDAOOwner reads "+t)
		}
	}
	if f := r.fn("x/gov.handleMsgDaoTransfer"); f != nil {
		for _, w := range []struct{ call, want, act string }{
			{govK + "DAOTransferFrom", govK + "DAOTransferFrom(param:k, param:ctx, param:msg.FromAddress, param:msg.ToAddress, param:msg.Amount)", "1"},
			{govK + "DAOBurn", govK + "DAOBurn(param:k, param:ctx, param:msg.FromAddress, param:msg.Amount)", "2"},
		} {
			if c := r.oneCall("C17-R2", "handleMsgDaoTransfer", f, w.call); c != nil {
				t := P.callTerm(c).String()
				r.Check(t == w.want, "C17-R2", "handleMsgDaoTransfer/"+w.call[len(govK):], P.InstrPos(c), t, "dispatch is "+t+" ; required "+w.want)
				ok, _ := HasAtom(P.Guards(c, 0), `^isnil\(x/gov/types\.DAOActionFromString\(param:msg\.Action\)#1\)$`)
				r.Check(ok, "C17-R2", "handleMsgDaoTransfer/"+w.call[len(govK):]+"/action-parsed", P.InstrPos(c), "action parsed ok", "dispatched without a successfully parsed action")
			}
		}
	}
	checkModuleArgUsers(r, "C17-R2", "dao", []string{govK + "DAOTransferFrom", govK + "DAOBurn", govK + "GetDAOAccount", govK + "InitGenesis"})

	// ------------------------------------------------------------------ R3
	r.Rule("C17-R3", "every path from transaction execution to a Subspace writer goes through VerifyACL: the callers of Subspace.Set/Update/SetWithSubkey/UpdateWithSubkey/SetParamSet are the vetted set (gov ModifyParam/HandleUpgrade behind the ACL; module SetParams and pos.InitGenesis reachable from genesis only)", 6)
	writers := map[string][]string{
		"(types.Subspace).Set":              {"(types.Subspace).Update", "(types.Subspace).SetParamSet", govK + "HandleUpgrade"},
		"(types.Subspace).Update":           {govK + "ModifyParam"},
		"(types.Subspace).SetWithSubkey":    {"(types.Subspace).UpdateWithSubkey"},
		"(types.Subspace).UpdateWithSubkey": {},
		"(types.Subspace).SetParamSet":      {govK + "SetParams", "(x/auth/keeper.Keeper).SetParams", "(x/pos/keeper.Keeper).SetParams", "x/pos.InitGenesis"},
	}
	for fn, callers := range writers {
		if f := r.fn(fn); f != nil {
			r.callersExactly("C17-R3", fn, r.edgesTo(f), callers)
		}
	}
	var txRoots []*ssa.Function
	for _, n := range []string{"x/pos.NewHandler$1", "x/gov.NewHandler$1", "x/auth.NewAnteHandler$1", "x/pos/keeper.BeginBlocker", "x/pos/keeper.EndBlocker"} {
		if f := r.fnOpt(n); f != nil {
			txRoots = append(txRoots, f)
		}
	}
	// with VerifyACL-guarded functions as gates, no Subspace writer is reachable from tx/block execution
	gate := map[string]bool{govK + "ModifyParam": true, govK + "HandleUpgrade": true}
	reached := g.Reach(txRoots, func(f *ssa.Function) bool { return gate[short(f.String())] })
	for fn := range writers {
		if f := r.fnOpt(fn); f != nil {
			_, bad := reached[f]
			r.Check(!bad, "C17-R3", "ungated-path-to:"+fn, P.Pos(f.Pos()), "reachable from transactions only through the ACL-gated gov functions", fn+" is reachable from transaction/block execution without passing ModifyParam/HandleUpgrade: "+g.PathTo(reached, f))
		}
	}
	r.Stats["C17_functions_reachable_outside_gates"] = len(reached)

	// ------------------------------------------------------------------ R4
	r.Rule("C17-R4", "a change alters that parameter alone: Subspace.Update writes through Set with the key it was given; Set writes store.Set(key, …) in the subspace's own prefix store and marks only that key in the transient store", 4)
	if f := r.fn("(types.Subspace).Update"); f != nil {
		if c := r.oneCall("C17-R4", "Subspace.Update", f, "(types.Subspace).Set"); c != nil {
			t := P.callTerm(c)
			r.Check(argTerm(t, 0).String() == "param:s" && argTerm(t, 2).String() == "param:key", "C17-R4", "Subspace.Update/same-key", P.InstrPos(c), "Set(s, ctx, key, …)", "Update writes "+t.String())
			r.requireAtoms("C17-R4", "Subspace.Update/set", c, P.Guards(c, 0), []req{{"value-decoded", `^isnil\(\(\*github\.com/tendermint/go-amino\.Codec\)\.UnmarshalJSON\(param:s\.cdc, param:param, `}})
		}
	}
	if f := r.fn("(types.Subspace).Set"); f != nil {
		sets := CallsIn(f, "types.KVStore.Set")
		r.Check(len(sets) == 2, "C17-R4", "Subspace.Set/two-writes", P.Pos(f.Pos()), "one persistent and one transient write", fmt.Sprintf("%d store writes in Subspace.Set (expected 2)", len(sets)))
		for _, c := range sets {
			t := P.callTerm(c)
			st := argTerm(t, 0).String()
			okStore := st == "(types.Subspace).kvStore(param:s, param:ctx)" || st == "(types.Subspace).transientStore(param:s, param:ctx)"
			r.Check(okStore && argTerm(t, 1).String() == "param:key", "C17-R4", "Subspace.Set/write:"+st, P.InstrPos(c), "writes param:key in its own store", "Subspace.Set writes "+t.String())
		}
	}
}

// E5writes: is this call a direct store write or a call into a function that may write?
func E5writes(P *Prog, ci ssa.CallInstruction) bool {
	if isStoreWrite(ci.Common()) {
		return true
	}
	E := P.effectsCached()
	return E.callWrites(ci)
}

var effCache = map[*Prog]*Effects{}

func (P *Prog) effectsCached() *Effects {
	if e, ok := effCache[P]; ok {
		return e
	}
	e := P.Effects()
	effCache[P] = e
	return e
}

// checkModuleArgUsers: bank-API calls (any callee whose name mentions Coins or ModuleAccount) that pass the
// module name as an argument occur only in the allowed functions.
func checkModuleArgUsers(r *Run, rule, mod string, allowed []string) {
	P := r.P
	allow := map[string]bool{}
	for _, a := range allowed {
		allow[a] = true
	}
	n := 0
	for _, fn := range P.RepoFns {
		fn := fn
		InstrsRaw(fn, func(in ssa.Instruction) {
			ci, ok := in.(ssa.CallInstruction)
			if !ok {
				return
			}
			_, nm := calleeName(ci.Common())
			if !strings.Contains(nm, "Coins") && !strings.Contains(nm, "ModuleAccount") && !strings.Contains(nm, "ModuleAddress") {
				return
			}
			t := P.callTerm(ci)
			uses := false
			for _, a := range t.Args {
				if a.String() == `"`+mod+`"` {
					uses = true
				}
			}
			if !uses {
				return
			}
			n++
			name := short(enclosingTop(fn).String())
			if allow[name] {
				r.OK(rule, "module:"+mod+"/user:"+name+"/"+nm, P.InstrPos(in), "vetted bank call on the "+mod+" account")
			} else {
				r.Viol(rule, "module:"+mod+"/user:"+name+"/"+nm, P.InstrPos(in), name+" performs "+nm+" on the "+mod+" module account but is not a vetted user {"+strings.Join(allowed, ", ")+"}")
			}
		})
	}
	if n == 0 {
		r.Viol(rule, "module:"+mod+"/users", "-", "no bank call on the "+mod+" module account found")
	}
}
