package main

import (
	"fmt"
	"go/types"
	"strings"

	"golang.org/x/tools/go/ssa"
)

// Rules added after the syntactic mutation campaign (tools/mutgen, tools/mutrun.py): survivors of the test-suite that
// no rule reported and that do break a property clause.

// iterateHelpersStopOnTrue: walkers continue exactly while the callback says "do not stop" (generic, RI1).
func iterateHelpersStopOnTrue(r *Run, rule string) {
	P := r.P
	r.Rule(rule, "iteration helpers honour the callback's stop flag with the right sense: in every function in scope that takes a `func(...) (stop bool)` callback and walks a store iterator, the iterator's Next() is reached from the callback only when it returned false", 1)
	n := 0
	for _, f := range P.RepoFns {
		if f.Parent() != nil || !(r.Anchors[f] || inScope(r.Prop, f)) || len(f.Blocks) < 2 {
			continue
		}
		var cb *ssa.Parameter
		for _, p := range f.Params {
			if sig, ok := p.Type().Underlying().(*types.Signature); ok && sig.Results().Len() == 1 {
				if b, ok := sig.Results().At(0).Type().Underlying().(*types.Basic); ok && b.Kind() == types.Bool {
					cb = p
				}
			}
		}
		if cb == nil {
			continue
		}
		nexts := CallsIn(f, "github.com/tendermint/tm-db.Iterator.Next")
		var cbCalls []ssa.CallInstruction
		Instrs(f, func(in ssa.Instruction) {
			if ci, ok := in.(ssa.CallInstruction); ok && ci.Common().Value == ssa.Value(cb) {
				cbCalls = append(cbCalls, ci)
			}
		})
		if len(cbCalls) == 0 {
			continue
		}
		// once the callback asked to stop it is never invoked again
		isCb := func(in ssa.Instruction) bool {
			ci, ok := in.(ssa.CallInstruction)
			return ok && ci.Common().Value == ssa.Value(cb)
		}
		for _, e := range P.ifEdgesFor(f, `^dyn\[param:`+pinnedParamName(cb)+`\]\(`) {
			n++
			reach, w, _ := ReachFromEdge(e.B, e.I, isCb, nil, nil)
			r.Check(!reach, rule, "stop-ends-the-walk@"+short(f.String()), P.Pos(f.Pos()), "no callback invocation after stop=true", short(f.String())+" invokes its callback again ("+P.InstrPos(w)+") after it returned stop=true: the flag is ignored or inverted")
		}
		if len(nexts) == 0 {
			continue
		}
		for _, nx := range nexts {
			n++
			gs := P.Guards(nx, 0)
			neg, pos := false, false
			for _, a := range gs {
				if a.T.Op == "dyn" || strings.HasPrefix(a.T.String(), "dyn[param:"+pinnedParamName(cb)+"]") {
					if a.Pos {
						pos = true
					} else {
						neg = true
					}
				}
			}
			// Next either follows a non-stopping callback (negative guard) or is not conditioned on the callback at all
			// (helpers that test the flag in the loop header instead)
			r.Check(!pos, rule, "continue-iff-not-stop@"+short(f.String()), P.InstrPos(nx), fmt.Sprintf("Next() after a callback that returned false (negative guard present: %v)", neg), short(f.String())+" advances its iterator only when the callback returned TRUE (stop): the walk ends after the first element that does not ask to stop")
		}
	}
	r.OK(rule, "iteration-helpers-scanned", "-", fmt.Sprintf("%d iterator advances in callback-driven walkers checked", n))
}

// getStateShape: which in-memory state a transaction runs on (C11-R15).
func getStateShape(r *Run, rule string) {
	P := r.P
	r.Rule(rule, "CheckTx and Simulate run on the check state, DeliverTx on the deliver state: BaseApp.getState returns app.checkState exactly under mode == Check or mode == Simulate and app.deliverState otherwise", 2)
	f := r.fn("(*baseapp.BaseApp).getState")
	if f == nil {
		return
	}
	for i, a := range P.RetAlternatives(f, 0) {
		t := a.T.String()
		key := fmt.Sprintf("getState/alternative#%d", i)
		n0, _ := HasAtom(a.G, `^!\(0 == param:mode\)$`)
		n1, _ := HasAtom(a.G, `^!\(1 == param:mode\)$`)
		switch t {
		case "param:app.deliverState":
			r.Check(n0 && n1, rule, key+"/deliver-state-only-in-deliver-mode", P.InstrPos(a.Ret), "mode is neither Check nor Simulate", "getState returns the deliver state under {"+strings.Join(atomStrings(a.G), " ; ")+"}: a CheckTx or a simulation would execute on (and change) the state of the block being delivered")
		case "param:app.checkState":
			r.Check(!(n0 && n1), rule, key+"/check-state", P.InstrPos(a.Ret), "check or simulate mode", "getState returns the check state in deliver mode")
		default:
			r.Viol(rule, key+"/unknown", P.InstrPos(a.Ret), "getState returns "+t)
		}
	}
}

// recoverHandled: the recovered panic is turned into an error result (C11-R16).
func recoverHandled(r *Run, rule string) {
	P := r.P
	r.Rule(rule, "a panicking handler becomes a rejected transaction: in runTx's deferred recover closure the result is overwritten with an error result exactly under recover() != nil (out-of-gas → ErrOutOfGas, anything else → ErrInternal)", 2)
	f := r.fn("(*baseapp.BaseApp).runTx")
	if f == nil {
		return
	}
	n := 0
	for _, cl := range f.AnonFuncs {
		hasRec := false
		InstrsRaw(cl, func(in ssa.Instruction) {
			if c, ok := in.(*ssa.Call); ok {
				if b, ok := c.Call.Value.(*ssa.Builtin); ok && b.Name() == "recover" {
					hasRec = true
				}
			}
		})
		if !hasRec {
			continue
		}
		InstrsRaw(cl, func(in ssa.Instruction) {
			st, ok := in.(*ssa.Store)
			if !ok || P.TermAt(st.Addr, st).String() != "free:result" {
				return
			}
			n++
			ok2, _ := HasAtom(P.Guards(st, 0), `^!isnil\(recover\(\)\)$`)
			v := P.TermAt(st.Val, st).String()
			r.Check(ok2 && strings.HasPrefix(v, "types.Error.Result(types.Err"), rule, fmt.Sprintf("runTx/recover/result#%d", n), P.InstrPos(st), "error result under recover() != nil", "the result is set to "+oneLine(v)+" under {"+strings.Join(atomStrings(P.Guards(st, 0)), " ; ")+"} ; required an error result exactly when a panic was recovered")
		})
	}
	if n < 2 {
		r.Viol(rule, "runTx/recover/results", P.Pos(f.Pos()), fmt.Sprintf("%d result assignments in the recover closure (expected the out-of-gas and the internal-error one)", n))
	}
}

// queryHeightDefaults: the height of a query is replaced only when the client gave none; proofs at height <= 1 are refused (C14-R10).
func queryHeightDefaults(r *Run, rule string) {
	P := r.P
	r.Rule(rule, "handleQueryStore and handleQueryCustom inject the latest height exactly under req.Height == 0 and refuse a proof exactly under height <= 1 && req.Prove", 4)
	for _, n := range []string{"baseapp.handleQueryStore", "baseapp.handleQueryCustom"} {
		f := r.fn(n)
		if f == nil {
			continue
		}
		found := false
		Instrs(f, func(in ssa.Instruction) {
			st, ok := in.(*ssa.Store)
			if !ok || !strings.HasSuffix(P.TermAt(st.Addr, st).String(), "RequestQuery.Height") {
				return
			}
			found = true
			// the stored value may come out of a value-selecting helper: each of its alternatives is judged
			for _, a := range P.StoredAlternatives(st.Val, st) {
				isZero, _ := HasAtom(a.G, `^\(0 == param:req\.Height\)$`)
				v := a.T.String()
				if v == "param:req.Height" {
					// the requested height is kept: only when one was given
					notZero, _ := HasAtom(a.G, `^!\(0 == param:req\.Height\)$`)
					r.Check(notZero, rule, n+"/default-only-when-unset", P.InstrPos(st), "req.Height kept under req.Height != 0", n+" keeps the request's height under {"+strings.Join(atomStrings(a.G), " ; ")+"}: a missing height would be left at 0")
					continue
				}
				r.Check(isZero && v == "(*baseapp.BaseApp).LastBlockHeight(param:app)", rule, n+"/default-only-when-unset", P.InstrPos(st), "req.Height = LastBlockHeight() under req.Height == 0", n+" overwrites the requested height with "+oneLine(v)+" under {"+strings.Join(atomStrings(a.G), " ; ")+"}: an explicit height would be replaced (or a missing one left at 0)")
			}
		})
		if !found {
			r.Viol(rule, n+"/default-only-when-unset", P.Pos(f.Pos()), n+" no longer injects the latest height into the request")
		}
		for _, c := range CallsIn(f, "types.ErrInternal") {
			t := P.callTerm(c).String()
			if !strings.Contains(t, "cannot query with proof") {
				continue
			}
			gs := P.Guards(c, 0)
			a1, _ := HasAtom(gs, `^!\(1 < phi\(`)
			a2, _ := HasAtom(gs, `^param:req\.Prove$`)
			r.Check(a1 && a2, rule, n+"/proof-refused-only-at-low-height", P.InstrPos(c), "height <= 1 && Prove", n+" refuses the query under {"+strings.Join(atomStrings(gs), " ; ")+"} ; required both height <= 1 and req.Prove")
		}
	}
}

// mergeIteratorPositions: every observer of the merge iterator first skips to an existing entry (C15-R13).
func mergeIteratorPositions(r *Run, rule string) {
	P := r.P
	r.Rule(rule, "the merged view never exposes a deleted or stale position: cacheMergeIterator.Valid returns skipUntilExistsOrInvalid(), and Key, Value and Next call skipUntilExistsOrInvalid (then assertValid) before looking at either side", 4)
	for _, m := range []string{"Valid", "Key", "Value", "Next"} {
		f := r.fn("(*store/cachekv.cacheMergeIterator)." + m)
		if f == nil {
			continue
		}
		cs := CallsIn(f, "(*store/cachekv.cacheMergeIterator).skipUntilExistsOrInvalid")
		if len(cs) == 0 {
			r.Viol(rule, m+"/skips-first", P.Pos(f.Pos()), "cacheMergeIterator."+m+" no longer calls skipUntilExistsOrInvalid: it can expose a tombstoned key or the wrong side's entry")
			continue
		}
		first := true
		for _, o := range append(CallsIn(f, "github.com/tendermint/tm-db.Iterator.Key"), append(CallsIn(f, "github.com/tendermint/tm-db.Iterator.Value"), CallsIn(f, "github.com/tendermint/tm-db.Iterator.Next")...)...) {
			if !Precedes(cs[0], o) {
				first = false
			}
		}
		r.Check(first, rule, m+"/skips-first", P.InstrPos(cs[0]), "skip precedes every look at parent/cache", "cacheMergeIterator."+m+" looks at an underlying iterator before skipUntilExistsOrInvalid")
	}
}

// decOrderHelpers: MinDec / MaxDec pick the right side (C18-R9); the branch-free comparison methods are held by RT1.
func decOrderHelpers(r *Run, rule string) {
	P := r.P
	r.Rule(rule, "MinDec returns d1 iff d1 < d2 else d2; MaxDec returns d2 iff d1 < d2 else d1; Int.Mul pre-checks BitLen(i)+BitLen(i2)-1 > 255 and post-checks the product", 5)
	for _, w := range []struct{ fn, whenLT, otherwise string }{{"types.MinDec", "param:d1", "param:d2"}, {"types.MaxDec", "param:d2", "param:d1"}} {
		f := r.fnOpt(w.fn)
		if f == nil {
			continue
		}
		if alts := P.RetAlternatives(f, 0); len(alts) != 2 {
			r.Viol(rule, w.fn+"/two-alternatives", P.Pos(f.Pos()), fmt.Sprintf("%s has %d return alternatives (expected 2: one per order)", w.fn, len(alts)))
		}
		for i, a := range P.RetAlternatives(f, 0) {
			lt, _ := HasAtom(a.G, `^\(types\.Dec\)\.LT\(param:d1, param:d2\)$`)
			want := w.otherwise
			if lt {
				want = w.whenLT
			}
			r.Check(a.T.String() == want, rule, fmt.Sprintf("%s/alternative#%d", w.fn, i), P.InstrPos(a.Ret), a.T.String(), fmt.Sprintf("%s returns %s under {%s} ; required %s", w.fn, a.T.String(), strings.Join(atomStrings(a.G), " ; "), want))
		}
	}
	if f := r.fn("(types.Int).Mul"); f != nil {
		for i, ret := range Returns(f) {
			gs := P.Guards(ret, 0)
			pre, _ := HasAtom(gs, `^!\(255 < \(\(\(\*math/big\.Int\)\.BitLen\(param:i\.i\) \+ \(\*math/big\.Int\)\.BitLen\(param:i2\.i\)\) - 1\)\)$`)
			r.Check(pre, rule, fmt.Sprintf("Int.Mul/return#%d/pre-check", i), P.InstrPos(ret), "pre-check BitLen(i)+BitLen(i2)-1 <= 255", "Int.Mul returns under {"+strings.Join(atomStrings(gs), " ; ")+"}: the cheap pre-check is not the documented one (it would reject representable products or let oversized operands through to the multiplication)")
		}
	}
}

// divisorZeroPolarity: Quo/Mod panic exactly on a zero divisor (C18-R10).
func divisorZeroPolarity(r *Run, rule string) {
	P := r.P
	r.Rule(rule, "division refuses exactly the zero divisor: Int.Quo/QuoRaw/Mod/ModRaw return only under a NON-zero test of the divisor (Sign() != 0 / !IsZero / != 0)", 4)
	for _, n := range []string{"(types.Int).Quo", "(types.Int).Mod"} {
		f := r.fnOpt(n)
		if f == nil {
			continue
		}
		for i, ret := range Returns(f) {
			ok := false
			for _, a := range P.Guards(ret, 0) {
				k := a.Key()
				if reMatch(`^!\(.*Sign\(param:i2(\.i)?\) == 0\)$`, k) || reMatch(`^!\(0 == .*Sign\(param:i2(\.i)?\)\)$`, k) || strings.HasPrefix(k, "!(types.Int).IsZero(param:i2") {
					ok = true
				}
			}
			r.Check(ok, rule, fmt.Sprintf("%s/return#%d/nonzero-divisor", n, i), P.InstrPos(ret), "returns only for a non-zero divisor", n+" returns under {"+strings.Join(atomStrings(P.Guards(ret, 0)), " ; ")+"}: the divisor is not known to be non-zero here (the zero test is missing or inverted)")
		}
	}
	for _, w := range []struct{ fn, via string }{{"(types.Int).QuoRaw", "(types.Int).Quo"}, {"(types.Int).ModRaw", "(types.Int).Mod"}} {
		f := r.fnOpt(w.fn)
		if f == nil {
			continue
		}
		for _, ret := range Returns(f) {
			t := P.TermAt(ret.Results[0], ret).String()
			r.Check(t == w.via+"(param:i, types.NewInt(param:i2))", rule, w.fn+"/through-checked-variant", P.InstrPos(ret), t, w.fn+" returns "+t+" ; required "+w.via+"(i, NewInt(i2)) (the variant that tests the divisor)")
		}
	}
}

// downtimeSlashHeight: the downtime slash names a past height (C07-R14).
func downtimeSlashHeight(r *Run, rule string) {
	P := r.P
	r.Rule(rule, "the downtime slash is attributed to the height the vote was for: handleValidatorSignature passes ctx.BlockHeight() - 1 - ValidatorUpdateDelay (a past height; validateSlash rejects future ones) to slash", 1)
	f := r.fn(posK + "handleValidatorSignature")
	if f == nil {
		return
	}
	if c := r.oneCall(rule, "downtime", f, posK+"slash"); c != nil {
		h := argTerm(P.callTerm(c), 3).String()
		r.Check(h == "((types.Ctx.BlockHeight(param:ctx) - 1) - 1)", rule, "downtime/infraction-height", P.InstrPos(c), h, "the downtime slash names height "+h+" ; required (ctx.BlockHeight() - 1) - ValidatorUpdateDelay: a height in the future makes validateSlash refuse every downtime slash")
	}
}

// maxValidatorsBounds: the staked-set readers stop at MaxValidators (C05-R10).
func maxValidatorsBounds(r *Run, rule string) {
	P := r.P
	r.Rule(rule, "readers of the staked set agree with UpdateTendermintValidators on its size: getStakedValidators and IterateAndExecuteOverStakedVals visit an entry only while the count is strictly below MaxValidators", 2)
	for _, n := range []string{posK + "getStakedValidators", posK + "IterateAndExecuteOverStakedVals"} {
		f := r.fnOpt(n)
		if f == nil {
			continue
		}
		ok := false
		for _, c := range CallsIn(f, "github.com/tendermint/tm-db.Iterator.Value") {
			for _, a := range P.Guards(c, 0) {
				k := canonAtom(a.Key())
				if a.Pos && strings.HasPrefix(k, "(phi(") && strings.HasSuffix(k, " < "+posK+"MaxValidators(param:k, param:ctx))") {
					ok = true
				}
			}
		}
		r.Check(ok, rule, short(n)+"/strictly-below-max", P.Pos(f.Pos()), "entries read under count < MaxValidators", short(n)+" no longer reads entries under count < MaxValidators(ctx) (off by one: MaxValidators+1 validators would be reported)")
	}
}

func init() {
	for _, p := range []string{"C02", "C05", "C06", "C08", "C09", "C10"} {
		p := p
		extend(p, func(r *Run) { iterateHelpersStopOnTrue(r, p+"-RI1") })
	}
	extend("C11", func(r *Run) {
		getStateShape(r, "C11-R15")
		recoverHandled(r, "C11-R16")
	})
	extend("C01", func(r *Run) { getStateShape(r, "C01-R11") })
	extend("C14", func(r *Run) { queryHeightDefaults(r, "C14-R10") })
	extend("C15", func(r *Run) { mergeIteratorPositions(r, "C15-R13") })
	extend("C18", func(r *Run) {
		decOrderHelpers(r, "C18-R9")
		divisorZeroPolarity(r, "C18-R10")
	})
	extend("C07", func(r *Run) { downtimeSlashHeight(r, "C07-R14") })
	extend("C05", func(r *Run) { maxValidatorsBounds(r, "C05-R10") })
}

// stakePubKeyType: a new validator's consensus key is of a type the chain supports (C06-R13).
func stakePubKeyType(r *Run, rule string) {
	r.Rule(rule, "stakeNewValidator registers a validator only if the consensus parameters are absent or list the key's type: every path to RegisterValidator crosses `ConsensusParams() == nil` or `StringInSlice(type, PubKeyTypes)`", 1)
	f := r.fn("x/pos.stakeNewValidator")
	if f == nil {
		return
	}
	for _, c := range CallsIn(f, posK+"RegisterValidator") {
		r.requireCut(rule, "stakeNewValidator/RegisterValidator", nil, c, "key-type-supported-or-no-params",
			`^isnil\(types\.Ctx\.ConsensusParams\(param:ctx\)\)$`,
			`^github\.com/tendermint/tendermint/libs/common\.StringInSlice\(`)
	}
}

// missedArrayReadsPresentEntries: the export walk reports exactly the stored bits (C08-R9).
func missedArrayReadsPresentEntries(r *Run, rule string) {
	P := r.P
	r.Rule(rule, "IterateAndExecuteOverMissedArray hands the callback exactly the entries that are stored: the decode and the callback run under store.Get(key) != nil", 1)
	f := r.fn(posK + "IterateAndExecuteOverMissedArray")
	if f == nil {
		return
	}
	n := 0
	Instrs(f, func(in ssa.Instruction) {
		ci, ok := in.(ssa.CallInstruction)
		if !ok {
			return
		}
		if p, isP := ci.Common().Value.(*ssa.Parameter); !isP || pinnedParamName(p) != "handler" {
			return
		}
		n++
		if len(ci.Common().Args) >= 2 {
			at := P.TermAt(ci.Common().Args[1], in).String()
			r.Check(strings.Contains(at, "UnmarshalBinaryLengthPrefixed("), rule, "IterateAndExecuteOverMissedArray/callback-gets-decoded-bit", P.InstrPos(in), "the stored bit, decoded", "the callback receives "+oneLine(at)+" as the missed flag ; required the value decoded from the stored bytes")
		}
		ok2, _ := HasAtom(P.Guards(in, 0), `^!isnil\(store/types\.KVStore\.Get\(`)
		r.Check(ok2, rule, "IterateAndExecuteOverMissedArray/callback-on-present", P.InstrPos(in), "callback under Get != nil", "the callback runs under {"+strings.Join(atomStrings(P.Guards(in, 0)), " ; ")+"} ; required store.Get(key) != nil (absent slots would be reported, present ones skipped)")
	})
	if n == 0 {
		r.Viol(rule, "IterateAndExecuteOverMissedArray/callback-on-present", P.Pos(f.Pos()), "the callback is no longer invoked")
	}
	// an unset slot is skipped, not the end of the walk: from the "nothing stored" edge the next slot is still read
	isGet := CallTo("store/types.KVStore.Get")
	for _, e := range P.ifEdgesFor(f, `^isnil\(store/types\.KVStore\.Get\(`) {
		reach, _, _ := ReachFromEdge(e.B, e.I, isGet, nil, nil)
		r.Check(reach, rule, "IterateAndExecuteOverMissedArray/sparse-array-walked-through", P.Pos(f.Pos()), "the walk continues past an unset slot", "after an unset slot no further slot is read: the sparse missed-block array is truncated at its first gap")
	}
}

func init() {
	extend("C06", func(r *Run) { stakePubKeyType(r, "C06-R13") })
	extend("C08", func(r *Run) { missedArrayReadsPresentEntries(r, "C08-R9") })
}

// burnAccumulates: a queued burn is added to what is already queued (C07-R15).
func burnAccumulates(r *Run, rule string) {
	P := r.P
	r.Rule(rule, "BurnValidator accumulates: the severity is added to the queued value when one was found and to ZeroDec() only when none was — the receiver of Add is the merge of exactly these two, selected by `found`", 1)
	f := r.fn(posK + "BurnValidator")
	if f == nil {
		return
	}
	get := posK + "getValidatorBurn(param:k, param:ctx, param:address)"
	if len(CallsIn(f, "(types.Dec).Add")) == 0 || len(CallsIn(f, posK+"getValidatorBurn")) == 0 {
		r.Viol(rule, "BurnValidator/zero-iff-not-found", P.Pos(f.Pos()), "BurnValidator no longer reads the queued burn and adds to it: a second report in the same block overwrites the first")
	}
	for _, c := range CallsIn(f, "(types.Dec).Add") {
		ci, ok := c.(*ssa.Call)
		if !ok || len(ci.Call.Args) == 0 {
			continue
		}
		recv := ci.Call.Args[0]
		// the receiver's alternatives (a merged local, or the result of a selecting helper) and their guards
		alts := P.Alternatives(recv, c)
		okSel := len(alts) == 2
		for _, a := range alts {
			found, _ := HasAtom(a.G, `^`+q(get+"#1")+`$`)
			notFound, _ := HasAtom(a.G, `^!`+q(get+"#1")+`$`)
			switch t := a.T.String(); {
			case t == "types.ZeroDec()":
				if !notFound {
					okSel = false
				}
			case t == get+"#0":
				if !found {
					okSel = false
				}
			default:
				okSel = false
			}
		}
		r.Check(okSel, rule, "BurnValidator/zero-iff-not-found", P.InstrPos(c), "queued value when found, ZeroDec() when not", "BurnValidator adds the severity to "+oneLine(P.TermAt(recv, c).String())+": the queued burn is used when it was NOT found (a nil Dec) or discarded when it was found")
	}
}

// txContextCaching: only a simulation runs on a throw-away copy of the state context (C11-R17).
func txContextCaching(r *Run, rule string) {
	P := r.P
	r.Rule(rule, "getContextForTx wraps the context in a CacheContext exactly under mode == Simulate: CheckTx and DeliverTx run on their state's own context (a cached deliver context would silently drop every delivered transaction's writes)", 1)
	f := r.fn("(*baseapp.BaseApp).getContextForTx")
	if f == nil {
		return
	}
	cs := CallsIn(f, "types.Ctx.CacheContext")
	if len(cs) == 0 {
		cs = CallsIn(f, "(types.Context).CacheContext")
	}
	if len(cs) == 0 {
		r.Viol(rule, "getContextForTx/cache-in-simulate", P.Pos(f.Pos()), "getContextForTx no longer creates a cache context for simulations")
		return
	}
	for _, c := range cs {
		gs := P.Guards(c, 0)
		ok, _ := HasAtom(gs, `^\(1 == param:mode\)$`)
		r.Check(ok, rule, "getContextForTx/cache-in-simulate", P.InstrPos(c), "under mode == Simulate", "CacheContext is created under {"+strings.Join(atomStrings(gs), " ; ")+"} ; required mode == Simulate only")
	}
}

func init() {
	extend("C07", func(r *Run) { burnAccumulates(r, "C07-R15") })
	extend("C11", func(r *Run) { txContextCaching(r, "C11-R17") })
}

func init() {
	extend("C10", func(r *Run) {
		r.Rule("C10-R9", "an award raises the supply by exactly the award: MintCoins adds amt to the module account and inflates the supply by the same amt (not by the account's new balance), SetSupply only after AddCoins succeeded (= C02-R3)", 3)
		if f := r.fn(bankK + "MintCoins"); f != nil {
			mintBurnRule = "C10-R9"
			checkMintBurn(r, f, "MintCoins", "AddCoins", "Inflate", "minter")
			mintBurnRule = "C02-R3"
		}
	})
	extend("C07", func(r *Run) {
		r.Rule("C07-R16", "a slash lowers the supply by exactly what is burned: BurnCoins subtracts amt from the module account and deflates the supply by the same amt (= C02-R3); the slash amount is truncated toward zero: Dec.TruncateInt is chopPrecisionAndTruncate", 4)
		if f := r.fn(bankK + "BurnCoins"); f != nil {
			mintBurnRule = "C07-R16"
			checkMintBurn(r, f, "BurnCoins", "SubtractCoins", "Deflate", "burner")
			mintBurnRule = "C02-R3"
		}
		if f := r.fn("(types.Dec).TruncateInt"); f != nil {
			for _, ret := range Returns(f) {
				t := r.P.TermAt(ret.Results[0], ret).String()
				r.Check(t == "types.NewIntFromBigInt(types.chopPrecisionAndTruncateNonMutative(param:d.Int))", "C07-R16", "Dec.TruncateInt", r.P.InstrPos(ret), t, "Dec.TruncateInt returns "+t+" ; required the truncating chop (the slash amount must never round up)")
			}
		}
		// the arithmetic the slash amount is computed with belongs to this property's scope
		for _, n := range []string{"types.TokensFromConsensusPower", "(types.Int).ToDec", "(types.Dec).Mul", "types.MinInt", "types.MaxInt"} {
			r.fnOpt(n)
		}
	})
}

// genesisDuplicateCheck: the seen-set of validateGenesisStateValidators is filled (C04-R7, C06-R14).
func genesisDuplicateCheck(r *Run, rule string) {
	P := r.P
	r.Rule(rule, "a genesis that lists a validator twice is refused: validateGenesisStateValidators looks every validator's key up in a seen-set and records it there on every iteration that passes the checks before it (InitGenesis adds each listed validator's tokens to the pool funding, so a duplicate would fund the pool twice for one record)", 2)
	f := r.fn("x/pos.validateGenesisStateValidators")
	if f == nil {
		return
	}
	var lookups []*ssa.Lookup
	var updates []*ssa.MapUpdate
	Instrs(f, func(in ssa.Instruction) {
		switch x := in.(type) {
		case *ssa.Lookup:
			if _, isMap := x.X.Type().Underlying().(*types.Map); isMap {
				lookups = append(lookups, x)
			}
		case *ssa.MapUpdate:
			updates = append(updates, x)
		}
	})
	if len(lookups) == 0 {
		r.Viol(rule, "validateGenesisStateValidators/looks-up-seen-set", P.Pos(f.Pos()), "no duplicate look-up any more")
		return
	}
	r.OK(rule, "validateGenesisStateValidators/looks-up-seen-set", P.InstrPos(lookups[0]), "seen-set consulted")
	ok := false
	for _, u := range updates {
		for _, l := range lookups {
			if u.Map == l.X && canonAtom(P.TermAt(u.Key, u).String()) == canonAtom(P.TermAt(l.Index, l).String()) {
				ok = true
			}
		}
	}
	r.Check(ok, rule, "validateGenesisStateValidators/records-seen-key", P.Pos(f.Pos()), "the looked-up key is recorded", "the seen-set is consulted but the key is never recorded in it: the duplicate check cannot fire")
}

func init() {
	extend("C04", func(r *Run) { genesisDuplicateCheck(r, "C04-R7") })
	extend("C06", func(r *Run) { genesisDuplicateCheck(r, "C06-R14") })
}
