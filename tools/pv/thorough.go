package main

import (
	"encoding/json"
	"fmt"
	"os"
	"os/exec"
	"path/filepath"
	"regexp"
	"sort"
	"strings"
	"sync"

	"golang.org/x/tools/go/callgraph"
	"golang.org/x/tools/go/callgraph/cha"
	"golang.org/x/tools/go/callgraph/vta"
	"golang.org/x/tools/go/ssa"
	"golang.org/x/tools/go/ssa/ssautil"
)

// The thorough tier. A static analysis has no exploration depth to turn up: the quick tier already decides every
// rule instance on every path of the whole program. What the thorough tier adds is (T1) an independent call graph
// (VTA seeded with CHA over the WHOLE program, library code included) whose repo→repo edges must be contained in
// the repo call graph the ownership and reachability rules are evaluated on — edges it lacks are added before the
// rules run and reported; (T2) the same rules decided a second time on the program as built for GOARCH=386 (other
// word size, cgo off: a different selection of build-constrained files in the dependencies); (T3) a sensitivity
// replay: every recorded property-breaking patch for this property (/verif/seeded, /verif/mutants) is applied to a
// scratch copy of the CURRENT tree and the rules must fire there — recorded in the evidence, never in the verdict.

// CrossCheckVTA adds to g every repo→repo edge of the VTA call graph that g lacks and returns their descriptions.
func (g *CallGraph) CrossCheckVTA() (missing []string, total int) {
	P := g.P
	all := ssautil.AllFunctions(P.SSA)
	vg := vta.CallGraph(all, cha.CallGraph(P.SSA))
	have := map[[2]*ssa.Function]bool{}
	for f, es := range g.Out {
		for _, e := range es {
			if e.Callee != nil {
				have[[2]*ssa.Function{f, e.Callee}] = true
			}
		}
	}
	repo := map[*ssa.Function]bool{}
	for _, f := range P.RepoFns {
		repo[f] = true
	}
	callgraph.GraphVisitEdges(vg, func(e *callgraph.Edge) error {
		if e.Caller == nil || e.Callee == nil || e.Site == nil {
			return nil
		}
		caller, callee := e.Caller.Func, unwrapBound(P, e.Callee.Func)
		if !repo[caller] || !repo[callee] {
			return nil
		}
		total++
		if have[[2]*ssa.Function{caller, callee}] {
			return nil
		}
		have[[2]*ssa.Function{caller, callee}] = true
		g.add(&Edge{Caller: caller, Site: e.Site, Callee: callee, Kind: "vta"})
		missing = append(missing, short(caller.String())+" → "+short(callee.String())+" at "+P.InstrPos(e.Site))
		return nil
	})
	sort.Strings(missing)
	return missing, total
}

type sensResult struct {
	Patch  string `json:"patch"`
	Status string `json:"status"` // fired | silent | not-applicable
	Note   string `json:"note,omitempty"`
}

// sensitivityPatches lists the recorded property-breaking patches for prop.
func sensitivityPatches(verif, prop string) []string {
	var out []string
	metas, _ := filepath.Glob(filepath.Join(verif, "seeded", "*", "meta.json"))
	for _, m := range metas {
		b, err := os.ReadFile(m)
		if err != nil {
			continue
		}
		var v struct {
			Property interface{} `json:"property"`
		}
		if json.Unmarshal(b, &v) != nil {
			continue
		}
		match := false
		switch x := v.Property.(type) {
		case string:
			match = x == prop
		case []interface{}:
			for _, y := range x {
				if s, ok := y.(string); ok && s == prop {
					match = true
				}
			}
		}
		if p := filepath.Join(filepath.Dir(m), "patch.diff"); match {
			if _, err := os.Stat(p); err == nil {
				out = append(out, p)
			}
		}
	}
	muts, _ := filepath.Glob(filepath.Join(verif, "mutants", "*.patch"))
	rx := regexp.MustCompile(`(?m)^#\s*expect:\s*(.*)$`)
	for _, m := range muts {
		b, err := os.ReadFile(m)
		if err != nil {
			continue
		}
		if mm := rx.FindSubmatch(b); mm != nil {
			for _, id := range strings.Fields(string(mm[1])) {
				if id == prop {
					out = append(out, m)
				}
			}
		}
	}
	sort.Strings(out)
	return out
}

// sensitivityReplay applies each patch to a scratch copy of repo and runs this binary's quick tier on it.
func sensitivityReplay(repo, verif, prop string) []sensResult {
	patches := sensitivityPatches(verif, prop)
	res := make([]sensResult, len(patches))
	self, err := os.Executable()
	if err != nil {
		return nil
	}
	var wg sync.WaitGroup
	sem := make(chan bool, 4)
	for i, p := range patches {
		wg.Add(1)
		go func(i int, p string) {
			defer wg.Done()
			sem <- true
			defer func() { <-sem }()
			rel, _ := filepath.Rel(verif, p)
			res[i] = sensResult{Patch: rel}
			scratch, err := os.MkdirTemp("", "pv-sens-")
			if err != nil {
				res[i].Status, res[i].Note = "not-applicable", err.Error()
				return
			}
			defer os.RemoveAll(scratch)
			tree := filepath.Join(scratch, "repo")
			ev := filepath.Join(scratch, "verif")
			os.MkdirAll(ev, 0o755)
			if out, err := exec.Command("rsync", "-a", "--exclude", ".git", repo+"/", tree+"/").CombinedOutput(); err != nil {
				res[i].Status, res[i].Note = "not-applicable", "copy failed: "+oneLine(string(out))
				return
			}
			if b, err := os.ReadFile(filepath.Join(verif, "known_findings.json")); err == nil {
				os.WriteFile(filepath.Join(ev, "known_findings.json"), b, 0o644)
			}
			ap := exec.Command("git", "apply", "--whitespace=nowarn", p)
			ap.Dir = tree
			ap.Env = append(os.Environ(), "GIT_DIR=/nonexistent", "GIT_CEILING_DIRECTORIES="+scratch)
			if out, err := ap.CombinedOutput(); err != nil {
				res[i].Status, res[i].Note = "not-applicable", "patch does not apply to the current tree: "+oneLine(string(out))
				return
			}
			cmd := exec.Command(self, "-prop", prop, "-tier", "quick", "-repo", tree, "-verif", ev)
			out, _ := cmd.CombinedOutput()
			switch {
			case strings.Contains(string(out), "VIOLATION property="+prop):
				res[i].Status = "fired"
				for _, l := range strings.Split(string(out), "\n") {
					if strings.HasPrefix(strings.TrimSpace(l), "violated ") {
						res[i].Note = oneLine(strings.TrimSpace(l))
						if len(res[i].Note) > 200 {
							res[i].Note = strings.ToValidUTF8(res[i].Note[:200], "")
						}
						break
					}
				}
			default:
				res[i].Status = "silent"
				res[i].Note = "the rules did not fire on this variant of the current tree"
			}
		}(i, p)
	}
	wg.Wait()
	return res
}

// runThorough decides the property on the default build, on GOARCH=386, and replays the recorded patches.
func runThorough(P *Prog, repo, verif, id string, f checkFn, r *Run) {
	// T2: second build configuration
	P2, err := Load(repo, []string{"GOARCH=386", "CGO_ENABLED=0"}, nil)
	if err != nil {
		r.Undecided("thorough", "goarch=386/load", "-", "the GOARCH=386 build of the tree does not load: "+err.Error())
	} else {
		if miss, _ := P2.CG().CrossCheckVTA(); len(miss) > 0 {
			r.Stats["goarch386_vta_edges_added"] = len(miss)
		}
		r2 := NewRun(P2, id, "thorough")
		func() {
			defer func() {
				if e := recover(); e != nil {
					r.Undecided("thorough", "goarch=386/panic", "-", fmt.Sprint(e))
				}
			}()
			f(r2)
		}()
		theProg = P
		helperCtx = map[*ssa.Function]*ssa.Call{}
		r.Stats["goarch386_obligations"] = len(r2.Obls)
		r.Stats["goarch386_packages"] = len(P2.Pkgs)
		// merge: an obligation whose verdict differs from the default build is recorded under its own key
		base := map[string]string{}
		for _, o := range r.Obls {
			base[o.Key] = o.Verdict
		}
		diff := 0
		for _, o := range r2.Obls {
			if v, ok := base[o.Key]; ok && v == o.Verdict {
				continue
			}
			diff++
			o.Key = o.Key + "@goarch=386"
			r.Obls = append(r.Obls, o)
			r.counts[o.Rule]++
		}
		r.Stats["goarch386_differing_obligations"] = diff
	}
}
