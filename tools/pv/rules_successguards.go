package main

import (
	_ "embed"
	"encoding/json"
	"fmt"
	"go/types"
	"sort"
	"strings"

	"golang.org/x/tools/go/ssa"
)

// Success conditions are monotone. For every repo function with an error-like result (error, sdk.Error, sdk.Result)
// or a boolean result, each "success" return — error result nil / constant true — is reached on the pinned tree under
// a set of local guards (normalised atoms); pinned_success_guards.json records
// them (`pv -dump successguards`). On the current tree every success return must still be protected by at least the
// guards of some pinned success return of that function (RSG1): a validator, an authorisation test or a verifier that
// says yes more easily than before is a weakened check, wherever it sits. Returns are matched as a multiset per
// function; additional guards and additional failure returns are not reported.

//go:embed pinned_success_guards.json
var pinnedSuccessGuardsJSON []byte

type successRet struct {
	fn     *ssa.Function
	ret    *ssa.Return
	guards []string
}

func (P *Prog) successReturnGuards() map[string][]successRet {
	out := map[string][]successRet{}
	for _, f := range P.RepoFns {
		if len(f.Blocks) == 0 || f.Synthetic != "" || P.isNewHelper(enclosingTop(f)) {
			continue
		}
		idx, _ := errIndex(f.Signature)
		want := "nil"
		if idx < 0 {
			res := f.Signature.Results()
			if res.Len() == 0 {
				continue
			}
			b, ok := res.At(res.Len() - 1).Type().Underlying().(*types.Basic)
			if !ok || b.Kind() != types.Bool {
				continue
			}
			idx, want = res.Len()-1, "true"
		}
		for _, ret := range Returns(f) {
			c, t := P.retClass(ret, idx)
			if c != want {
				// `return f(x)` forwards f's verdict: a success return under the implicit guard isnil(f(x))
				if !(want == "nil" && c == "unknown" && t != nil && (t.Op == "call" || t.Op == "invoke" || t.Op == "extract")) {
					continue
				}
			}
			gs := P.GuardsStable(ret)
			n := short(f.String())
			out[n] = append(out[n], successRet{f, ret, gs})
		}
	}
	return out
}

func dumpSuccessGuards(P *Prog) {
	m := map[string][][]string{}
	for n, rs := range P.successReturnGuards() {
		for _, s := range rs {
			if len(s.guards) == 0 {
				continue // an unconditional success says nothing
			}
			m[n] = append(m[n], s.guards)
		}
	}
	for k := range m {
		sort.Slice(m[k], func(i, j int) bool { return strings.Join(m[k][i], "|") < strings.Join(m[k][j], "|") })
	}
	b, _ := json.MarshalIndent(m, "", " ")
	fmt.Println(string(b))
}

func successGuardsMonotone(r *Run, rule string) {
	P := r.P
	r.Rule(rule, "a yes is not easier to get than before: every success return (nil error / true) of a function that validates, authorises or verifies is still protected by at least the guards of one of that function's success returns on the pinned tree (pinned_success_guards.json). Scope: functions that are anchors of this property's rules or lie in the property's packages", 1)
	var pinned map[string][][]string
	if err := json.Unmarshal(pinnedSuccessGuardsJSON, &pinned); err != nil || len(pinned) == 0 {
		r.Undecided(rule, "table", "-", "pinned_success_guards.json is empty or unreadable")
		return
	}
	cur := P.successReturnGuards()
	var names []string
	for n := range pinned {
		f := P.Fn(n)
		if f == nil {
			continue
		}
		if r.Anchors[f] || r.Anchors[enclosingTop(f)] || inScope(r.Prop, f) {
			names = append(names, n)
		}
	}
	sort.Strings(names)
	nRet, weak := 0, 0
	for _, n := range names {
		want := pinned[n]
		for i, s := range cur[n] {
			nRet++
			hs := map[string]bool{}
			for _, g := range s.guards {
				hs[g] = true
			}
			// some pinned success return must be covered by this one
			best := []string(nil)
			ok := false
			for _, w := range want {
				var missing []string
				for _, g := range w {
					if !hs[g] {
						missing = append(missing, g)
					}
				}
				if len(missing) == 0 {
					ok = true
					break
				}
				if best == nil || len(missing) < len(best) {
					best = missing
				}
			}
			if !ok && P.guardsMovedIntoNewCallee(P.Fn(n), best, s.guards, pinned) {
				ok = true
			}
			if !ok {
				weak++
				r.Viol(rule, fmt.Sprintf("success-weakened:%s#%d", n, i), P.InstrPos(s.ret), n+" can now report success without {"+strings.Join(best, " ; ")+"} — every success return of the pinned tree required at least that (guards that do hold here: {"+strings.Join(s.guards, " ; ")+"})")
			}
		}
	}
	r.OK(rule, "success-returns-compared", "-", fmt.Sprintf("%d success returns of %d functions in scope compared, %d weakened", nRet, len(names), weak))
}

func init() {
	for i := 1; i <= 20; i++ {
		p := fmt.Sprintf("C%02d", i)
		extend(p, func(r *Run) { successGuardsMonotone(r, p+"-RSG1") })
	}
}
