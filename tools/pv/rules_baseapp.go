package main

import (
	"strings"

	"golang.org/x/tools/go/ssa"
)

const (
	txCtx0   = "(*baseapp.BaseApp).getContextForTx(param:app, param:mode, param:txBytes)"
	anteCtx  = "(*baseapp.BaseApp).cacheTxContext(param:app, " + txCtx0 + ", param:txBytes)"
	anteCall = "dyn[param:app.anteHandler](" + anteCtx + "#0, param:tx, param:txBytes, param:app.tmNode, (param:mode == 1))"
)

// checkRunTxAnte: the ante handler runs on a cache that is written only when it did not abort and
// the mode is Deliver (C03-R5 / C11-R2).
func checkRunTxAnte(r *Run, rule string) {
	P := r.P
	r.Rule(rule, "runTx: the ante handler receives a context over a CacheMultiStore of the tx context (cacheTxContext), the simulate flag is mode==Simulate; that cache is written only under !abort and mode==Deliver; an aborting ante handler returns before any message handling; basic message validation precedes the ante handler", 8)
	f := r.fn("(*baseapp.BaseApp).runTx")
	if f == nil {
		return
	}
	var ante ssa.CallInstruction
	Instrs(f, func(in ssa.Instruction) {
		if ci, ok := in.(ssa.CallInstruction); ok {
			if strings.HasPrefix(P.callTerm(ci).String(), "dyn[param:app.anteHandler](") {
				ante = ci
			}
		}
	})
	if ante == nil {
		r.Viol(rule, "runTx/ante-call", P.Pos(f.Pos()), "runTx no longer calls app.anteHandler")
		return
	}
	got := P.callTerm(ante).String()
	r.Check(got == anteCall, rule, "runTx/ante-call", P.InstrPos(ante), got, "ante handler is called as "+got+" ; required "+anteCall)
	r.requireAtoms(rule, "runTx/ante-call", ante, P.Guards(ante, 1), []req{
		{"msgs-validated", `^isnil\(baseapp\.validateBasicTxMsgs\(types\.Tx\.GetMsg\(param:tx\)\)\)$`},
		{"msg-ValidateBasic-ok", `^isnil\(types\.Msg\.ValidateBasic\(types\.Tx\.GetMsg\(param:tx\)\)\)$`},
	})
	// the cache write
	var writes []ssa.CallInstruction
	for _, c := range CallsIn(f, "store/types.CacheMultiStore.Write") {
		if argTerm(P.callTerm(c), 0).String() == anteCtx+"#1" {
			writes = append(writes, c)
		}
	}
	if len(writes) != 1 {
		r.Viol(rule, "runTx/ante-cache-write", P.Pos(f.Pos()), "expected exactly one Write of the ante cache")
	} else {
		r.requireAtoms(rule, "runTx/ante-cache-write", writes[0], P.Guards(writes[0], 0), []req{
			{"not-aborted", `^!` + q(anteCall+"#2") + `$`},
			{"mode==Deliver", `^\(2 == param:mode\)$`},
		})
		r.Check(Precedes(ante, writes[0]), rule, "runTx/ante-before-write", P.InstrPos(writes[0]), "written after the ante handler ran", "the ante cache is written before the ante handler ran")
	}
	// abort => return before runMsg
	for _, e := range P.ifEdgesFor(f, `^`+q(anteCall+"#2")+`$`) {
		reach, w, _ := ReachFromBlock(e.B.Succs[e.I], func(in ssa.Instruction) bool {
			return CallTo("(*baseapp.BaseApp).runMsg")(in) || CallTo("store/types.CacheMultiStore.Write")(in)
		}, nil, nil)
		r.Check(!reach, rule, "runTx/abort=>return", P.InstrPos(ante), "an aborting ante handler leads only to return", "after abort=true execution can still reach "+P.InstrPos(w))
	}
	if len(P.ifEdgesFor(f, `^`+q(anteCall+"#2")+`$`)) == 0 {
		r.Viol(rule, "runTx/abort=>return", P.InstrPos(ante), "the abort result of the ante handler is no longer tested")
	}
	// cacheTxContext really caches the given context's multistore
	if g := r.fn("(*baseapp.BaseApp).cacheTxContext"); g != nil {
		for _, ret := range Returns(g) {
			c0 := P.TermAt(ret.Results[0], ret).String()
			c1 := P.TermAt(ret.Results[1], ret).String()
			cache := "store/types.MultiStore.CacheMultiStore(types.Ctx.MultiStore(param:ctx))"
			ok := strings.Contains(c1, cache) && strings.HasPrefix(c0, "types.Ctx.WithMultiStore(param:ctx, ") && strings.Contains(c0, cache)
			r.Check(ok, rule, "cacheTxContext", P.InstrPos(ret), "returns (ctx.WithMultiStore(cache), cache) with cache = ctx.MultiStore().CacheMultiStore()", "cacheTxContext returns ("+c0+", "+c1+")")
		}
	}
}
