package main

func checkRunTxAnte(r *Run, rule string) {}
