package main

import (
	"fmt"
	"go/types"
	"sort"
	"strings"

	"golang.org/x/tools/go/ssa"
)

// Generic discipline rules, instantiated per property over the packages that property is about. Both encode a
// necessary condition of every "the effect happened / the failure was seen" clause: an assignment that lands on a
// by-value receiver copy is not an effect, and a failure whose error value is never looked at is not seen.

// pkgScope: which repo packages belong to which property for the generic rules.
var pkgScope = map[string][]string{
	"C02": {"x/auth/", "x/auth"},
	"C04": {"x/pos/keeper"},
	"C06": {"x/pos/types", "x/pos/keeper"},
	"C11": {"baseapp"},
	"C12": {"store/rootmulti", "store/iavl"},
	"C15": {"store/cachekv", "store/cachemulti"},
	"C16": {"store/prefix", "store/gaskv", "store/tracekv", "store/dbadapter", "store/transient", "store/types"},
	"C17": {"x/gov/", "x/gov"},
	"C18": {"types"},
	"C19": {"crypto/", "crypto"},
}

func inScope(prop string, f *ssa.Function) bool {
	top := enclosingTop(f)
	if top.Pkg == nil {
		return false
	}
	p := short(top.Pkg.Pkg.Path())
	for _, s := range pkgScope[prop] {
		if strings.HasSuffix(s, "/") {
			if strings.HasPrefix(p, s) {
				return true
			}
		} else if p == s {
			return true
		}
	}
	return false
}

// vettedLostWrites: methods with a by-value receiver whose field assignment is lost on today's tree.
var vettedLostWrites = map[string]string{
	"(x/auth/types.MultiSigAccount).SetPubKey": "existing (observation §5.4): the assignment is lost, but no non-test code calls SetPubKey; a multisig account is built with its key by NewMultiSigAccount",
}

// lostReceiverWrites: a method with a by-value struct receiver assigns a field of its receiver copy and never reads
// the copy afterwards (does not return it, pass it on, or read the field): the caller's object is unchanged.
func lostReceiverWrites(r *Run, rule string) {
	P := r.P
	r.Rule(rule, "effects reach the object they are meant for: no method with a by-value receiver assigns a field of its receiver copy without that copy being read again (returned, passed on, field read) — such an assignment is lost to the caller; setters of state objects therefore have pointer receivers or return the updated value", 1)
	n, methods := 0, 0
	for _, f := range P.RepoFns {
		if f.Parent() != nil || f.Signature.Recv() == nil || !inScope(r.Prop, f) || len(f.Blocks) == 0 || f.Synthetic != "" {
			continue
		}
		rt := f.Signature.Recv().Type()
		if _, isPtr := rt.(*types.Pointer); isPtr {
			continue
		}
		st, isStruct := rt.Underlying().(*types.Struct)
		if !isStruct || len(f.Params) == 0 {
			continue
		}
		methods++
		recv := f.Params[0]
		// the receiver copy is an Alloc initialised from the parameter
		for _, ref := range *recv.Referrers() {
			s, ok := ref.(*ssa.Store)
			if !ok || s.Val != ssa.Value(recv) {
				continue
			}
			al, ok := s.Addr.(*ssa.Alloc)
			if !ok {
				continue
			}
			written := map[int]ssa.Instruction{}
			read := map[int]bool{}
			whole := false
			for _, u := range *al.Referrers() {
				switch x := u.(type) {
				case *ssa.Store:
					if x.Addr == ssa.Value(al) && x != s {
						whole = true // re-assigned as a whole: give up (treated as read)
					}
				case *ssa.FieldAddr:
					for _, fu := range *x.Referrers() {
						if fs, isSt := fu.(*ssa.Store); isSt && fs.Addr == ssa.Value(x) {
							written[x.Field] = fs
						} else if _, isDbg := fu.(*ssa.DebugRef); !isDbg {
							read[x.Field] = true
						}
					}
				case *ssa.DebugRef:
				default:
					whole = true // loaded, passed on, captured
				}
			}
			if whole {
				continue
			}
			var fields []int
			for i := range written {
				fields = append(fields, i)
			}
			sort.Ints(fields)
			for _, i := range fields {
				if read[i] {
					continue
				}
				n++
				name := short(f.String())
				key := "lost-write@" + name + "." + st.Field(i).Name()
				if why, ok := vettedLostWrites[name]; ok {
					r.OK(rule, key, P.InstrPos(written[i]), "vetted: "+why)
				} else {
					r.Viol(rule, key, P.InstrPos(written[i]), name+" has a by-value receiver and assigns its field "+st.Field(i).Name()+" without using the copy afterwards: the assignment is lost (the caller's object keeps the old value)")
				}
			}
		}
	}
	r.OK(rule, "value-receiver-methods-scanned", "-", fmt.Sprintf("%d methods with by-value struct receivers in scope, %d lost field assignments", methods, n))
}

// vettedDroppedErrors: error-like results that today's tree ignores (key: caller|callee).
var vettedDroppedErrors = map[string]string{
	"(x/pos/keeper.Keeper).mintValidatorAwards|(x/pos/keeper.Keeper).mint":                            "existing (observation §5.4): a failed mint (missing module account / permission: a configuration error) drops the queued award",
	"(x/pos/keeper.Keeper).unstakeAllMatureValidators|(x/pos/keeper.Keeper).FinishUnstakingValidator": "existing (`_ =`): the finish step was validated by ValidateValidatorFinishUnstaking just before; its remaining failure (pool transfer) is ignored",
	"(x/gov/keeper.Keeper).ModifyParam|(types.Subspace).Update":                                       "existing (observation §5.4): a value that does not decode is ignored and the message still succeeds",
	"x/gov.QueryACL|(x/auth/util.CLIContext).QueryWithData":                                           "client-side query helper, no state",
	"x/pos.QueryAccountBalance|(x/auth/util.CLIContext).QueryWithData":                                "client-side query helper, no state",
	"x/pos.newTx|crypto/keys/mintkey.UnarmorDecryptPrivKey":                                           "client-side transaction builder (runs in the CLI, not in the state machine): a wrong passphrase yields a transaction that fails signature verification",
	"types.NewResponseFormatBroadcastTx|types.ParseABCILogs":                                          "client response formatting: unparsable logs are shown raw",
	"types.NewResponseResultTx|types.ParseABCILogs":                                                   "client response formatting: unparsable logs are shown raw",
	"types.newTxResponseCheckTx|types.ParseABCILogs":                                                  "client response formatting: unparsable logs are shown raw",
	"types.newTxResponseDeliverTx|types.ParseABCILogs":                                                "client response formatting: unparsable logs are shown raw",
}

// droppedErrors: inside the property's packages, the error-like result (error, sdk.Error, sdk.Result) of a call to a
// repo function or repo interface method is never discarded.
func droppedErrors(r *Run, rule string, floor int) {
	P := r.P
	r.Rule(rule, "failures are seen: inside the packages this property is about, no call to a repo function or repo interface method discards its error-like result (error, sdk.Error, sdk.Result) — neither as a bare call statement nor by assigning it to _ — outside the vetted table; a failed step must not be mistaken for a performed one", floor)
	calls, dropped := 0, 0
	for _, f := range P.RepoFns {
		if !inScope(r.Prop, f) {
			continue
		}
		f := f
		InstrsRaw(f, func(in ssa.Instruction) {
			c, ok := in.(*ssa.Call)
			if !ok {
				return
			}
			cc := c.Common()
			var sig *types.Signature
			label := ""
			if cc.IsInvoke() {
				if cc.Method.Pkg() == nil || !isRepoPkg(cc.Method.Pkg()) {
					return
				}
				sig, _ = cc.Method.Type().(*types.Signature)
				label = short(typeStr(cc.Value.Type())) + "." + cc.Method.Name()
			} else {
				callee := staticCallee(cc)
				if callee == nil || !P.IsRepoFn(callee) {
					return
				}
				sig = callee.Signature
				label = short(callee.String())
			}
			if sig == nil {
				return
			}
			idx, _ := errIndex(sig)
			if idx < 0 {
				return
			}
			calls++
			used := false
			if sig.Results().Len() == 1 {
				for _, u := range *c.Referrers() {
					if _, dbg := u.(*ssa.DebugRef); !dbg {
						used = true
					}
				}
			} else {
				for _, u := range *c.Referrers() {
					if ex, ok := u.(*ssa.Extract); ok && ex.Index == idx {
						for _, uu := range *ex.Referrers() {
							if _, dbg := uu.(*ssa.DebugRef); !dbg {
								used = true
							}
						}
					}
				}
			}
			if used {
				return
			}
			dropped++
			key := short(enclosingTop(P.liftToPinned(f)).String()) + "|" + label
			if why, ok := vettedDroppedErrors[key]; ok {
				r.OK(rule, "dropped:"+key, P.InstrPos(c), "vetted: "+why)
			} else {
				r.Viol(rule, "dropped:"+key, P.InstrPos(c), short(f.String())+" discards the error-like result of "+label+": a failure of that step goes unnoticed and execution continues as if it had been performed")
			}
		})
	}
	r.OK(rule, "error-returning-calls-scanned", "-", fmt.Sprintf("%d calls with an error-like result in scope, %d discarded", calls, dropped))
}

func init() {
	for p := range pkgScope {
		p := p
		extend(p, func(r *Run) {
			lostReceiverWrites(r, p+"-RG1")
			droppedErrors(r, p+"-RG2", 1)
		})
	}
}
