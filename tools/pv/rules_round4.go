package main

import (
	"fmt"
	"go/types"
	"strings"

	"golang.org/x/tools/go/ssa"
)

// Rules added after the second round of seeded changes (see DESIGN §6).

// accountSettersStore: every implementation of exported.Account.SetCoins stores its argument into the receiver
// object (pointer receiver, store to recv.Coins): a value receiver would update a copy and the balance change of a
// transfer, a fee or a mint would be lost for that account kind (C02-R8, C03-R8).
func accountSettersStore(r *Run, rule string) {
	P := r.P
	r.Rule(rule, "sibling agreement of the Account implementations: SetCoins of every repo type implementing x/auth/exported.Account has a pointer receiver and stores its argument into the receiver's Coins field; GetCoins returns that field", 4)
	var iface *types.Interface
	for _, p := range P.Pkgs {
		if short(p.PkgPath) == "x/auth/exported" {
			if o := p.Types.Scope().Lookup("Account"); o != nil {
				iface, _ = o.Type().Underlying().(*types.Interface)
			}
		}
	}
	if iface == nil {
		r.Undecided(rule, "Account", "-", "interface x/auth/exported.Account does not resolve")
		return
	}
	seen := map[*ssa.Function]bool{}
	for _, p := range P.Pkgs {
		sc := p.Types.Scope()
		for _, n := range sc.Names() {
			tn, ok := sc.Lookup(n).(*types.TypeName)
			if !ok || tn.IsAlias() {
				continue
			}
			if _, isStruct := tn.Type().Underlying().(*types.Struct); !isStruct {
				continue
			}
			pt := types.NewPointer(tn.Type())
			if !types.Implements(pt, iface) {
				continue
			}
			for _, m := range []string{"SetCoins", "GetCoins"} {
				sel := P.SSA.MethodSets.MethodSet(pt).Lookup(tn.Pkg(), m)
				if sel == nil {
					continue
				}
				f := P.SSA.MethodValue(sel)
				if f == nil {
					continue
				}
				f = unwrapBound(P, f)
				if f.Synthetic != "" {
					// promoted through an embedded account: the embedded type is checked on its own
					if fo, ok := sel.Obj().(*types.Func); ok {
						if d := P.SSA.FuncValue(fo); d != nil {
							f = d
						}
					}
				}
				if seen[f] || len(f.Blocks) == 0 {
					continue
				}
				seen[f] = true
				key := short(f.String())
				recv := f.Signature.Recv()
				if m == "SetCoins" {
					_, isPtr := recv.Type().(*types.Pointer)
					stored := false
					Instrs(f, func(in ssa.Instruction) {
						if st, ok := in.(*ssa.Store); ok && len(f.Params) >= 2 {
							a, v := P.TermAt(st.Addr, st).String(), P.TermAt(st.Val, st).String()
							if a == "&param:"+pinnedParamName(f.Params[0])+".Coins" && v == "param:"+pinnedParamName(f.Params[1]) {
								stored = true
							}
						}
					})
					r.Check(isPtr && stored, rule, key+"/stores-into-receiver", P.Pos(f.Pos()), "pointer receiver, recv.Coins = argument",
						fmt.Sprintf("%s does not store its argument into the receiver object (pointer receiver: %v, store to recv.Coins: %v): the new balance is written to a copy and lost", key, isPtr, stored))
				} else {
					for _, ret := range Returns(f) {
						t := P.TermAt(ret.Results[0], ret).String()
						r.Check(t == "param:"+pinnedParamName(f.Params[0])+".Coins", rule, key+"/returns-field", P.InstrPos(ret), t, key+" returns "+t)
					}
				}
			}
		}
	}
}

// indexDeleteUsesStoredRecord: the power-index entry is keyed by the stake; the delete must be computed from the record
// as stored, i.e. before any change of its StakedTokens in the calling function (C05-R6, C06-R8).
func indexDeleteUsesStoredRecord(r *Run, rule string) {
	P := r.P
	r.Rule(rule, "the power-index entry is removed with the key it was inserted under: every call of deleteValidatorFromStakingSet passes a validator whose StakedTokens have not been changed by the caller (no AddStakedTokens / RemoveStakedTokens / StakedTokens assignment in the argument's derivation)", 4)
	f := r.fn(posK + "deleteValidatorFromStakingSet")
	if f == nil {
		return
	}
	for _, e := range r.edgesTo(f) {
		t := argTerm(P.callTerm(e.Site), 2).String()
		bad := strings.Contains(t, "RemoveStakedTokens(") || strings.Contains(t, "AddStakedTokens(") || strings.Contains(t, "StakedTokens=")
		r.Check(!bad, rule, "delete-key-from-stored-record@"+short(e.Caller.String()), P.InstrPos(e.Site), "argument "+oneLine(t),
			short(e.Caller.String())+" removes the index entry of "+oneLine(t)+": its stake was already changed, so the key differs from the one the entry was inserted under and the entry stays behind")
	}
}

// genesisQueues: InitGenesis rebuilds the unstaking queue for every Unstaking validator, exported genesis or not (C06-R9).
func genesisQueues(r *Run, rule string) {
	P := r.P
	r.Rule(rule, "genesis import rebuilds the derived indexes for every validator: in InitGenesis, SetUnstakingValidator is called for the iterated validator under IsUnstaking and under no test of data.Exported; SetValidator for every validator", 2)
	f := r.fn("x/pos.InitGenesis")
	if f == nil {
		return
	}
	if c := r.oneCall(rule, "InitGenesis", f, posK+"SetUnstakingValidator"); c != nil {
		gs := P.Guards(c, 0)
		okU, _ := HasAtom(gs, `^\(x/pos/types\.Validator\)\.IsUnstaking\(param:data\.Validators\[`)
		exp := false
		for _, a := range gs {
			if strings.Contains(a.Key(), "data.Exported") {
				exp = true
			}
		}
		r.Check(okU && !exp, rule, "InitGenesis/unstaking-queue-rebuilt", P.InstrPos(c), "queued iff Unstaking", "SetUnstakingValidator runs under {"+strings.Join(atomStrings(gs), " ; ")+"} ; required: IsUnstaking(validator) and nothing about data.Exported (an imported chain would lose its unstaking queue)")
	}
	if c := r.oneCall(rule, "InitGenesis", f, posK+"SetValidator"); c != nil {
		gs := P.Guards(c, 0)
		exp := false
		for _, a := range gs {
			if strings.Contains(a.Key(), "data.Exported") {
				exp = true
			}
		}
		r.Check(!exp, rule, "InitGenesis/every-validator-stored", P.InstrPos(c), "unconditional per validator", "SetValidator runs under {"+strings.Join(atomStrings(gs), " ; ")+"}")
	}
}

// doubleSignFreshRecord: the record handed to ForceValidatorUnstake is read after slash and jail changed it (C07-R7, C04-R6).
func doubleSignFreshRecord(r *Run, rule string) {
	P := r.P
	r.Rule(rule, "handleDoubleSign force-unstakes the record as it is after the slash and the jailing: the argument of ForceValidatorUnstake is the result of a GetValidator call that no path executes before slash or JailValidator", 3)
	f := r.fn(posK + "handleDoubleSign")
	if f == nil {
		return
	}
	fu := r.oneCall(rule, "handleDoubleSign", f, posK+"ForceValidatorUnstake")
	if fu == nil {
		return
	}
	t := argTerm(P.callTerm(fu), 2).String()
	r.Check(strings.HasPrefix(t, posK+"GetValidator(param:k, param:ctx, ") && strings.HasSuffix(t, ")#0"), rule, "handleDoubleSign/force-unstake-arg", P.InstrPos(fu), oneLine(t), "ForceValidatorUnstake receives "+oneLine(t)+" ; required a record read with GetValidator")
	r.neverAfter(rule, "handleDoubleSign/slash-before-reread", f, posK+"slash", posK+"GetValidator")
	r.neverAfter(rule, "handleDoubleSign/jail-before-reread", f, posK+"JailValidator", posK+"GetValidator")
}

// missedArrayBounds: every walk over the missed-blocks ring covers [0, SignedBlocksWindow) (C08-R6).
func missedArrayBounds(r *Run, rule string) {
	P := r.P
	r.Rule(rule, "the missed-blocks ring is walked completely: the loop of IterateAndExecuteOverMissedArray (genesis export) runs while index < SignedBlocksWindow(ctx), starting at 0 with step 1", 1)
	for _, n := range []string{posK + "IterateAndExecuteOverMissedArray"} {
		f := r.fnOpt(n)
		if f == nil {
			continue
		}
		win := posK + "SignedBlocksWindow(param:k, param:ctx)"
		found := false
		Instrs(f, func(in ssa.Instruction) {
			ci, ok := in.(ssa.CallInstruction)
			if !ok || !CallTo("x/pos/types.GetValMissedBlockKey")(in) {
				return
			}
			found = true
			idx := argTerm(P.callTerm(ci), 1).String()
			gs := P.Guards(in, 0)
			ok2, _ := HasAtom(gs, `^\(`+q(idx)+` < `+q(win)+`\)$`)
			start := strings.HasPrefix(idx, "phi(") && strings.Contains(idx, " + 1)") && (strings.HasSuffix(idx, ", 0)") || strings.HasPrefix(idx, "phi(0, "))
			r.Check(ok2 && start, rule, short(n)+"/covers-whole-window", P.InstrPos(in), "index "+idx+" < window", "ring slot "+idx+" is visited under {"+strings.Join(atomStrings(gs), " ; ")+"} ; required: from 0, step 1, while index < "+win)
		})
		if !found && n == posK+"IterateAndExecuteOverMissedArray" {
			r.Viol(rule, short(n)+"/covers-whole-window", P.Pos(f.Pos()), "no GetValMissedBlockKey call found")
		}
	}
}

// signingInfoCreatedOnlyWhenAbsent: staking never replaces an existing signing record (C08-R7, C09-R6).
func signingInfoCreatedOnlyWhenAbsent(r *Run, rule string) {
	P := r.P
	r.Rule(rule, "staking (again) never resets slashing history: in StakeValidator the signing info is written only on the branch where GetValidatorSigningInfo found none — an existing record keeps its JailedUntil, Tombstoned, counter and offset", 1)
	f := r.fn(posK + "StakeValidator")
	if f == nil {
		return
	}
	for _, c := range CallsIn(f, posK+"SetValidatorSigningInfo") {
		r.requireCut(rule, "StakeValidator/SetValidatorSigningInfo", nil, c, "no-existing-record", `^!`+q(posK+"GetValidatorSigningInfo(param:k, param:ctx, ")+`.*\)#1$`)
	}
	if len(CallsIn(f, posK+"SetValidatorSigningInfo")) == 0 {
		r.Viol(rule, "StakeValidator/creates-record", P.Pos(f.Pos()), "StakeValidator no longer creates a signing record for a new validator")
	}
}

// queueDeletersUnused: the award and burn queues are emptied only by their own BeginBlock processors (C10-R6, C07-R8).
func queueDeletersUnused(r *Run, rule, which string) {
	if f := r.fnOpt(posK + which); f != nil {
		r.callersExactly(rule, which, r.edgesTo(f), []string{})
		r.OK(rule, which+"/callers-checked", r.P.Pos(f.Pos()), fmt.Sprintf("%d call sites", len(r.edgesTo(f))))
	}
}

// reopenDoesNotWrite: loading an existing database changes no store (C01-R7, C12-R10).
func reopenDoesNotWrite(r *Run, rule string) {
	P := r.P
	r.Rule(rule, "restart is read-only: initFromMainStore and everything it calls performs no KVStore write (an IAVL Set of an identical value still changes the root hash of the next commit), and storeConsensusParams is called from InitChain only", 2)
	E := P.Effects()
	if f := r.fn("(*baseapp.BaseApp).initFromMainStore"); f != nil {
		r.Check(!E.mayWrite[f], rule, "initFromMainStore/no-store-write", P.Pos(f.Pos()), "no store write reachable", "initFromMainStore (run by every LoadLatestVersion/LoadVersion) can write a KVStore: a reopened replica's next app hash differs from the others'")
	}
	if f := r.fn("(*baseapp.BaseApp).storeConsensusParams"); f != nil {
		r.callersExactly(rule, "storeConsensusParams", r.edgesTo(f), []string{"(*baseapp.BaseApp).InitChain"})
	}
}

func init() {
	extend("C01", func(r *Run) {
		reopenDoesNotWrite(r, "C01-R7")
		loadVersionRules(r, "C01-R8")
	})
	extend("C02", func(r *Run) {
		accountSettersStore(r, "C02-R8")
		coinsMergeSiblings(r, "C02-R9")
	})
	extend("C03", func(r *Run) { accountSettersStore(r, "C03-R8") })
	extend("C04", func(r *Run) {
		unstakeAllRules(r, "C04-R5")
		doubleSignFreshRecord(r, "C04-R6")
	})
	extend("C05", func(r *Run) { indexDeleteUsesStoredRecord(r, "C05-R6") })
	extend("C06", func(r *Run) {
		indexDeleteUsesStoredRecord(r, "C06-R8")
		genesisQueues(r, "C06-R9")
	})
	extend("C07", func(r *Run) {
		doubleSignFreshRecord(r, "C07-R7")
		r.Rule("C07-R8", "the burn queue is emptied only by burnValidators: deleteValidatorBurn has no caller", 1)
		queueDeletersUnused(r, "C07-R8", "deleteValidatorBurn")
	})
	extend("C08", func(r *Run) {
		missedArrayBounds(r, "C08-R6")
		signingInfoCreatedOnlyWhenAbsent(r, "C08-R7")
	})
	extend("C09", func(r *Run) {
		unstakeAllRules(r, "C09-R5")
		signingInfoCreatedOnlyWhenAbsent(r, "C09-R6")
	})
	extend("C10", func(r *Run) {
		r.Rule("C10-R6", "a queued award is removed only by minting it: deleteValidatorAward has no caller (mintValidatorAwards deletes the iterated key itself)", 1)
		queueDeletersUnused(r, "C10-R6", "deleteValidatorAward")
	})
}
