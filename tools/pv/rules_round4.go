package main

import (
	"fmt"
	"go/types"
	"strings"

	"golang.org/x/tools/go/ssa"
)

// Rules added after the second round of seeded changes (see DESIGN §6).

// accountSettersStore: every implementation of exported.Account.SetCoins stores its argument into the receiver
// object (pointer receiver, store to recv.Coins): a value receiver would update a copy and the balance change of a
// transfer, a fee or a mint would be lost for that account kind (C02-R8, C03-R8).
func accountSettersStore(r *Run, rule string) {
	P := r.P
	r.Rule(rule, "sibling agreement of the Account implementations: SetCoins of every repo type implementing x/auth/exported.Account has a pointer receiver and stores its argument into the receiver's Coins field; GetCoins returns that field", 4)
	var iface *types.Interface
	for _, p := range P.Pkgs {
		if short(p.PkgPath) == "x/auth/exported" {
			if o := p.Types.Scope().Lookup("Account"); o != nil {
				iface, _ = o.Type().Underlying().(*types.Interface)
			}
		}
	}
	if iface == nil {
		r.Undecided(rule, "Account", "-", "interface x/auth/exported.Account does not resolve")
		return
	}
	seen := map[*ssa.Function]bool{}
	for _, p := range P.Pkgs {
		sc := p.Types.Scope()
		for _, n := range sc.Names() {
			tn, ok := sc.Lookup(n).(*types.TypeName)
			if !ok || tn.IsAlias() {
				continue
			}
			if _, isStruct := tn.Type().Underlying().(*types.Struct); !isStruct {
				continue
			}
			pt := types.NewPointer(tn.Type())
			if !types.Implements(pt, iface) {
				continue
			}
			for _, m := range []string{"SetCoins", "GetCoins"} {
				sel := P.SSA.MethodSets.MethodSet(pt).Lookup(tn.Pkg(), m)
				if sel == nil {
					continue
				}
				f := P.SSA.MethodValue(sel)
				if f == nil {
					continue
				}
				f = unwrapBound(P, f)
				if f.Synthetic != "" {
					// promoted through an embedded account: the embedded type is checked on its own
					if fo, ok := sel.Obj().(*types.Func); ok {
						if d := P.SSA.FuncValue(fo); d != nil {
							f = d
						}
					}
				}
				if seen[f] || len(f.Blocks) == 0 {
					continue
				}
				seen[f] = true
				key := short(f.String())
				recv := f.Signature.Recv()
				if m == "SetCoins" {
					_, isPtr := recv.Type().(*types.Pointer)
					stored := false
					Instrs(f, func(in ssa.Instruction) {
						if st, ok := in.(*ssa.Store); ok && len(f.Params) >= 2 {
							a, v := P.TermAt(st.Addr, st).String(), P.TermAt(st.Val, st).String()
							if a == "&param:"+pinnedParamName(f.Params[0])+".Coins" && v == "param:"+pinnedParamName(f.Params[1]) {
								stored = true
							}
						}
					})
					r.Check(isPtr && stored, rule, key+"/stores-into-receiver", P.Pos(f.Pos()), "pointer receiver, recv.Coins = argument",
						fmt.Sprintf("%s does not store its argument into the receiver object (pointer receiver: %v, store to recv.Coins: %v): the new balance is written to a copy and lost", key, isPtr, stored))
				} else {
					for _, ret := range Returns(f) {
						t := P.TermAt(ret.Results[0], ret).String()
						r.Check(t == "param:"+pinnedParamName(f.Params[0])+".Coins", rule, key+"/returns-field", P.InstrPos(ret), t, key+" returns "+t)
					}
				}
			}
		}
	}
}

// indexDeleteUsesStoredRecord: the power-index entry is keyed by the stake; the delete must be computed from the record
// as stored, i.e. before any change of its StakedTokens in the calling function (C05-R6, C06-R8).
func indexDeleteUsesStoredRecord(r *Run, rule string) {
	P := r.P
	r.Rule(rule, "the power-index entry is removed with the key it was inserted under: every call of deleteValidatorFromStakingSet passes a validator whose StakedTokens have not been changed by the caller (no AddStakedTokens / RemoveStakedTokens / StakedTokens assignment in the argument's derivation)", 4)
	f := r.fn(posK + "deleteValidatorFromStakingSet")
	if f == nil {
		return
	}
	for _, e := range r.edgesTo(f) {
		t := argTerm(P.callTerm(e.Site), 2).String()
		bad := strings.Contains(t, "RemoveStakedTokens(") || strings.Contains(t, "AddStakedTokens(") || strings.Contains(t, "StakedTokens=")
		r.Check(!bad, rule, "delete-key-from-stored-record@"+short(e.Caller.String()), P.InstrPos(e.Site), "argument "+oneLine(t),
			short(e.Caller.String())+" removes the index entry of "+oneLine(t)+": its stake was already changed, so the key differs from the one the entry was inserted under and the entry stays behind")
	}
}

// genesisQueues: InitGenesis rebuilds the unstaking queue for every Unstaking validator, exported genesis or not (C06-R9).
func genesisQueues(r *Run, rule string) {
	P := r.P
	r.Rule(rule, "genesis import rebuilds the derived indexes for every validator: in InitGenesis, SetUnstakingValidator is called for the iterated validator under IsUnstaking and under no test of data.Exported; SetValidator for every validator", 2)
	f := r.fn("x/pos.InitGenesis")
	if f == nil {
		return
	}
	if c := r.oneCall(rule, "InitGenesis", f, posK+"SetUnstakingValidator"); c != nil {
		gs := P.Guards(c, 0)
		okU, _ := HasAtom(gs, `^\(x/pos/types\.Validator\)\.IsUnstaking\(param:data\.Validators\[`)
		exp := false
		for _, a := range gs {
			if strings.Contains(a.Key(), "data.Exported") {
				exp = true
			}
		}
		r.Check(okU && !exp, rule, "InitGenesis/unstaking-queue-rebuilt", P.InstrPos(c), "queued iff Unstaking", "SetUnstakingValidator runs under {"+strings.Join(atomStrings(gs), " ; ")+"} ; required: IsUnstaking(validator) and nothing about data.Exported (an imported chain would lose its unstaking queue)")
	}
	if c := r.oneCall(rule, "InitGenesis", f, posK+"SetValidator"); c != nil {
		gs := P.Guards(c, 0)
		exp := false
		for _, a := range gs {
			if strings.Contains(a.Key(), "data.Exported") {
				exp = true
			}
		}
		r.Check(!exp, rule, "InitGenesis/every-validator-stored", P.InstrPos(c), "unconditional per validator", "SetValidator runs under {"+strings.Join(atomStrings(gs), " ; ")+"}")
	}
}

// doubleSignFreshRecord: the record handed to ForceValidatorUnstake is read after slash and jail changed it (C07-R7, C04-R6).
func doubleSignFreshRecord(r *Run, rule string) {
	P := r.P
	r.Rule(rule, "handleDoubleSign force-unstakes the record as it is after the slash and the jailing: the argument of ForceValidatorUnstake is the result of a GetValidator call that no path executes before slash or JailValidator", 3)
	f := r.fn(posK + "handleDoubleSign")
	if f == nil {
		return
	}
	fu := r.oneCall(rule, "handleDoubleSign", f, posK+"ForceValidatorUnstake")
	if fu == nil {
		return
	}
	t := argTerm(P.callTerm(fu), 2).String()
	r.Check(strings.HasPrefix(t, posK+"GetValidator(param:k, param:ctx, ") && strings.HasSuffix(t, ")#0"), rule, "handleDoubleSign/force-unstake-arg", P.InstrPos(fu), oneLine(t), "ForceValidatorUnstake receives "+oneLine(t)+" ; required a record read with GetValidator")
	r.neverAfter(rule, "handleDoubleSign/slash-before-reread", f, posK+"slash", posK+"GetValidator")
	r.neverAfter(rule, "handleDoubleSign/jail-before-reread", f, posK+"JailValidator", posK+"GetValidator")
}

// missedArrayBounds: every walk over the missed-blocks ring covers [0, SignedBlocksWindow) (C08-R6).
func missedArrayBounds(r *Run, rule string) {
	P := r.P
	r.Rule(rule, "the missed-blocks ring is walked completely: the loop of IterateAndExecuteOverMissedArray (genesis export) runs while index < SignedBlocksWindow(ctx), starting at 0 with step 1", 1)
	for _, n := range []string{posK + "IterateAndExecuteOverMissedArray"} {
		f := r.fnOpt(n)
		if f == nil {
			continue
		}
		win := posK + "SignedBlocksWindow(param:k, param:ctx)"
		found := false
		Instrs(f, func(in ssa.Instruction) {
			ci, ok := in.(ssa.CallInstruction)
			if !ok || !CallTo("x/pos/types.GetValMissedBlockKey")(in) {
				return
			}
			found = true
			idx := argTerm(P.callTerm(ci), 1).String()
			gs := P.Guards(in, 0)
			ok2, _ := HasAtom(gs, `^\(`+q(idx)+` < `+q(win)+`\)$`)
			start := strings.HasPrefix(idx, "phi(") && strings.Contains(idx, " + 1)") && (strings.HasSuffix(idx, ", 0)") || strings.HasPrefix(idx, "phi(0, "))
			r.Check(ok2 && start, rule, short(n)+"/covers-whole-window", P.InstrPos(in), "index "+idx+" < window", "ring slot "+idx+" is visited under {"+strings.Join(atomStrings(gs), " ; ")+"} ; required: from 0, step 1, while index < "+win)
		})
		if !found && n == posK+"IterateAndExecuteOverMissedArray" {
			r.Viol(rule, short(n)+"/covers-whole-window", P.Pos(f.Pos()), "no GetValMissedBlockKey call found")
		}
	}
}

// signingInfoCreatedOnlyWhenAbsent: staking never replaces an existing signing record (C08-R7, C09-R6).
func signingInfoCreatedOnlyWhenAbsent(r *Run, rule string) {
	P := r.P
	r.Rule(rule, "staking (again) never resets slashing history: in StakeValidator the signing info is written only on the branch where GetValidatorSigningInfo found none — an existing record keeps its JailedUntil, Tombstoned, counter and offset", 1)
	f := r.fn(posK + "StakeValidator")
	if f == nil {
		return
	}
	for _, c := range CallsIn(f, posK+"SetValidatorSigningInfo") {
		r.requireCut(rule, "StakeValidator/SetValidatorSigningInfo", nil, c, "no-existing-record", `^!`+q(posK+"GetValidatorSigningInfo(param:k, param:ctx, ")+`.*\)#1$`)
	}
	if len(CallsIn(f, posK+"SetValidatorSigningInfo")) == 0 {
		r.Viol(rule, "StakeValidator/creates-record", P.Pos(f.Pos()), "StakeValidator no longer creates a signing record for a new validator")
	}
}

// queueDeletersUnused: the award and burn queues are emptied only by their own BeginBlock processors (C10-R6, C07-R8).
func queueDeletersUnused(r *Run, rule, which string) {
	if f := r.fnOpt(posK + which); f != nil {
		r.callersExactly(rule, which, r.edgesTo(f), []string{})
		r.OK(rule, which+"/callers-checked", r.P.Pos(f.Pos()), fmt.Sprintf("%d call sites", len(r.edgesTo(f))))
	}
}

// reopenDoesNotWrite: loading an existing database changes no store (C01-R7, C12-R10).
func reopenDoesNotWrite(r *Run, rule string) {
	P := r.P
	r.Rule(rule, "restart is read-only: initFromMainStore and everything it calls performs no KVStore write (an IAVL Set of an identical value still changes the root hash of the next commit), and storeConsensusParams is called from InitChain only", 2)
	E := P.Effects()
	if f := r.fn("(*baseapp.BaseApp).initFromMainStore"); f != nil {
		r.Check(!E.mayWrite[f], rule, "initFromMainStore/no-store-write", P.Pos(f.Pos()), "no store write reachable", "initFromMainStore (run by every LoadLatestVersion/LoadVersion) can write a KVStore: a reopened replica's next app hash differs from the others'")
	}
	if f := r.fn("(*baseapp.BaseApp).storeConsensusParams"); f != nil {
		r.callersExactly(rule, "storeConsensusParams", r.edgesTo(f), []string{"(*baseapp.BaseApp).InitChain"})
	}
}

func init() {
	extend("C01", func(r *Run) {
		reopenDoesNotWrite(r, "C01-R7")
		loadVersionRules(r, "C01-R8")
	})
	extend("C02", func(r *Run) {
		accountSettersStore(r, "C02-R8")
		coinsMergeSiblings(r, "C02-R9")
	})
	extend("C03", func(r *Run) { accountSettersStore(r, "C03-R8") })
	extend("C04", func(r *Run) {
		unstakeAllRules(r, "C04-R5")
		doubleSignFreshRecord(r, "C04-R6")
	})
	extend("C05", func(r *Run) { indexDeleteUsesStoredRecord(r, "C05-R6") })
	extend("C06", func(r *Run) {
		indexDeleteUsesStoredRecord(r, "C06-R8")
		genesisQueues(r, "C06-R9")
	})
	extend("C07", func(r *Run) {
		doubleSignFreshRecord(r, "C07-R7")
		r.Rule("C07-R8", "the burn queue is emptied only by burnValidators: deleteValidatorBurn has no caller", 1)
		queueDeletersUnused(r, "C07-R8", "deleteValidatorBurn")
	})
	extend("C08", func(r *Run) {
		missedArrayBounds(r, "C08-R6")
		signingInfoCreatedOnlyWhenAbsent(r, "C08-R7")
	})
	extend("C09", func(r *Run) {
		unstakeAllRules(r, "C09-R5")
		signingInfoCreatedOnlyWhenAbsent(r, "C09-R6")
	})
	extend("C10", func(r *Run) {
		r.Rule("C10-R6", "a queued award is removed only by minting it: deleteValidatorAward has no caller (mintValidatorAwards deletes the iterated key itself)", 1)
		queueDeletersUnused(r, "C10-R6", "deleteValidatorAward")
	})
}

// pruningConfig: the retention option given to the multistore is the one every substore gets (C12-R10).
func pruningConfig(r *Run, rule string) {
	P := r.P
	r.Rule(rule, "the configured retention is the one applied: rootmulti.SetPruning records its argument and hands that same argument to every loaded substore; stores loaded later receive rs.pruningOpts", 3)
	if f := r.fn(rmS + "SetPruning"); f != nil {
		rec := false
		Instrs(f, func(in ssa.Instruction) {
			if st, ok := in.(*ssa.Store); ok && P.TermAt(st.Addr, st).String() == "&param:rs.pruningOpts" {
				rec = P.TermAt(st.Val, st).String() == "param:pruningOpts"
			}
		})
		r.Check(rec, rule, "SetPruning/records-argument", P.Pos(f.Pos()), "rs.pruningOpts = pruningOpts", "SetPruning does not record its argument in rs.pruningOpts")
		for _, c := range CallsIn(f, "store/types.CommitStore.SetPruning") {
			a := argTerm(P.callTerm(c), 1).String()
			r.Check(a == "param:pruningOpts", rule, "SetPruning/substores-get-argument", P.InstrPos(c), a, "substores receive "+a+" ; required the new option (param:pruningOpts): a store already loaded would keep pruning with the previous option")
			only := true
			for _, at := range P.Guards(c, 0) {
				if at.T.String() != "next(range(param:rs.stores))#0" {
					only = false
				}
			}
			r.Check(only, rule, "SetPruning/every-substore", P.InstrPos(c), "every loaded substore", "only some substores receive the option: {"+strings.Join(atomStrings(P.Guards(c, 0)), " ; ")+"}")
		}
		if len(CallsIn(f, "store/types.CommitStore.SetPruning")) == 0 {
			r.Viol(rule, "SetPruning/substores-get-argument", P.Pos(f.Pos()), "SetPruning no longer forwards the option to the loaded substores")
		}
	}
	if f := r.fn(rmS + "loadCommitStoreFromParams"); f != nil {
		n := 0
		for _, c := range CallsIn(f, "store/iavl.LoadStore") {
			n++
			t := P.callTerm(c).String()
			r.Check(strings.Contains(t, "param:rs.pruningOpts"), rule, "loadCommitStoreFromParams/iavl-gets-configured-option", P.InstrPos(c), "LoadStore(…, rs.pruningOpts, …)", "IAVL substores are loaded with "+oneLine(t)+" ; required rs.pruningOpts")
		}
		if n == 0 {
			r.Viol(rule, "loadCommitStoreFromParams/iavl-gets-configured-option", P.Pos(f.Pos()), "no iavl.LoadStore call")
		}
	}
}

// queryStoreHeight: the height injected for a height-0 store query is the height the substore is asked for (C14-R7).
func queryStoreHeight(r *Run, rule string) {
	P := r.P
	r.Rule(rule, "handleQueryStore asks the multistore for the height it reports: when the client gave no height, the latest block height is written into the request that is passed to Queryable.Query, and the same value is reported in the response", 2)
	f := r.fn("baseapp.handleQueryStore")
	if f == nil {
		return
	}
	lbh := "(*baseapp.BaseApp).LastBlockHeight(param:app)"
	if c := r.oneCall(rule, "handleQueryStore", f, "store/types.Queryable.Query"); c != nil {
		a := argTerm(P.callTerm(c), 1).String()
		r.Check(strings.Contains(a, "Height="+lbh) || strings.Contains(a, "Height=phi("+lbh+", param:req.Height)"), rule, "handleQueryStore/request-carries-injected-height", P.InstrPos(c), "request Height defaults to the latest height", "the request passed to the multistore is "+oneLine(a)+" ; required: its Height set to "+lbh+" when none was given (otherwise the substore answers from latest-1 while the response claims latest)")
	}
	ok := false
	Instrs(f, func(in ssa.Instruction) {
		if st, isSt := in.(*ssa.Store); isSt && strings.HasSuffix(P.TermAt(st.Addr, st).String(), "ResponseQuery.Height") {
			v := P.TermAt(st.Val, st).String()
			ok = v == "phi("+lbh+", param:req.Height)" || v == "phi(param:req.Height, "+lbh+")"
		}
	})
	r.Check(ok, rule, "handleQueryStore/reports-request-height", P.Pos(f.Pos()), "resp.Height = the request's height", "resp.Height is not set from the (defaulted) request height")
}

// mergeIteratorCompare: every key comparison of the merge iterator is direction-aware (C15-R8).
func mergeIteratorCompare(r *Run, rule string) {
	P := r.P
	r.Rule(rule, "sibling agreement inside cacheMergeIterator: Key, Value, Next, Domain, skipCacheDeletes and skipUntilExistsOrInvalid compare keys only through iter.compare (which negates for descending iteration); bytes.Compare is called by compare alone", 6)
	cmpUsers := 0
	for _, f := range P.RepoFns {
		n := short(f.String())
		if !strings.HasPrefix(n, "(*store/cachekv.cacheMergeIterator).") {
			continue
		}
		direct := CallsIn(f, "bytes.Compare")
		if strings.HasSuffix(n, ").compare") {
			r.Check(len(direct) == 2, rule, "compare/both-directions", P.Pos(f.Pos()), "bytes.Compare for ascending, negated for descending", fmt.Sprintf("compare has %d bytes.Compare calls (expected 2)", len(direct)))
			continue
		}
		for _, c := range direct {
			r.Viol(rule, short(n)+"/direction-aware-comparison", P.InstrPos(c), n+" compares keys with bytes.Compare directly: in a descending iteration it takes the other side than its siblings, which use iter.compare")
		}
		if k := len(CallsIn(f, "(*store/cachekv.cacheMergeIterator).compare")); k > 0 {
			cmpUsers++
			r.OK(rule, short(n)+"/direction-aware-comparison", P.Pos(f.Pos()), fmt.Sprintf("%d comparisons through iter.compare", k))
		}
	}
	r.Stats["mergeiterator_methods_using_compare"] = cmpUsers
	// Key and Value must decide alike
	kf, vf := r.fn("(*store/cachekv.cacheMergeIterator).Key"), r.fn("(*store/cachekv.cacheMergeIterator).Value")
	if kf != nil && vf != nil {
		kc, vc := CallsIn(kf, "(*store/cachekv.cacheMergeIterator).compare"), CallsIn(vf, "(*store/cachekv.cacheMergeIterator).compare")
		r.Check(len(kc) == 1 && len(vc) == 1, rule, "Key≡Value/one-comparison-each", P.Pos(vf.Pos()), "one compare(keyP, keyC) each", fmt.Sprintf("Key has %d and Value has %d direction-aware comparisons (expected one each)", len(kc), len(vc)))
	}
}

// cachekvWrapSelf: cache-wrapping a cachekv store stacks on that store, traced or not (C15-R9).
func cachekvWrapSelf(r *Run, rule string) {
	P := r.P
	r.Rule(rule, "a nested wrapper sees its parent wrapper: cachekv.Store.CacheWrap = NewStore(store) and CacheWrapWithTrace = NewStore(tracekv.NewStore(store, w, tc)) — never the grandparent", 2)
	if f := r.fn(ckS + "CacheWrap"); f != nil {
		for _, ret := range Returns(f) {
			t := P.TermAt(ret.Results[0], ret).String()
			r.Check(t == "store/cachekv.NewStore(param:store)", rule, "CacheWrap/wraps-self", P.InstrPos(ret), t, "CacheWrap returns "+t)
		}
	}
	if f := r.fn(ckS + "CacheWrapWithTrace"); f != nil {
		for _, ret := range Returns(f) {
			t := P.TermAt(ret.Results[0], ret).String()
			r.Check(t == "store/cachekv.NewStore(store/tracekv.NewStore(param:store, param:w, param:tc))", rule, "CacheWrapWithTrace/wraps-self", P.InstrPos(ret), t, "CacheWrapWithTrace returns "+t+": the traced child bypasses this wrapper's unwritten entries and writes into the grandparent")
		}
	}
}

// addressEquals: address equality is byte equality; only two empty addresses are equal without comparing (C17-R6, C03-R9).
func addressEquals(r *Run, rule string) {
	P := r.P
	r.Rule(rule, "owner / signer comparison is exact: Address.Equals returns true without comparing bytes only when BOTH addresses are empty, and otherwise returns bytes.Equal of the two", 2)
	f := r.fn("(types.Address).Equals")
	if f == nil {
		return
	}
	for i, a := range P.RetAlternatives(f, 0) {
		t := a.T.String()
		key := fmt.Sprintf("Equals/alternative#%d", i)
		switch t {
		case "true":
			e1, _ := HasAtom(a.G, `^\(types\.Address\)\.Empty\(param:aa\)$`)
			e2, _ := HasAtom(a.G, `^\(types\.Address\)\.Empty\(param:aa2\)$`)
			r.Check(e1 && e2, rule, key+"/true-only-if-both-empty", P.InstrPos(a.Ret), "both empty", "Equals returns true under {"+strings.Join(atomStrings(a.G), " ; ")+"} ; required both addresses empty (an empty sender would equal every owner)")
		case "bytes.Equal((types.Address).Bytes(param:aa), (types.Address).Bytes(param:aa2))", "bytes.Equal((types.Address).Bytes(param:aa2), (types.Address).Bytes(param:aa))":
			r.OK(rule, key+"/byte-equality", P.InstrPos(a.Ret), t)
		case "false":
			r.OK(rule, key+"/false", P.InstrPos(a.Ret), "false")
		default:
			r.Viol(rule, key+"/unknown-shape", P.InstrPos(a.Ret), "Equals returns "+t)
		}
	}
}

// govParamWriters: governance parameters change only through genesis and the ACL-checked ModifyParam (C17-R7).
func govParamWriters(r *Run, rule string) {
	P := r.P
	r.Rule(rule, "no message-less governance change: gov Keeper.SetParams is called from InitGenesis only, and the gov module's BeginBlock / EndBlock perform no store write", 2)
	if f := r.fn("(x/gov/keeper.Keeper).SetParams"); f != nil {
		r.callersExactly(rule, "SetParams", r.edgesTo(f), []string{"(x/gov/keeper.Keeper).InitGenesis"})
	}
	E := P.Effects()
	for _, n := range []string{"(x/gov.AppModule).BeginBlock", "(x/gov.AppModule).EndBlock"} {
		if f := r.fn(n); f != nil {
			r.Check(!E.mayWrite[f], rule, n+"/no-store-write", P.Pos(f.Pos()), "no store write reachable", n+" can write a store: a parameter, the ACL or the DAO balance would change without an authorised message")
		}
	}
}

// keybaseGetReadsDB: the keybase has one source of truth (C19-R6).
func keybaseGetReadsDB(r *Run, rule string) {
	P := r.P
	r.Rule(rule, "the key used by Sign/Update/Delete/export is the stored one: every KeyPair returned by dbKeybase.Get is decoded from kb.db.Get(addrKey(address)) (no in-memory copy that Update/Delete do not refresh)", 1)
	f := r.fn("(crypto/keys.dbKeybase).Get")
	if f == nil {
		return
	}
	src := "github.com/tendermint/tm-db.DB.Get(param:kb.db, crypto/keys.addrKey(param:address))"
	for i, a := range P.RetAlternatives(f, 0) {
		t := a.T.String()
		if strings.HasPrefix(t, "zero:") {
			continue
		}
		r.Check(strings.Contains(t, src), rule, fmt.Sprintf("Get/alternative#%d/from-db", i), P.InstrPos(a.Ret), oneLine(t), "dbKeybase.Get returns "+oneLine(t)+" ; required a record decoded from "+src)
	}
}

// intDecodeRange: decoded integers respect the 255-bit bound exactly (C20-R6; same instance as C18-R2).
func intDecodeRange(r *Run, rule string) {
	P := r.P
	r.Rule(rule, "Int decoding accepts exactly the values encoding can produce: unmarshalText succeeds only under !(BitLen > 255)", 1)
	if f := r.fn("types.unmarshalText"); f != nil {
		for i, ret := range P.successReturns(f, 0, "nil") {
			ok, _ := HasAtom(P.Guards(ret, 0), `^!\(255 < \(\*math/big\.Int\)\.BitLen\(param:i\)\)$`)
			r.Check(ok, rule, fmt.Sprintf("unmarshalText/success#%d/range-checked", i), P.InstrPos(ret), "decoded integers are range-checked at 255 bits", "unmarshalText's success is not guarded by !(BitLen > 255): values the constructors accept would not decode (or larger ones would)")
		}
	}
}

func init() {
	extend("C12", func(r *Run) { pruningConfig(r, "C12-R10") })
	extend("C13", func(r *Run) {
		pruningWiring(r, "C13-R6")
		pruningConfig(r, "C13-R7")
	})
	extend("C14", func(r *Run) { queryStoreHeight(r, "C14-R7") })
	extend("C15", func(r *Run) {
		mergeIteratorCompare(r, "C15-R8")
		cachekvWrapSelf(r, "C15-R9")
	})
	extend("C17", func(r *Run) {
		addressEquals(r, "C17-R6")
		govParamWriters(r, "C17-R7")
	})
	extend("C03", func(r *Run) { addressEquals(r, "C03-R9") })
	extend("C19", func(r *Run) { keybaseGetReadsDB(r, "C19-R6") })
	extend("C20", func(r *Run) { intDecodeRange(r, "C20-R6") })
}

// decoderIsTotal: code that runs on raw transaction bytes outside runTx's recover never calls into the decoded message (C11-R11).
func decoderIsTotal(r *Run, rule string) {
	P := r.P
	g := P.CG()
	r.Rule(rule, "malformed bytes are rejected, not crashed on: the transaction decoder runs in CheckTx/DeliverTx outside runTx's recover, so nothing reachable from DefaultTxDecoder's closure invokes a method of the decoded sdk.Msg / sdk.Tx (a nil Msg or nil key would panic the process); CheckTx and DeliverTx touch the decoded tx only by passing it to runTx", 3)
	isMsgInvoke := func(l string) bool {
		return strings.HasPrefix(l, "invoke:types.Msg.") || strings.HasPrefix(l, "invoke:types.Tx.") || strings.HasPrefix(l, "invoke:types.ProtoMsg.") || strings.HasPrefix(l, "invoke:crypto.PublicKey.")
	}
	if dec := r.fn("x/auth/types.DefaultTxDecoder$1"); dec != nil {
		reached := g.Reach([]*ssa.Function{dec}, nil)
		bad := 0
		for f := range reached {
			for _, e := range g.Out[f] {
				if e.Callee == nil && isMsgInvoke(e.Label) {
					bad++
					r.Viol(rule, "decoder/no-method-of-decoded-message:"+short(f.String())+":"+e.Label, P.InstrPos(e.Site), short(f.String())+" (reached from the tx decoder via "+g.PathTo(reached, f)+") calls "+e.Label+" on a value decoded from untrusted bytes, outside any recover: a transaction with a nil message or key panics the node")
				}
			}
		}
		if bad == 0 {
			r.OK(rule, "decoder/no-method-of-decoded-message", P.Pos(dec.Pos()), fmt.Sprintf("%d functions reachable from the decoder, none invokes sdk.Msg / sdk.Tx / PublicKey methods", len(reached)))
		}
	}
	for _, n := range []string{"(*baseapp.BaseApp).CheckTx", "(*baseapp.BaseApp).DeliverTx"} {
		f := r.fn(n)
		if f == nil {
			continue
		}
		bad := false
		for _, e := range g.Out[f] {
			if e.Callee == nil && isMsgInvoke(e.Label) {
				bad = true
				r.Viol(rule, n+"/tx-only-passed-to-runTx:"+e.Label, P.InstrPos(e.Site), n+" calls "+e.Label+" outside runTx's recover")
			}
		}
		if !bad {
			r.OK(rule, n+"/tx-only-passed-to-runTx", P.Pos(f.Pos()), "no method of the decoded tx is invoked outside runTx")
		}
	}
}

func init() {
	extend("C11", func(r *Run) { decoderIsTotal(r, "C11-R11") })
}
