package main

import (
	_ "embed"
	"encoding/json"
	"fmt"
	"regexp"
	"sort"

	"golang.org/x/tools/go/ssa"
)

// Dispatch on literals is not thinned out. A function that compares a value with string / numeric literals
// (`switch strategy { case "nothing": … }`, `if path[0] == "store"`, `case runTxModeDeliver`) distinguishes the
// cases the literals name; pinned_switch_atoms.json records, per repo function, the canonical `(X == literal)` tests it
// makes (`pv -dump switchatoms`). RSW1: every pinned test is still made (in the function or in helpers a refactoring
// split off it) — a deleted `case` silently sends that input down the default path. Monotone: new cases are fine.

//go:embed pinned_switch_atoms.json
var pinnedSwitchAtomsJSON []byte

var litEqRe = regexp.MustCompile(`^\((?:"[^"]*"|-?\d+) == .*\)$|^\(.* == (?:"[^"]*"|-?\d+)\)$`)

func (P *Prog) switchAtoms() map[string][]string {
	out := map[string]map[string]bool{}
	for _, f := range P.RepoFns {
		f := f
		InstrsRaw(f, func(in ssa.Instruction) {
			ifi, ok := in.(*ssa.If)
			if !ok {
				return
			}
			// both outcomes: a test compiled into a boolean value first (`case a || b:`) yields its atoms only on the
			// outcome that determines them
			for _, a := range append(P.condAtoms(ifi.Cond, ifi, true, 0), P.condAtoms(ifi.Cond, ifi, false, 0)...) {
				k := canonAtom(a.T.String())
				if !litEqRe.MatchString(k) || regexp.MustCompile(`phi\(|loop|next\(range\(|\[\*\]`).MatchString(k) {
					continue
				}
				for _, pf := range P.pinnedCallersOf(f) {
					n := short(enclosingTop(pf).String())
					if out[n] == nil {
						out[n] = map[string]bool{}
					}
					out[n][k] = true
				}
			}
		})
	}
	res := map[string][]string{}
	for n, m := range out {
		for k := range m {
			res[n] = append(res[n], k)
		}
		sort.Strings(res[n])
	}
	return res
}

func dumpSwitchAtoms(P *Prog) {
	b, _ := json.MarshalIndent(P.switchAtoms(), "", " ")
	fmt.Println(string(b))
}

func switchAtomsKept(r *Run, rule string) {
	P := r.P
	r.Rule(rule, "dispatch on literals is not thinned out: every `value == literal` test a function in scope made on the pinned tree (pinned_switch_atoms.json) is still made — a removed case sends that input down the default path", 1)
	var pinned map[string][]string
	if err := json.Unmarshal(pinnedSwitchAtomsJSON, &pinned); err != nil || len(pinned) == 0 {
		r.Undecided(rule, "table", "-", "pinned_switch_atoms.json is empty or unreadable")
		return
	}
	cur := P.switchAtoms()
	var names []string
	for n := range pinned {
		if f := P.Fn(n); f != nil && (r.Anchors[f] || inScope(r.Prop, f)) {
			names = append(names, n)
		}
	}
	sort.Strings(names)
	lost := 0
	for _, n := range names {
		have := map[string]bool{}
		for _, k := range cur[n] {
			have[k] = true
		}
		for _, k := range pinned[n] {
			if !have[k] {
				lost++
				f := P.Fn(n)
				r.Viol(rule, "case-dropped:"+n+":"+k2short(k), P.Pos(f.Pos()), n+" no longer tests "+k+" (it did on the pinned tree): input that took this case now takes the default path")
			}
		}
	}
	r.OK(rule, "literal-tests-compared", "-", fmt.Sprintf("%d functions in scope compared, %d dropped tests", len(names), lost))
}

func init() {
	for i := 1; i <= 20; i++ {
		p := fmt.Sprintf("C%02d", i)
		extend(p, func(r *Run) { switchAtomsKept(r, p+"-RSW1") })
	}
}
