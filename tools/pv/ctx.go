package main

import (
	"golang.org/x/tools/go/ssa"
)

// Context-sensitive sites: when a refactoring moves statements of an anchored function into a new helper (a function
// absent from the pinned tree), the statements are still analysed as part of the anchored function: a CtxSite is an
// instruction together with the chain of call sites (outermost first) through new helpers that leads to it. Its
// terms and guards are translated to the anchored function by substituting arguments for the helpers' parameters.

type CtxSite struct {
	In    ssa.Instruction
	Chain []*ssa.Call
}

// isNewHelper: a repo function with a body that the pinned tree does not know.
func (P *Prog) isNewHelper(f *ssa.Function) bool {
	if f == nil || len(f.Blocks) == 0 || f.Synthetic != "" || !P.IsRepoFn(f) {
		return false
	}
	loadPinned()
	if len(pinnedParams) == 0 {
		return false
	}
	_, known := pinnedParams[short(f.String())]
	return !known
}

// CtxSites enumerates the instructions of f satisfying pred, looking through calls to new helpers (depth 3).
func (P *Prog) CtxSites(f *ssa.Function, pred func(ssa.Instruction) bool) []CtxSite {
	var out []CtxSite
	var walk func(fn *ssa.Function, chain []*ssa.Call, depth int)
	walk = func(fn *ssa.Function, chain []*ssa.Call, depth int) {
		InstrsRaw(fn, func(in ssa.Instruction) {
			if pred(in) {
				out = append(out, CtxSite{In: in, Chain: append([]*ssa.Call{}, chain...)})
			}
			if c, ok := in.(*ssa.Call); ok && depth < 3 {
				if h := staticCallee(&c.Call); h != nil && h != fn && P.isNewHelper(h) {
					walk(h, append(append([]*ssa.Call{}, chain...), c), depth+1)
				}
			}
		})
	}
	walk(f, nil, 0)
	return out
}

func (P *Prog) substFor(c *ssa.Call) map[string]*Term {
	m := map[string]*Term{}
	h := staticCallee(&c.Call)
	if h == nil {
		return m
	}
	for i, p := range h.Params {
		if i < len(c.Call.Args) {
			m[pinnedParamName(p)] = P.TermAt(c.Call.Args[i], c)
		}
	}
	return m
}

// lift translates a term of the innermost function of the chain to the outermost one.
func (P *Prog) lift(t *Term, chain []*ssa.Call) *Term {
	for i := len(chain) - 1; i >= 0; i-- {
		t = t.Subst(P.substFor(chain[i]))
	}
	return t
}

// CtxTerm: term of value v (used at s.In) expressed over the anchored function's values.
func (P *Prog) CtxTerm(s CtxSite, v ssa.Value) *Term {
	return P.lift(P.TermAt(v, s.In), s.Chain)
}

// CtxGuards: guards of the site itself plus those of every call site of the chain, all lifted.
func (P *Prog) CtxGuards(s CtxSite, depth int) []Atom {
	var out []Atom
	for i, c := range s.Chain {
		for _, a := range P.Guards(c, depth) {
			out = append(out, Atom{T: P.lift(a.T, s.Chain[:i]), Pos: a.Pos, If: a.If, Via: a.Via})
		}
	}
	for _, a := range P.Guards(s.In, depth) {
		out = append(out, Atom{T: P.lift(a.T, s.Chain), Pos: a.Pos, If: a.If, Via: a.Via})
	}
	return dedupeAtoms(out)
}

// uniqueSiteOfNewHelper returns the single static call site of f when f is a new helper with exactly one, else nil.
func (P *Prog) uniqueSiteOfNewHelper(f *ssa.Function) *ssa.Call {
	if f == nil || f.Parent() != nil || !P.isNewHelper(f) {
		return nil
	}
	if P.helperSites == nil {
		P.helperSites = map[*ssa.Function][]*ssa.Call{}
		for _, fn := range P.RepoFns {
			InstrsRaw(fn, func(in ssa.Instruction) {
				if c, ok := in.(*ssa.Call); ok {
					if h := staticCallee(&c.Call); h != nil && P.isNewHelper(h) {
						P.helperSites[h] = append(P.helperSites[h], c)
					}
				}
			})
		}
	}
	if s := P.helperSites[f]; len(s) == 1 && s[0].Parent() != f {
		return s[0]
	}
	return nil
}

// liftToPinned maps a function to the pinned function it acts for: a new helper with a single call site stands for
// its caller (repeatedly); closures stand for their enclosing top-level function.
func (P *Prog) liftToPinned(f *ssa.Function) *ssa.Function {
	for i := 0; i < 5; i++ {
		f = enclosingTop(f)
		s := helperSite(f)
		if s == nil {
			return f
		}
		f = s.Parent()
	}
	return enclosingTop(f)
}

// pinnedCallersOf: f itself when it belongs to the pinned tree, otherwise the pinned functions that (transitively,
// through other new helpers) call the new helper f.
func (P *Prog) pinnedCallersOf(f *ssa.Function) []*ssa.Function {
	seen := map[*ssa.Function]bool{}
	var out []*ssa.Function
	var walk func(g *ssa.Function, d int)
	walk = func(g *ssa.Function, d int) {
		if seen[g] {
			return
		}
		seen[g] = true
		if !P.isNewHelper(enclosingTop(g)) || d > 4 {
			out = append(out, g) // pinned function or one of its closures: keeps its own name
			return
		}
		g = enclosingTop(g)
		ins := P.CG().In[g]
		if len(ins) == 0 {
			out = append(out, g)
			return
		}
		for _, e := range ins {
			walk(e.Caller, d+1)
		}
	}
	walk(f, 0)
	return out
}
