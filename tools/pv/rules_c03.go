package main

import (
	"fmt"
	"strings"

	"golang.org/x/tools/go/ssa"
)

func init() { register("C03", checkC03) }

// signer-term patterns used by several rules
const (
	reSigner    = `\(x/auth/types\.StdTx\)\.GetSigner\(param:stdTx\)`
	reSigPubKey = `param:stdTx\.Signature\.PublicKey`
	reAcctKey   = `x/auth/exported\.Account\.GetPubKey\(\(x/auth/keeper\.Keeper\)\.GetAccount\(param:k, param:ctx, ` + reSigner + `\)\)`
)

func checkC03(r *Run) {
	P := r.P
	r.NotDecided("soundness of VerifyBytes / the signature schemes (library)")
	r.NotDecided("that the node's tx index really contains every earlier transaction (replay protection depends on the indexer configuration)")
	r.NotDecided("byte-level canonicity of amino JSON (only that MustSortJSON is applied to a document built from all signed fields)")
	r.Assumption("the ante handler installed by the application is the closure returned by auth.NewAnteHandler (slot table)")

	// ------------------------------------------------------------------ R1
	r.Rule("C03-R1", "every success return of auth.ValidateTransaction has passed, on the right values: memo check; a public key that is either the signer's account key or a signature-supplied key whose address equals the message signer; the tx-index duplicate lookup on hash(txBz) with err==nil => reject; sign bytes built from (chainID, stdTx); Fee >= NewCoins(NewCoin(denom, FeeMultiplier.GetFee(Msg))); simulate or pk.VerifyBytes(signBytes, signature); multisig => signature-depth check", 8)
	if vt := r.fn("x/auth.ValidateTransaction"); vt != nil {
		rets := P.successReturns(vt, 0, "nil")
		if len(rets) == 0 {
			r.Undecided("C03-R1", "ValidateTransaction/success-returns", P.Pos(vt.Pos()), "no success return found")
		}
		r.Stats["C03_success_returns"] = len(rets)
		for i, ret := range rets {
			key := fmt.Sprintf("ValidateTransaction/success-return#%d", i)
			atoms := P.Guards(ret, 2)
			r.requireAtoms("C03-R1", key, ret, atoms, []req{
				{"memo-ok", `^isnil\(x/auth\.ValidateMemo\(param:stdTx, param:params\)\)$`},
				{"memo-bound", `^!\(param:params\.MaxMemoCharacters < len\((?:.*GetMemo\(param:stdTx\)|param:stdTx\.Memo)\)\)$`},
				{"not-duplicate", `^!isnil\(.*rpc/client\.\w+\)\.Tx\(.*\(github\.com/tendermint/tendermint/types\.Tx\)\.Hash\(param:txBz\).*\)#1\)$`},
				{"signbytes-ok", `^isnil\(x/auth\.GetSignBytes\(types\.Ctx\.ChainID\(param:ctx\), param:stdTx\)#1\)$`},
				{"fee>=expected", `^\(types\.Coins\)\.IsAllGTE\(param:stdTx\.Fee, types\.NewCoins\(list\(types\.NewCoin\("upokt", \(x/auth/types\.FeeMultipliers\)\.GetFee\(\(x/auth/keeper\.Keeper\)\.GetParams\(param:k, param:ctx\)\.FeeMultiplier, param:stdTx\.Msg\)\)\)\)\)$`},
			})
			// key binding: account key of the signer, or signature key compared with the signer
			r.requireCut("C03-R1", key, nil, ret, "key-belongs-to-signer",
				`^!isnil\(`+reAcctKey+`\)$`,
				`^\(types\.Address\)\.Equals\(crypto\.PublicKey\.Address\(`+reSigPubKey+`\), `+reSigner+`\)$`,
				`^\(types\.Address\)\.Equals\(`+reSigner+`, crypto\.PublicKey\.Address\(`+reSigPubKey+`\)\)$`,
				`^bytes\.Equal\(.*crypto\.PublicKey\.Address\(`+reSigPubKey+`\).*`+reSigner+`.*\)$`)
			// signature verified (or simulating), with the bound key, the sign bytes and the tx signature
			// (the receiver of VerifyBytes is checked by the key-sources obligation below, also through helper functions)
			verify := `crypto\.PublicKey\.VerifyBytes\(.*, x/auth\.GetSignBytes\(types\.Ctx\.ChainID\(param:ctx\), param:stdTx\)#0, param:stdTx\.Signature\.Signature\)`
			r.requireCut("C03-R1", key, nil, ret, "signature-verified-or-simulate",
				`^param:simulate$`, `^`+verify+`$`)
			// multisig keys additionally pass the depth check
			r.requireCut("C03-R1", key, nil, ret, "multisig=>depth-check",
				`^!.*\.\(crypto\.PublicKeyMultiSig\)#1$`,
				`^x/auth\.ValidateSignatureDepth\(param:params\.TxSigLimit, .*\.\(crypto\.PublicKeyMultiSig\)\)$`)
		}
		// the key that is verified has exactly the two vetted sources
		for _, c := range CallsIn(vt, "crypto.PublicKey.VerifyBytes") {
			t := P.callTerm(c)
			recv := argTerm(t, 0)
			ok := true
			var srcs []string
			leaves := P.ValueAlternatives(recv, 2)
			for _, l := range leaves {
				s := l.String()
				srcs = append(srcs, s)
				if !reMatch(`^`+reSigPubKey+`$`, s) && !reMatch(`^`+reAcctKey+`$`, s) {
					ok = false
				}
			}
			r.Check(ok, "C03-R1", "ValidateTransaction/VerifyBytes-key-sources", P.InstrPos(c),
				"verified key comes only from the signature or the signer's account: "+strings.Join(srcs, " | "),
				"the key passed to VerifyBytes has a source other than the signature-supplied key or the signer's account key: "+strings.Join(srcs, " | "))
		}
	}

	// ------------------------------------------------------------------ R2
	r.Rule("C03-R2", "sign bytes cover every field of StdTx other than Signature, plus the chain id: GetSignBytes passes (chainID, Entropy, Fee, Msg, Memo) to StdSignBytes, StdSignBytes builds StdSignDoc from all five (Msg through msg.GetSignBytes(), Fee through fee.MarshalJSON()) and returns MustSortJSON of its JSON encoding", 3)
	if gsb := r.fn("x/auth.GetSignBytes"); gsb != nil {
		if c := r.oneCall("C03-R2", "GetSignBytes", gsb, "x/auth/types.StdSignBytes"); c != nil {
			t := P.callTerm(c).String()
			want := `x/auth/types.StdSignBytes(param:chainID, param:stdTx.Entropy, param:stdTx.Fee, param:stdTx.Msg, param:stdTx.Memo)`
			r.Check(t == want, "C03-R2", "GetSignBytes/args", P.InstrPos(c), "StdSignBytes receives "+t, "StdSignBytes receives "+t+" but the signed fields must be "+want)
			// returns exactly that call's results
			for _, ret := range Returns(gsb) {
				ok := len(ret.Results) == 2 && strings.HasPrefix(P.TermAt(ret.Results[0], ret).String(), "x/auth/types.StdSignBytes(")
				r.Check(ok, "C03-R2", "GetSignBytes/returns-StdSignBytes", P.InstrPos(ret), "returns the StdSignBytes result", "GetSignBytes does not return the StdSignBytes result unchanged: "+P.TermAt(ret.Results[0], ret).String())
			}
		}
		// every field of StdTx except Signature is passed on
		if st := P.NamedType("x/auth/types", "StdTx"); st != nil {
			fields := structFieldNames(st)
			var missing []string
			cs := CallsIn(gsb, "x/auth/types.StdSignBytes")
			if len(cs) > 0 {
				s := P.callTerm(cs[0]).String()
				for _, f := range fields {
					if f == "Signature" {
						continue
					}
					if !strings.Contains(s, "param:stdTx."+f) {
						missing = append(missing, f)
					}
				}
				r.Check(len(missing) == 0, "C03-R2", "StdTx/field-coverage", P.InstrPos(cs[0]), fmt.Sprintf("all %d non-signature fields of StdTx are signed: %v", len(fields)-1, fields),
					"fields of StdTx not covered by the sign bytes: "+strings.Join(missing, ","))
			}
		}
	}
	if ssb := r.fn("x/auth/types.StdSignBytes"); ssb != nil {
		for i, ret := range P.successReturns(ssb, 1, "nil") {
			t := P.TermAt(ret.Results[0], ret).String()
			want := `types.MustSortJSON((*github.com/tendermint/go-amino.Codec).MarshalJSON(global:x/auth/types.ModuleCdc, complit:x/auth/types.StdSignDoc{ChainID=param:chainID, Fee=(types.Coins).MarshalJSON(param:fee)#0, Memo=param:memo, Msg=types.Msg.GetSignBytes(param:msg), Entropy=param:entropy})#0)`
			ok := reMatch(`^types\.MustSortJSON\(\(\*github\.com/tendermint/go-amino\.Codec\)\.MarshalJSON\(global:x/auth/types\.ModuleCdc, complit:x/auth/types\.StdSignDoc\{.*\}\)#0\)$`, t)
			for _, f := range []string{"ChainID=param:chainID", "Fee=(types.Coins).MarshalJSON(param:fee)#0", "Memo=param:memo", "Msg=types.Msg.GetSignBytes(param:msg)", "Entropy=param:entropy"} {
				if !strings.Contains(t, f) {
					ok = false
				}
			}
			r.Check(ok, "C03-R2", fmt.Sprintf("StdSignBytes/document#%d", i), P.InstrPos(ret), "sign bytes = "+t, "sign bytes are "+t+" ; required shape "+want)
		}
		if sd := P.NamedType("x/auth/types", "StdSignDoc"); sd != nil {
			n := len(structFieldNames(sd))
			r.Check(n == 5, "C03-R2", "StdSignDoc/fields", "-", "StdSignDoc has the 5 vetted fields", fmt.Sprintf("StdSignDoc now has %d fields; the coverage table (5) must be re-confirmed", n))
		}
	}

	// ------------------------------------------------------------------ R3
	r.Rule("C03-R3", "the ante closure returns abort=false only after tx is a StdTx, tx.ValidateBasic, ValidateTransaction(ctx, ak, stdTx, params, tmNode, txBz, simulate) and DeductFees succeeded in this order; DeductFees moves exactly tx.Fee from the account of tx.GetSigner() to the fee collector, guarded by fee validity, account existence and a non-negative remainder", 10)
	if ante := r.fn("x/auth.NewAnteHandler$1"); ante != nil {
		n := 0
		for _, ret := range Returns(ante) {
			c, _ := P.retClass(ret, 2)
			if c == "true" {
				continue
			}
			n++
			atoms := P.Guards(ret, 0)
			r.requireAtoms("C03-R3", "ante/continue-return", ret, atoms, []req{
				{"is-StdTx", `^param:tx\.\(x/auth/types\.StdTx\)#1$`},
				{"ValidateBasic-ok", `^isnil\(types\.Tx\.ValidateBasic\(param:tx\)\)$`},
				{"ValidateTransaction-ok", `^isnil\(x/auth\.ValidateTransaction\(param:ctx, free:ak, param:tx\.\(x/auth/types\.StdTx\), \(x/auth/keeper\.Keeper\)\.GetParams\(free:ak, param:ctx\), param:tmNode, param:txBz, param:simulate\)\)$`},
				{"DeductFees-ok", `^isnil\(x/auth\.DeductFees\(free:ak, param:ctx, param:tx\.\(x/auth/types\.StdTx\)\)\)$`},
			})
		}
		if n == 0 {
			r.Viol("C03-R3", "ante/continue-return", P.Pos(ante.Pos()), "the ante closure has no abort=false return")
		}
		r.orderedCalls("C03-R3", "ante", ante, "types.Tx.ValidateBasic", "x/auth.ValidateTransaction", "x/auth.DeductFees")
	}
	if df := r.fn("x/auth.DeductFees"); df != nil {
		if c := r.oneCall("C03-R3", "DeductFees", df, "(x/auth/keeper.Keeper).SendCoinsFromAccountToModule"); c != nil {
			t := P.callTerm(c).String()
			want := `(x/auth/keeper.Keeper).SendCoinsFromAccountToModule(param:keeper, param:ctx, x/auth/exported.Account.GetAddress(x/auth.GetSignerAcc(param:ctx, param:keeper, (x/auth/types.StdTx).GetSigner(param:tx))#0), "fee_collector", param:tx.Fee)`
			r.Check(t == want, "C03-R3", "DeductFees/transfer", P.InstrPos(c), "fee transfer is "+t, "fee transfer is "+t+" ; required "+want)
			r.requireAtoms("C03-R3", "DeductFees/transfer", c, P.Guards(c, 1), []req{
				{"fee-valid", `^\(types\.Coins\)\.IsValid\(param:tx\.Fee\)$`},
				{"signer-account-found", `^isnil\(x/auth\.GetSignerAcc\(param:ctx, param:keeper, \(x/auth/types\.StdTx\)\.GetSigner\(param:tx\)\)#1\)$`},
				{"balance-covers-fee", `^!\(types\.Coins\)\.SafeSub\(x/auth/exported\.Account\.GetCoins\(x/auth\.GetSignerAcc\(.*\)#0\), param:tx\.Fee\)#1$`},
			})
			// success returns only after the transfer succeeded
			for i, ret := range P.successReturns(df, 0, "nil") {
				r.requireAtoms("C03-R3", fmt.Sprintf("DeductFees/success-return#%d", i), ret, P.Guards(ret, 0), []req{
					{"transfer-ok", `^isnil\(\(x/auth/keeper\.Keeper\)\.SendCoinsFromAccountToModule\(`},
				})
			}
		}
	}
	if gsa := r.fn("x/auth.GetSignerAcc"); gsa != nil {
		for i, ret := range P.successReturns(gsa, 1, "nil") {
			t := P.TermAt(ret.Results[0], ret).String()
			r.Check(t == "(x/auth/keeper.Keeper).GetAccount(param:ak, param:ctx, param:addr)", "C03-R3", fmt.Sprintf("GetSignerAcc/returns-account-of-addr#%d", i), P.InstrPos(ret),
				"returns "+t, "GetSignerAcc success return yields "+t+" instead of the account of its addr parameter")
		}
	}
	if gs := r.fn("(x/auth/types.StdTx).GetSigner"); gs != nil {
		for _, ret := range Returns(gs) {
			t := P.TermAt(ret.Results[0], ret).String()
			ok := t == "types.Msg.GetSigner((x/auth/types.StdTx).GetMsg(param:tx))" || t == "types.Msg.GetSigner(param:tx.Msg)"
			r.Check(ok, "C03-R3", "StdTx.GetSigner/is-msg-signer", P.InstrPos(ret), "StdTx.GetSigner = "+t, "StdTx.GetSigner returns "+t+" and not the signer declared by the message")
		}
	}

	// ------------------------------------------------------------------ R4
	r.Rule("C03-R4", "actor is signer: for every message type the address its GetSigner returns is the authority argument its handler acts on", 8)
	type row struct {
		msgType, handler, call string
		arg                    int
		derived                string // optional: second call whose arg must derive from the first call's result
		darg                   int
	}
	rows := []row{
		{"x/pos/types.MsgSend", "x/pos.handleMsgSend", "(x/pos/keeper.Keeper).SendCoins", 2, "", 0},
		{"x/pos/types.MsgBeginUnstake", "x/pos.handleMsgBeginUnstake", "(x/pos/keeper.Keeper).GetValidator", 2, "(x/pos/keeper.Keeper).BeginUnstakingValidator", 2},
		{"x/pos/types.MsgUnjail", "x/pos.validateUnjailMessage", "(x/pos/keeper.Keeper).Validator", 2, "", 0},
		{"x/pos/types.MsgStake", "x/pos.stakeNewValidator", "x/pos/types.NewValidator", 0, "(x/pos/keeper.Keeper).StakeValidator", 2},
		{"x/pos/types.MsgStake", "x/pos.stakeRegisteredValidator", "(x/pos/keeper.Keeper).GetValidator", 2, "(x/pos/keeper.Keeper).StakeValidator", 2},
		{"x/gov/types.MsgChangeParam", "x/gov.handleMsgChangeParam", "(x/gov/keeper.Keeper).ModifyParam", 4, "", 0},
		{"x/gov/types.MsgDAOTransfer", "x/gov.handleMsgDaoTransfer", "(x/gov/keeper.Keeper).DAOTransferFrom", 2, "", 0},
		{"x/gov/types.MsgDAOTransfer", "x/gov.handleMsgDaoTransfer", "(x/gov/keeper.Keeper).DAOBurn", 2, "", 0},
		{"x/gov/types.MsgUpgrade", "x/gov.handleMsgUpgrade", "(x/gov/keeper.Keeper).HandleUpgrade", 4, "", 0},
	}
	for _, w := range rows {
		gs := r.fn("(" + w.msgType + ").GetSigner")
		h := r.fn(w.handler)
		if gs == nil || h == nil {
			continue
		}
		rets := Returns(gs)
		if len(rets) != 1 {
			r.Undecided("C03-R4", w.msgType+"/GetSigner", P.Pos(gs.Pos()), "GetSigner has several returns")
			continue
		}
		signer := P.TermAt(rets[0].Results[0], rets[0]).String()
		key := w.msgType + "→" + w.handler + "/" + w.call
		cs := CallsIn(h, w.call)
		if len(cs) == 0 {
			r.Viol("C03-R4", key, P.Pos(h.Pos()), w.handler+" no longer calls "+w.call)
			continue
		}
		for _, c := range cs {
			t := P.callTerm(c)
			got := argTerm(t, w.arg).String()
			r.Check(got == signer, "C03-R4", key, P.InstrPos(c), "authority argument "+got+" is the message signer", "authority argument is "+got+" but the message signer is "+signer)
			if w.derived != "" {
				for _, d := range CallsIn(h, w.derived) {
					dt := argTerm(P.callTerm(d), w.darg).String()
					ok := strings.Contains(dt, t.String())
					r.Check(ok, "C03-R4", key+"→"+w.derived, P.InstrPos(d), "acts on the value obtained for the signer", "acts on "+dt+" which does not derive from "+t.String())
				}
			}
		}
	}
	// unjail: the address handed to UnjailValidator is the one validateUnjailMessage derived from the signer's validator
	if h := r.fn("x/pos.handleMsgUnjail"); h != nil {
		if c := r.oneCall("C03-R4", "handleMsgUnjail", h, "(x/pos/keeper.Keeper).UnjailValidator"); c != nil {
			got := argTerm(P.callTerm(c), 2).String()
			r.Check(got == "x/pos.validateUnjailMessage(param:ctx, param:msg, param:k)#0", "C03-R4", "handleMsgUnjail/UnjailValidator-arg", P.InstrPos(c), "unjails "+got, "unjails "+got+" instead of the address validated for the message")
		}
		if v := r.fn("x/pos.validateUnjailMessage"); v != nil {
			for i, ret := range P.successReturns(v, 1, "nil") {
				t := P.TermAt(ret.Results[0], ret).String()
				ok := reMatch(`^crypto\.PublicKey\.Address\(x/pos/exported\.ValidatorI\.GetPublicKey\(\(x/pos/keeper\.Keeper\)\.Validator\(param:k, param:ctx, param:msg\.ValidatorAddr\)\)\)$`, t) ||
					t == "param:msg.ValidatorAddr" || reMatch(`^x/pos/exported\.ValidatorI\.GetAddress\(\(x/pos/keeper\.Keeper\)\.Validator\(param:k, param:ctx, param:msg\.ValidatorAddr\)\)$`, t)
				r.Check(ok, "C03-R4", fmt.Sprintf("validateUnjailMessage/returned-address#%d", i), P.InstrPos(ret), "returns "+t, "returns "+t+" which is not derived from the signer's validator")
			}
		}
	}
	// dispatch: each handler closure hands the type-switched msg itself to the per-message handler
	for _, hn := range []string{"x/pos.NewHandler$1", "x/gov.NewHandler$1"} {
		h := r.fn(hn)
		if h == nil {
			continue
		}
		Instrs(h, func(in ssa.Instruction) {
			c, ok := in.(*ssa.Call)
			if !ok || c.Call.StaticCallee() == nil || !P.IsRepoFn(c.Call.StaticCallee()) {
				return
			}
			name := short(c.Call.StaticCallee().String())
			if !strings.Contains(name, ".handle") {
				return
			}
			t := P.callTerm(c)
			a := argTerm(t, 1).String()
			ok2 := strings.HasPrefix(a, "param:msg.(") && strings.HasSuffix(a, ")#0") || strings.HasPrefix(a, "param:msg.(")
			r.Check(ok2, "C03-R4", hn+"/dispatch:"+name, P.InstrPos(c), "dispatches "+a, "dispatches "+a+" instead of the received message")
		})
	}

	// ------------------------------------------------------------------ R5
	checkRunTxAnte(r, "C03-R5")

	// ------------------------------------------------------------------ R6
	checkMultisigVerify(r, "C03-R6")

	// ------------------------------------------------------------------ R7
	r.Rule("C03-R7", "required fee: FeeMultipliers.GetFee multiplies msg.GetFee() by the multiplier whose Key equals msg.Type() (the per-message-type table), else by Default", 3)
	if f := r.fn("(x/auth/types.FeeMultipliers).GetFee"); f != nil {
		for i, ret := range Returns(f) {
			t := P.TermAt(ret.Results[0], ret).String()
			gs := P.Guards(ret, 0)
			if strings.Contains(t, ".Multiplier") {
				ok := reMatch(`^\(types\.Int\)\.Mul\(types\.Msg\.GetFee\(param:msg\), types\.NewInt\(param:fm\.FeeMultis\[.*\]\.Multiplier\)\)$`, t)
				r.Check(ok, "C03-R7", fmt.Sprintf("GetFee/matched-return#%d/value", i), P.InstrPos(ret), t, "matched fee is "+t)
				okG, _ := HasAtom(gs, `^\(param:fm\.FeeMultis\[.*\]\.Key == types\.Msg\.Type\(param:msg\)\)$`)
				r.Check(okG, "C03-R7", fmt.Sprintf("GetFee/matched-return#%d/keyed-by-msg-type", i), P.InstrPos(ret), "multiplier selected by Key == msg.Type()", "the per-message multiplier is selected under {"+strings.Join(atomStrings(gs), " ; ")+"} ; required Key == msg.Type()")
			} else {
				r.Check(t == "(types.Int).Mul(types.Msg.GetFee(param:msg), types.NewInt(param:fm.Default))", "C03-R7", fmt.Sprintf("GetFee/default-return#%d", i), P.InstrPos(ret), t, "default fee is "+t)
			}
		}
	}
}
