package main

import (
	_ "embed"
	"encoding/json"
	"fmt"
	"go/ast"
	"go/token"
	"go/types"
	"sort"
	"strconv"
	"strings"

	"golang.org/x/tools/go/ssa"
)

// Term is a normalised expression tree recovered from SSA. Conversions,
// interface boxing and single-assignment locals are looked through, callees are
// resolved objects (never source text).
type Term struct {
	Op   string // const param call invoke dyncall builtin field index binop unop phi extract typeassert closure func global free addr complit zero clobber loop other
	Name string
	Args []*Term
	V    ssa.Value
	In   ssa.Instruction // defining instruction when there is one
}

func (t *Term) String() string {
	if t == nil {
		return "<nil>"
	}
	switch t.Op {
	case "const", "param", "global", "free", "func", "zero", "loop", "other", "addr":
		if t.Op == "const" {
			return t.Name
		}
		return t.Op + ":" + t.Name
	case "closure":
		return "closure:" + t.Name
	case "call", "invoke", "builtin":
		return t.Name + "(" + joinTerms(t.Args) + ")"
	case "dyncall":
		return "dyn[" + t.Args[0].String() + "](" + joinTerms(t.Args[1:]) + ")"
	case "field":
		return t.Args[0].String() + "." + t.Name
	case "index":
		return t.Args[0].String() + "[" + t.Args[1].String() + "]"
	case "binop":
		return "(" + t.Args[0].String() + " " + t.Name + " " + t.Args[1].String() + ")"
	case "unop":
		return t.Name + t.Args[0].String()
	case "phi":
		return "phi(" + joinTerms(t.Args) + ")"
	case "extract":
		return t.Args[0].String() + "#" + t.Name
	case "typeassert":
		return t.Args[0].String() + ".(" + t.Name + ")"
	case "complit":
		return "complit:" + t.Name + "{" + joinFields(t.Args, true) + "}"
	case "clobber":
		if len(t.Args) == 1 {
			return "out:" + t.Name + "←" + t.Args[0].String()
		}
		return "clobber@" + t.Name
	case "slice":
		return t.Args[0].String() + "[" + joinTerms(t.Args[1:]) + "]"
	case "fieldset":
		return t.Name + "=" + t.Args[0].String()
	case "upd":
		// a value built field by field from the zero value (or from a literal) is the literal with those fields
		base, sets := t, []*Term(nil)
		for base.Op == "upd" && len(base.Args) == 2 && base.Args[1].Op == "fieldset" {
			sets = append([]*Term{base.Args[1]}, sets...)
			base = base.Args[0]
		}
		if base.Op == "complit" {
			return "complit:" + base.Name + "{" + joinFields(append(append([]*Term{}, base.Args...), sets...), true) + "}"
		}
		if base.Op == "zero" && base.V != nil {
			if _, isStruct := deref(base.V.Type()).Underlying().(*types.Struct); isStruct {
				return "complit:" + typeStr(deref(base.V.Type())) + "{" + joinFields(sets, true) + "}"
			}
		}
		return "upd(" + joinTerms(t.Args) + ")"
	}
	return t.Op + ":" + t.Name + "(" + joinTerms(t.Args) + ")"
}

// joinFields renders the fields of a struct literal: the last assignment to a field wins, fields are sorted by name,
// and (for a value built from scratch) fields explicitly given their zero value are left out.
func joinFields(ts []*Term, fromScratch bool) string {
	for _, t := range ts {
		if t.Op != "fieldset" || len(t.Args) != 1 {
			return joinTerms(ts)
		}
	}
	last := map[string]string{}
	var names []string
	for _, t := range ts {
		if _, ok := last[t.Name]; !ok {
			names = append(names, t.Name)
		}
		last[t.Name] = t.Args[0].String()
	}
	sort.Strings(names)
	var ss []string
	for _, n := range names {
		v := last[n]
		if fromScratch && (v == "false" || v == "0" || v == `""` || v == "nil") {
			continue
		}
		ss = append(ss, n+"="+v)
	}
	return strings.Join(ss, ", ")
}

func joinTerms(ts []*Term) string {
	ss := make([]string, len(ts))
	for i, t := range ts {
		ss[i] = t.String()
	}
	return strings.Join(ss, ", ")
}

// Walk visits t and all its sub-terms.
func (t *Term) Walk(f func(*Term) bool) {
	if t == nil || !f(t) {
		return
	}
	for _, a := range t.Args {
		a.Walk(f)
	}
}

// Has reports whether any sub-term satisfies pred.
func (t *Term) Has(pred func(*Term) bool) bool {
	found := false
	t.Walk(func(s *Term) bool {
		if found {
			return false
		}
		if pred(s) {
			found = true
			return false
		}
		return true
	})
	return found
}

// HasCall reports whether the term contains a call/invoke whose resolved name has the given suffix.
func (t *Term) HasCall(nameSuffix string) bool {
	return t.Has(func(s *Term) bool {
		return (s.Op == "call" || s.Op == "invoke") && strings.HasSuffix(s.Name, nameSuffix)
	})
}

// FindCall returns the first sub-term that is a call/invoke with the given name suffix.
func (t *Term) FindCall(nameSuffix string) *Term {
	var r *Term
	t.Walk(func(s *Term) bool {
		if r != nil {
			return false
		}
		if (s.Op == "call" || s.Op == "invoke") && strings.HasSuffix(s.Name, nameSuffix) {
			r = s
			return false
		}
		return true
	})
	return r
}

// Subst replaces parameter leaves by the given terms (used by validator inlining).
func (t *Term) Subst(m map[string]*Term) *Term {
	if t == nil {
		return nil
	}
	if t.Op == "param" {
		if r, ok := m[t.Name]; ok {
			return r
		}
		return t
	}
	if len(t.Args) == 0 {
		return t
	}
	n := *t
	n.Args = make([]*Term, len(t.Args))
	for i, a := range t.Args {
		n.Args[i] = a.Subst(m)
	}
	return &n
}

type termBuilder struct {
	P     *Prog
	depth int
	stack map[ssa.Value]bool
}

// TermAt renders value v as seen by instruction at (at selects reaching stores for loads).
func (P *Prog) TermAt(v ssa.Value, at ssa.Instruction) *Term {
	tb := &termBuilder{P: P, stack: map[ssa.Value]bool{}}
	return tb.term(v, at)
}

// typeStr prints a type with aliases resolved and the module prefix stripped.
func typeStr(t types.Type) string {
	return short(types.TypeString(types.Unalias(t), nil))
}

// funcAliases maps package-level function variables that are assigned exactly
// once (in their package initialiser) to the function they alias
// (x/auth/alias.go style: var StdSignBytes = types.StdSignBytes).
var funcAliases map[*ssa.Global]*ssa.Function

func (P *Prog) buildFuncAliases() {
	// keyed by the Global of its own program: entries of several loaded programs (thorough tier) coexist
	if funcAliases == nil {
		funcAliases = map[*ssa.Global]*ssa.Function{}
	}
	stores := map[*ssa.Global][]*ssa.Store{}
	for _, fn := range P.RepoFns {
		InstrsRaw(fn, func(in ssa.Instruction) {
			if st, ok := in.(*ssa.Store); ok {
				if g, ok := st.Addr.(*ssa.Global); ok {
					if _, isSig := g.Type().(*types.Pointer).Elem().Underlying().(*types.Signature); isSig {
						stores[g] = append(stores[g], st)
					}
				}
			}
		})
	}
	for g, ss := range stores {
		if len(ss) != 1 || ss[0].Parent().Name() != "init" {
			continue
		}
		v := ss[0].Val
		if ct, ok := v.(*ssa.ChangeType); ok {
			v = ct.X
		}
		if f, ok := v.(*ssa.Function); ok {
			funcAliases[g] = f
		}
	}
}

// aliasedCallee resolves a call through an aliased package-level func variable.
func aliasedCallee(c *ssa.CallCommon) *ssa.Function {
	if c.IsInvoke() {
		return nil
	}
	if u, ok := c.Value.(*ssa.UnOp); ok && u.Op == token.MUL {
		if g, ok := u.X.(*ssa.Global); ok {
			return funcAliases[g]
		}
	}
	return nil
}

// staticCallee = StaticCallee or the aliased function.
func staticCallee(c *ssa.CallCommon) *ssa.Function {
	if f := c.StaticCallee(); f != nil {
		return f
	}
	return aliasedCallee(c)
}

func calleeName(c *ssa.CallCommon) (op, name string) {
	if c.IsInvoke() {
		recv := c.Value.Type()
		return "invoke", typeStr(recv) + "." + c.Method.Name()
	}
	if f := staticCallee(c); f != nil {
		return "call", short(f.String())
	}
	if b, ok := c.Value.(*ssa.Builtin); ok {
		return "builtin", b.Name()
	}
	return "dyncall", ""
}

const maxTermDepth = 24

func (tb *termBuilder) term(v ssa.Value, at ssa.Instruction) *Term {
	if v == nil {
		return &Term{Op: "other", Name: "nil"}
	}
	if tb.stack[v] {
		return &Term{Op: "loop", Name: v.Name(), V: v}
	}
	if tb.depth > maxTermDepth {
		return &Term{Op: "other", Name: "deep:" + v.Name(), V: v}
	}
	tb.stack[v] = true
	tb.depth++
	defer func() { delete(tb.stack, v); tb.depth-- }()

	switch x := v.(type) {
	case *ssa.Const:
		if x.Value == nil {
			if types.IsInterface(x.Type()) || isPointerLike(x.Type()) {
				return &Term{Op: "const", Name: "nil", V: v}
			}
			return &Term{Op: "const", Name: "zero:" + typeStr(x.Type()), V: v}
		}
		return &Term{Op: "const", Name: x.Value.ExactString(), V: v}
	case *ssa.Parameter:
		// a parameter of a helper introduced by a refactoring (absent from the pinned tree) that has exactly one
		// call site is the argument passed there: statements moved into such a helper keep their terms
		if site := helperSite(x.Parent()); site != nil && tb.depth < maxTermDepth-4 {
			for i, p := range x.Parent().Params {
				if p == x && i < len(site.Call.Args) {
					inner := &termBuilder{P: tb.P, stack: map[ssa.Value]bool{}, depth: tb.depth + 1}
					return inner.term(site.Call.Args[i], site)
				}
			}
		}
		return &Term{Op: "param", Name: pinnedParamName(x), V: v}
	case *ssa.FreeVar:
		return &Term{Op: "free", Name: pinnedFreeVarName(x), V: v}
	case *ssa.Global:
		return &Term{Op: "global", Name: short(x.Pkg.Pkg.Path()) + "." + x.Name(), V: v}
	case *ssa.Function:
		return &Term{Op: "func", Name: short(x.String()), V: v}
	case *ssa.Builtin:
		return &Term{Op: "func", Name: x.Name(), V: v}
	case *ssa.MakeClosure:
		return &Term{Op: "closure", Name: short(x.Fn.String()), V: v, In: x}
	case *ssa.Call:
		if t := tb.inlineNewHelper(x, 0, false); t != nil {
			return t
		}
		return tb.callTerm(&x.Call, x, x)
	case *ssa.Extract:
		if c, ok := x.Tuple.(*ssa.Call); ok {
			if t := tb.inlineNewHelper(c, x.Index, true); t != nil {
				return t
			}
		}
		if ta, ok := x.Tuple.(*ssa.TypeAssert); ok && ta.CommaOk && x.Index == 0 {
			// v, ok := x.(T) / switch v := x.(type): the value is the same x.(T) as in a plain assertion
			return &Term{Op: "typeassert", Name: typeStr(ta.AssertedType), Args: []*Term{tb.term(ta.X, ta)}, V: v, In: x}
		}
		return &Term{Op: "extract", Name: fmt.Sprint(x.Index), Args: []*Term{tb.term(x.Tuple, x)}, V: v, In: x}
	case *ssa.ChangeType:
		return tb.term(x.X, x)
	case *ssa.Convert:
		return tb.term(x.X, x)
	case *ssa.MultiConvert:
		return tb.term(x.X, x)
	case *ssa.ChangeInterface:
		return tb.term(x.X, x)
	case *ssa.MakeInterface:
		return tb.term(x.X, x)
	case *ssa.SliceToArrayPointer:
		return tb.term(x.X, x)
	case *ssa.TypeAssert:
		return &Term{Op: "typeassert", Name: typeStr(x.AssertedType), Args: []*Term{tb.term(x.X, x)}, V: v, In: x}
	case *ssa.BinOp:
		// one spelling per order comparison: a > b is b < a, a >= b is b <= a; and per test of a three-way comparison:
		// Cmp(a,b) == 1 is Cmp(b,a) == -1, 0 < Cmp(a,b) is Cmp(b,a) < 0, 0 <= Cmp(a,b) is Cmp(b,a) <= 0
		op, l, r := x.Op.String(), tb.term(x.X, x), tb.term(x.Y, x)
		switch x.Op {
		case token.GTR:
			op, l, r = "<", r, l
		case token.GEQ:
			op, l, r = "<=", r, l
		}
		// arithmetic on integer literals is the literal (a named constant is folded by the compiler, a local holding
		// the same number is not)
		if l.Op == "const" && r.Op == "const" {
			if a, err1 := strconv.ParseInt(l.Name, 10, 64); err1 == nil {
				if b, err2 := strconv.ParseInt(r.Name, 10, 64); err2 == nil && a > -1<<31 && a < 1<<31 && b > -1<<31 && b < 1<<31 {
					switch op {
					case "+":
						return &Term{Op: "const", Name: strconv.FormatInt(a+b, 10), V: v, In: x}
					case "-":
						return &Term{Op: "const", Name: strconv.FormatInt(a-b, 10), V: v, In: x}
					case "*":
						return &Term{Op: "const", Name: strconv.FormatInt(a*b, 10), V: v, In: x}
					}
				}
			}
		}
		switch op {
		case "==", "!=":
			if isCmpCall(l) && r.Op == "const" && r.Name == "1" {
				l, r = swapCmp(l), constTerm("-1")
			} else if isCmpCall(r) && l.Op == "const" && l.Name == "1" {
				l, r = constTerm("-1"), swapCmp(r)
			}
		case "<", "<=":
			if isCmpCall(r) && l.Op == "const" && l.Name == "0" {
				l, r = swapCmp(r), constTerm("0")
			}
		}
		return &Term{Op: "binop", Name: op, Args: []*Term{l, r}, V: v, In: x}
	case *ssa.UnOp:
		if x.Op == token.MUL {
			return tb.load(x.X, x)
		}
		return &Term{Op: "unop", Name: x.Op.String(), Args: []*Term{tb.term(x.X, x)}, V: v, In: x}
	case *ssa.Phi:
		var args []*Term
		seen := map[string]bool{}
		for _, e := range x.Edges {
			t := tb.term(e, x)
			s := t.String()
			if !seen[s] {
				seen[s] = true
				args = append(args, t)
			}
		}
		if len(args) == 1 {
			return args[0]
		}
		sort.Slice(args, func(i, j int) bool { return args[i].String() < args[j].String() })
		return &Term{Op: "phi", Args: args, V: v, In: x}
	case *ssa.Field:
		st := deref(x.X.Type()).Underlying().(*types.Struct)
		return &Term{Op: "field", Name: st.Field(x.Field).Name(), Args: []*Term{tb.term(x.X, x)}, V: v, In: x}
	case *ssa.FieldAddr:
		// address of a field used as a value
		st := deref(x.X.Type()).Underlying().(*types.Struct)
		return &Term{Op: "unop", Name: "&", Args: []*Term{{Op: "field", Name: st.Field(x.Field).Name(), Args: []*Term{tb.addrBase(x.X, x)}}}, V: v, In: x}
	case *ssa.IndexAddr:
		return &Term{Op: "unop", Name: "&", Args: []*Term{{Op: "index", Args: []*Term{tb.addrBase(x.X, x), tb.term(x.Index, x)}}}, V: v, In: x}
	case *ssa.Index:
		return &Term{Op: "index", Args: []*Term{tb.term(x.X, x), tb.term(x.Index, x)}, V: v, In: x}
	case *ssa.Lookup:
		return &Term{Op: "index", Args: []*Term{tb.term(x.X, x), tb.term(x.Index, x)}, V: v, In: x}
	case *ssa.Slice:
		if al, ok := x.X.(*ssa.Alloc); ok && (al.Comment == "varargs" || al.Comment == "slicelit") {
			// variadic argument list: render the elements
			elems := map[int64]*Term{}
			var max int64 = -1
			for _, ref := range *al.Referrers() {
				ia, ok := ref.(*ssa.IndexAddr)
				if !ok {
					continue
				}
				c, ok := ia.Index.(*ssa.Const)
				if !ok || ia.Referrers() == nil {
					continue
				}
				for _, r2 := range *ia.Referrers() {
					if st, ok := r2.(*ssa.Store); ok && st.Addr == ssa.Value(ia) {
						elems[c.Int64()] = tb.term(st.Val, st)
						if c.Int64() > max {
							max = c.Int64()
						}
					}
				}
			}
			t := &Term{Op: "builtin", Name: "list", V: v, In: x}
			for i := int64(0); i <= max; i++ {
				if e, ok := elems[i]; ok {
					t.Args = append(t.Args, e)
				} else {
					t.Args = append(t.Args, &Term{Op: "const", Name: "_"})
				}
			}
			return t
		}
		args := []*Term{tb.term(x.X, x)}
		for _, b := range []ssa.Value{x.Low, x.High, x.Max} {
			if b != nil {
				args = append(args, tb.term(b, x))
			} else {
				args = append(args, &Term{Op: "const", Name: "_"})
			}
		}
		return &Term{Op: "slice", Args: args, V: v, In: x}
	case *ssa.Alloc:
		name := allocName(x)
		if x.Comment == "complit" && at != nil && at != ssa.Instruction(x) {
			// pointer to a composite literal: show what it points to at the point of use
			inner := tb.loadLocal(x, nil, at)
			return &Term{Op: "unop", Name: "&", Args: []*Term{inner}, V: v, In: x}
		}
		return &Term{Op: "addr", Name: name, V: v, In: x}
	case *ssa.MakeMap:
		return &Term{Op: "other", Name: "makemap", V: v, In: x}
	case *ssa.MakeSlice:
		lt := tb.term(x.Len, x)
		if lt.Op == "const" {
			// make([]T, <constant>): the same spelling as the array-backed form the compiler uses for a literal size
			u := &Term{Op: "const", Name: "_"}
			return &Term{Op: "slice", Args: []*Term{{Op: "addr", Name: "makeslice"}, u, lt, u}, V: v, In: x}
		}
		return &Term{Op: "builtin", Name: "makeslice", Args: []*Term{lt}, V: v, In: x}
	case *ssa.MakeChan:
		return &Term{Op: "other", Name: "makechan", V: v, In: x}
	case *ssa.Range:
		return &Term{Op: "builtin", Name: "range", Args: []*Term{tb.term(x.X, x)}, V: v, In: x}
	case *ssa.Next:
		return &Term{Op: "builtin", Name: "next", Args: []*Term{tb.term(x.Iter, x)}, V: v, In: x}
	}
	return &Term{Op: "other", Name: fmt.Sprintf("%T", v), V: v}
}

func isPointerLike(t types.Type) bool {
	switch t.Underlying().(type) {
	case *types.Pointer, *types.Slice, *types.Map, *types.Chan, *types.Signature, *types.Interface:
		return true
	}
	return false
}

func deref(t types.Type) types.Type {
	if p, ok := t.Underlying().(*types.Pointer); ok {
		return p.Elem()
	}
	return t
}

func (tb *termBuilder) callTerm(c *ssa.CallCommon, v ssa.Value, in ssa.Instruction) *Term {
	op, name := calleeName(c)
	if op == "invoke" {
		// a method invoked on an interface-typed parameter of a helper introduced by a refactoring, where the call
		// site passes a value of a concrete type, is that type's method — as it was before the statements moved
		if m := tb.devirtualised(c); m != nil {
			op, name = "call", short(m.String())
		}
	}
	t := &Term{Op: op, Name: name, V: v, In: in}
	if op == "invoke" || op == "call" && c.IsInvoke() {
		t.Args = append(t.Args, tb.term(c.Value, in))
	}
	if op == "dyncall" {
		t.Args = append(t.Args, tb.term(c.Value, in))
	}
	for _, a := range c.Args {
		t.Args = append(t.Args, tb.term(a, in))
	}
	if op == "call" {
		if it := tb.inlineTrivial(c, t); it != nil {
			return it
		}
	}
	if op == "builtin" && name == "len" && len(t.Args) == 1 {
		// len(make([]T, N)) is N
		if a := t.Args[0]; a.Op == "slice" && len(a.Args) == 4 && a.Args[0].Op == "addr" && a.Args[0].Name == "makeslice" && a.Args[1].Name == "_" && a.Args[2].Op == "const" && a.Args[2].Name != "_" {
			return &Term{Op: "const", Name: a.Args[2].Name, V: v, In: in}
		}
	}
	return canonMustCodec(canonOrderCall(t))
}

func (tb *termBuilder) devirtualised(c *ssa.CallCommon) *ssa.Function {
	v := c.Value
	for i := 0; i < 4; i++ {
		switch x := v.(type) {
		case *ssa.ChangeInterface:
			v = x.X
			continue
		case *ssa.Parameter:
			site := helperSite(x.Parent())
			if site == nil {
				return nil
			}
			var arg ssa.Value
			for k, p := range x.Parent().Params {
				if p == x && k < len(site.Call.Args) {
					arg = site.Call.Args[k]
				}
			}
			if arg == nil {
				return nil
			}
			v = arg
			if mi, ok := v.(*ssa.MakeInterface); ok {
				if types.IsInterface(mi.X.Type()) {
					return nil
				}
				return tb.P.SSA.LookupMethod(mi.X.Type(), c.Method.Pkg(), c.Method.Name())
			}
			continue
		}
		return nil
	}
	return nil
}

// inlineTrivial: a call to a field getter (`func (v T) GetX() X { return v.X }`) is the field, and a call to a pure
// forwarder (`func cpIncr(bz []byte) []byte { return PrefixEndBytes(bz) }`) is the call it forwards to: one spelling
// whether the trivial function is called or written out. Only single-block repo functions whose single result is a
// field path of a parameter, or one call whose arguments are bare parameters; their bodies are pinned by RT1.
var trivialCache = map[*ssa.Function]*Term{}

func (tb *termBuilder) trivialBody(f *ssa.Function) *Term {
	if t, ok := trivialCache[f]; ok {
		return t
	}
	trivialCache[f] = nil
	if f == nil || len(f.Blocks) != 1 || f.Synthetic != "" || f.Parent() != nil || !tb.P.IsRepoFn(f) || f.Signature.Results().Len() != 1 {
		return nil
	}
	var ret *ssa.Return
	for _, in := range f.Blocks[0].Instrs {
		switch x := in.(type) {
		case *ssa.Return:
			ret = x
		case *ssa.Call:
			if x.Referrers() == nil || len(*x.Referrers()) == 0 {
				return nil // a call for effect
			}
		case *ssa.Store:
			if _, isAlloc := x.Addr.(*ssa.Alloc); !isAlloc {
				return nil // writes something
			}
		case *ssa.Defer, *ssa.Go, *ssa.Panic, *ssa.MapUpdate, *ssa.Send:
			return nil
		}
	}
	if ret == nil || len(ret.Results) != 1 {
		return nil
	}
	sub := &termBuilder{P: tb.P, stack: map[ssa.Value]bool{}, depth: tb.depth + 1}
	body := sub.term(ret.Results[0], ret)
	ok := false
	switch body.Op {
	case "field":
		b := body
		for b.Op == "field" && len(b.Args) == 1 {
			b = b.Args[0]
		}
		ok = b.Op == "param"
	case "call", "invoke":
		// forwarders: only unexported ones (an exported forwarder is API, nobody writes it out)
		ok = body.Name != "isnil" && len(body.Args) > 0 && !ast.IsExported(f.Name())
		for _, a := range body.Args {
			if a.Op != "param" {
				ok = false
			}
		}
	}
	if !ok {
		return nil
	}
	trivialCache[f] = body
	return body
}

func (tb *termBuilder) inlineTrivial(c *ssa.CallCommon, t *Term) *Term {
	if tb.depth > maxTermDepth-2 {
		return nil
	}
	f := staticCallee(c)
	if f == nil || len(f.Params) != len(t.Args) {
		return nil
	}
	body := tb.trivialBody(f)
	if body == nil {
		return nil
	}
	m := map[string]*Term{}
	for i, p := range f.Params {
		m[pinnedParamName(p)] = t.Args[i]
	}
	r := body.Subst(m)
	n := *r
	n.V, n.In = t.V, t.In
	if n.Op == "call" {
		return canonMustCodec(canonOrderCall(&n))
	}
	return &n
}

// canonMustCodec: amino's MustMarshalX(v) is MarshalX(v) with the error turned into a panic: one spelling for the bytes.
func canonMustCodec(t *Term) *Term {
	const pfx = "(*github.com/tendermint/go-amino.Codec).Must"
	if t.Op == "call" && strings.HasPrefix(t.Name, pfx+"Unmarshal") {
		n := *t
		n.Name = "(*github.com/tendermint/go-amino.Codec)." + strings.TrimPrefix(t.Name, pfx)
		return &n
	}
	if t.Op != "call" || !strings.HasPrefix(t.Name, pfx+"Marshal") {
		return t
	}
	n := *t
	n.Name = "(*github.com/tendermint/go-amino.Codec)." + strings.TrimPrefix(t.Name, pfx)
	return &Term{Op: "extract", Name: "0", Args: []*Term{&n}, V: t.V, In: t.In}
}

// canonOrderCall gives the four order methods of the repo's number types one spelling: GT(a,b) is LT(b,a),
// GTE(a,b) is !LT(a,b), LTE(a,b) is !LT(b,a). (Their bodies are themselves pinned: C18 rules and RT1.)
func canonOrderCall(t *Term) *Term {
	if t.Op != "call" || len(t.Args) != 2 {
		return t
	}
	var typ, m string
	for _, ty := range []string{"(types.Int).", "(types.Dec).", "(types.Uint)."} {
		if strings.HasPrefix(t.Name, ty) {
			typ, m = ty, strings.TrimPrefix(t.Name, ty)
		}
	}
	lt := func(a, b *Term) *Term {
		return &Term{Op: "call", Name: typ + "LT", Args: []*Term{a, b}, V: t.V, In: t.In}
	}
	not := func(x *Term) *Term { return &Term{Op: "unop", Name: "!", Args: []*Term{x}, V: t.V, In: t.In} }
	switch m {
	case "GT":
		return lt(t.Args[1], t.Args[0])
	case "GTE":
		return not(lt(t.Args[0], t.Args[1]))
	case "LTE":
		return not(lt(t.Args[1], t.Args[0]))
	}
	return t
}

// addrBase renders the object an address designates (for &x.f / &a[i] forms).
func (tb *termBuilder) addrBase(addr ssa.Value, at ssa.Instruction) *Term {
	switch a := addr.(type) {
	case *ssa.Alloc:
		name := allocName(a)
		return &Term{Op: "addr", Name: name, V: a}
	case *ssa.FieldAddr:
		st := deref(a.X.Type()).Underlying().(*types.Struct)
		return &Term{Op: "field", Name: st.Field(a.Field).Name(), Args: []*Term{tb.addrBase(a.X, at)}}
	}
	return tb.term(addr, at)
}

// addrPath decomposes an address into a root value and a field path.
func addrPath(addr ssa.Value) (root ssa.Value, path []int) {
	for {
		switch a := addr.(type) {
		case *ssa.FieldAddr:
			path = append([]int{a.Field}, path...)
			addr = a.X
			continue
		}
		return addr, path
	}
}

func pathRelated(a, b []int) bool { // one is a prefix of the other
	n := len(a)
	if len(b) < n {
		n = len(b)
	}
	for i := 0; i < n; i++ {
		if a[i] != b[i] {
			return false
		}
	}
	return true
}

func pathEq(a, b []int) bool {
	if len(a) != len(b) {
		return false
	}
	return pathRelated(a, b)
}

// load renders *addr as seen at instruction at.
func (tb *termBuilder) load(addr ssa.Value, at ssa.Instruction) *Term {
	root, path := addrPath(addr)
	switch r := root.(type) {
	case *ssa.Alloc:
		return tb.loadLocal(r, path, at)
	case *ssa.Global:
		t := &Term{Op: "global", Name: short(r.Pkg.Pkg.Path()) + "." + r.Name(), V: r}
		return tb.wrapFields(t, root.Type(), path)
	case *ssa.FreeVar:
		t := &Term{Op: "free", Name: r.Name(), V: r}
		return tb.wrapFields(t, root.Type(), path)
	case *ssa.IndexAddr:
		t := &Term{Op: "index", Args: []*Term{tb.loadOrTerm(r.X, at), tb.term(r.Index, at)}, V: r}
		return tb.wrapFields(t, root.Type(), path)
	default:
		// pointer value (parameter, call result, load of pointer): *p then fields
		if v := forwardedStore(root, path, at); v != nil && tb.depth < maxTermDepth-4 {
			return tb.term(v.Val, v)
		}
		t := tb.term(root, at)
		return tb.wrapFields(t, root.Type(), path)
	}
}

// forwardedStore: `p.f = v; return p.f` — a field of a pointed-to object read back right after it was assigned, in
// the same block and with nothing in between that could write memory (no call, no other store), is the value assigned.
func forwardedStore(root ssa.Value, path []int, at ssa.Instruction) *ssa.Store {
	if at == nil || at.Block() == nil || len(path) == 0 {
		return nil
	}
	instrs := at.Block().Instrs
	i := -1
	for k, in := range instrs {
		if in == at {
			i = k
		}
	}
	for k := i - 1; k >= 0; k-- {
		switch x := instrs[k].(type) {
		case *ssa.Store:
			r, p := addrPath(x.Addr)
			if r != root || len(p) != len(path) {
				return nil
			}
			for j := range p {
				if p[j] != path[j] {
					return nil
				}
			}
			return x
		case *ssa.FieldAddr, *ssa.IndexAddr, *ssa.UnOp, *ssa.BinOp, *ssa.Convert, *ssa.ChangeType, *ssa.MakeInterface, *ssa.Field, *ssa.Extract, *ssa.Phi, *ssa.Alloc, *ssa.DebugRef:
			continue
		default:
			return nil
		}
	}
	return nil
}

// loadOrTerm: for IndexAddr on an array held in an alloc, X is the address of the array.
func (tb *termBuilder) loadOrTerm(x ssa.Value, at ssa.Instruction) *Term {
	if _, ok := x.Type().Underlying().(*types.Pointer); ok {
		if _, isArr := deref(x.Type()).Underlying().(*types.Array); isArr {
			return tb.load(x, at)
		}
	}
	return tb.term(x, at)
}

func (tb *termBuilder) wrapFields(base *Term, rootType types.Type, path []int) *Term {
	t := base
	cur := deref(rootType)
	for _, f := range path {
		st, ok := cur.Underlying().(*types.Struct)
		if !ok {
			break
		}
		t = &Term{Op: "field", Name: st.Field(f).Name(), Args: []*Term{t}}
		cur = deref(st.Field(f).Type())
		if _, isPtr := st.Field(f).Type().Underlying().(*types.Pointer); isPtr {
			cur = st.Field(f).Type().Underlying().(*types.Pointer).Elem()
		}
	}
	return t
}

// def describes one definition that may reach a load of (alloc,path).
type def struct {
	in   ssa.Instruction
	kind string // store fieldstore clobber zero
	val  ssa.Value
	path []int
}

// defsIn lists, in order, the instructions of block b that define (alloc,path).
func defOf(in ssa.Instruction, alloc *ssa.Alloc, path []int) *def {
	switch s := in.(type) {
	case *ssa.Store:
		root, p := addrPath(s.Addr)
		if root == ssa.Value(alloc) && pathRelated(p, path) {
			k := "store"
			if len(p) > len(path) {
				k = "fieldstore" // partial update of the loaded object
			}
			return &def{in: in, kind: k, val: s.Val, path: p}
		}
	case *ssa.Call:
		if callClobbers(&s.Call, alloc, path) {
			return &def{in: in, kind: "clobber"}
		}
	case *ssa.Defer:
		if callClobbers(&s.Call, alloc, path) {
			return &def{in: in, kind: "clobber"}
		}
	case *ssa.Go:
		if callClobbers(&s.Call, alloc, path) {
			return &def{in: in, kind: "clobber"}
		}
	case *ssa.MakeClosure:
		for i, b := range s.Bindings {
			root, p := addrPath(b)
			if root == ssa.Value(alloc) && pathRelated(p, path) {
				if fn, ok := s.Fn.(*ssa.Function); ok && !closureWrites(fn, i, 0) {
					continue // captured for reading only
				}
				return &def{in: in, kind: "clobber"}
			}
		}
	}
	return nil
}

// closureWrites: does closure fn (or a closure it creates) store through its i-th free variable or hand it to a call?
func closureWrites(fn *ssa.Function, i int, depth int) bool {
	if i >= len(fn.FreeVars) || depth > 3 {
		return true
	}
	fv := fn.FreeVars[i]
	writes := false
	InstrsRaw(fn, func(in ssa.Instruction) {
		switch x := in.(type) {
		case *ssa.Store:
			if root, _ := addrPath(x.Addr); root == ssa.Value(fv) {
				writes = true
			}
		case ssa.CallInstruction:
			c := x.Common()
			for _, a := range c.Args {
				if root, _ := addrPath(a); root == ssa.Value(fv) {
					writes = true
				}
			}
		case *ssa.MakeClosure:
			for j, b := range x.Bindings {
				if root, _ := addrPath(b); root == ssa.Value(fv) {
					if g, ok := x.Fn.(*ssa.Function); ok && closureWrites(g, j, depth+1) {
						writes = true
					}
				}
			}
		}
	})
	return writes
}

func callClobbers(c *ssa.CallCommon, alloc *ssa.Alloc, path []int) bool {
	vals := append([]ssa.Value{}, c.Args...)
	if !c.IsInvoke() {
		vals = append(vals, c.Value)
	}
	for _, a := range vals {
		root, p := addrPath(a)
		if root == ssa.Value(alloc) && pathRelated(p, path) {
			return true
		}
		// slice of the local array handed to a call (copy(buf[:], x))
		if sl, ok := a.(*ssa.Slice); ok {
			root, p := addrPath(sl.X)
			if root == ssa.Value(alloc) && pathRelated(p, path) {
				return true
			}
		}
		// address boxed into an interface (e.g. &amount passed as interface{})
		if mi, ok := a.(*ssa.MakeInterface); ok {
			root, p := addrPath(mi.X)
			if root == ssa.Value(alloc) && pathRelated(p, path) {
				return true
			}
		}
	}
	return false
}

// reachingDefs walks the CFG backwards from at and returns the definitions of
// (alloc,path) that may be the most recent one on some path.
func reachingDefs(alloc *ssa.Alloc, path []int, at ssa.Instruction) []*def {
	var out []*def
	seenDef := map[ssa.Instruction]bool{}
	add := func(d *def) {
		if d.in == nil {
			for _, o := range out {
				if o.kind == "zero" {
					return
				}
			}
			out = append(out, d)
			return
		}
		if !seenDef[d.in] {
			seenDef[d.in] = true
			out = append(out, d)
		}
	}
	blk := at.Block()
	// scan at's block backwards from at
	idx := -1
	for i, in := range blk.Instrs {
		if in == at {
			idx = i
			break
		}
	}
	scan := func(b *ssa.BasicBlock, from int) bool { // returns true if a def was found
		for i := from; i >= 0; i-- {
			if d := defOf(b.Instrs[i], alloc, path); d != nil {
				add(d)
				return true
			}
			if b.Instrs[i] == ssa.Instruction(alloc) {
				add(&def{kind: "zero"})
				return true
			}
		}
		return false
	}
	if scan(blk, idx-1) {
		return out
	}
	visited := map[*ssa.BasicBlock]bool{}
	var walk func(b *ssa.BasicBlock)
	walk = func(b *ssa.BasicBlock) {
		if visited[b] {
			return
		}
		visited[b] = true
		if scan(b, len(b.Instrs)-1) {
			return
		}
		if len(b.Preds) == 0 {
			add(&def{kind: "zero"})
			return
		}
		for _, p := range b.Preds {
			walk(p)
		}
	}
	if len(blk.Preds) == 0 {
		add(&def{kind: "zero"})
	}
	for _, p := range blk.Preds {
		walk(p)
	}
	return out
}

// allocName: how a local memory cell is spelled in terms. Cells the compiler introduced keep their role name (new,
// complit, makeslice, slicelit, varargs); a cell that holds a source variable is named by its TYPE, not by the
// variable's name, so that renaming a local or a parameter changes no term.
func allocName(a *ssa.Alloc) string {
	switch a.Comment {
	case "new", "complit", "makeslice", "slicelit", "varargs", "makemap", "makechan", "range", "typeassert,ok", "select":
		return a.Comment
	case "":
		return a.Name()
	}
	return typeStr(deref(a.Type()))
}

func (tb *termBuilder) loadLocal(alloc *ssa.Alloc, path []int, at ssa.Instruction) *Term {
	name := allocName(alloc)
	defs := reachingDefs(alloc, path, at)
	var alts []*Term
	seen := map[string]bool{}
	for _, d := range defs {
		var t *Term
		switch d.kind {
		case "zero":
			if alloc.Comment == "complit" {
				t = &Term{Op: "complit", Name: typeStr(deref(alloc.Type())), V: alloc}
			} else {
				t = &Term{Op: "zero", Name: name, V: alloc}
			}
			t = tb.wrapFields(t, alloc.Type(), path)
		case "clobber":
			t = &Term{Op: "clobber", Name: name + "@" + tb.P.InstrPos(d.in), V: alloc, In: d.in}
			// keep the local's name visible: clobber of amount by MustUnmarshal is "out parameter"
			if c, ok := d.in.(*ssa.Call); ok {
				ct := tb.callTerm(&c.Call, c, c)
				t = &Term{Op: "clobber", Name: name, Args: []*Term{ct}, V: alloc, In: d.in}
			}
			t = tb.wrapFields(t, alloc.Type(), path)
		case "store":
			// the store covers the loaded path: value then remaining fields
			t = tb.term(d.val, d.in)
			if len(path) > len(d.path) {
				// stored a struct, loading a field of it
				var cur types.Type = d.val.Type()
				for _, f := range path[len(d.path):] {
					st, ok := deref(cur).Underlying().(*types.Struct)
					if !ok {
						break
					}
					t = &Term{Op: "field", Name: st.Field(f).Name(), Args: []*Term{t}}
					cur = st.Field(f).Type()
				}
			}
		case "fieldstore":
			// whole object loaded after a partial update: describe as local with update marker
			inner := tb.loadLocalBefore(alloc, path, d.in)
			st := fieldNameAt(alloc.Type(), d.path)
			t = &Term{Op: "upd", Args: []*Term{inner, {Op: "fieldset", Name: st, Args: []*Term{tb.term(d.val, d.in)}}}, V: alloc}
			if inner.Op == "complit" {
				// composite literal being filled in
				t = &Term{Op: "complit", Name: inner.Name, Args: append(append([]*Term{}, inner.Args...), &Term{Op: "fieldset", Name: st, Args: []*Term{tb.term(d.val, d.in)}}), V: alloc}
			}
		}
		s := t.String()
		if !seen[s] {
			seen[s] = true
			alts = append(alts, t)
		}
	}
	if len(alts) == 1 {
		return alts[0]
	}
	if len(alts) == 0 {
		return &Term{Op: "zero", Name: name, V: alloc}
	}
	sort.Slice(alts, func(i, j int) bool { return alts[i].String() < alts[j].String() })
	return &Term{Op: "phi", Args: alts, V: alloc}
}

func (tb *termBuilder) loadLocalBefore(alloc *ssa.Alloc, path []int, before ssa.Instruction) *Term {
	if tb.depth > maxTermDepth {
		return &Term{Op: "other", Name: "deep"}
	}
	tb.depth++
	defer func() { tb.depth-- }()
	return tb.loadLocal(alloc, path, before)
}

func fieldNameAt(t types.Type, path []int) string {
	cur := deref(t)
	var names []string
	for _, f := range path {
		st, ok := cur.Underlying().(*types.Struct)
		if !ok {
			break
		}
		names = append(names, st.Field(f).Name())
		cur = deref(st.Field(f).Type())
	}
	return strings.Join(names, ".")
}

// ---------------------------------------------------------------------------
// pinned parameter names: rules are written against the parameter names of the pinned tree. A parameter is
// rendered by the name it had at its POSITION in the pinned tree, so renaming a parameter (a behaviour-preserving
// edit) does not change any term; adding/removing/reordering parameters does (that changes the function's contract).

//go:embed pinned_params.json
var pinnedParamsJSON []byte

var pinnedParams map[string][]string

func loadPinned() {
	if pinnedParams != nil {
		return
	}
	pinnedParams = map[string][]string{}
	_ = json.Unmarshal(pinnedParamsJSON, &pinnedParams)
}

func pinnedParamName(p *ssa.Parameter) string {
	loadPinned()
	fn := p.Parent()
	if fn == nil {
		return p.Name()
	}
	names, ok := pinnedParams[short(fn.String())]
	if !ok {
		return p.Name()
	}
	for i, q := range fn.Params {
		if q == p {
			if i < len(names) && len(names) == len(fn.Params) {
				return names[i]
			}
		}
	}
	return p.Name()
}

func pinnedFreeVarName(v *ssa.FreeVar) string {
	loadPinned()
	fn := v.Parent()
	if fn == nil {
		return v.Name()
	}
	names, ok := pinnedParams["free|"+short(fn.String())]
	if !ok {
		return v.Name()
	}
	for i, q := range fn.FreeVars {
		if q == v {
			if i < len(names) && len(names) == len(fn.FreeVars) {
				return names[i]
			}
		}
	}
	return v.Name()
}

// inlineNewHelper: a call to a repo function that did not exist in the pinned tree (a helper introduced by a
// refactoring), with a single return and a small body, is rendered as its return expression with the arguments
// substituted — so extracting a computation into a helper leaves every term unchanged. Functions of the pinned
// tree are never inlined (the rule tables name them).
func (tb *termBuilder) inlineNewHelper(c *ssa.Call, idx int, tuple bool) *Term {
	callee := staticCallee(&c.Call)
	if callee == nil || len(callee.Blocks) == 0 || len(callee.Blocks) > 10 || !tb.P.IsRepoFn(callee) {
		return nil
	}
	loadPinned()
	if len(pinnedParams) == 0 {
		return nil
	}
	if _, known := pinnedParams[short(callee.String())]; known {
		return nil
	}
	if callee.Synthetic != "" {
		return nil
	}
	rets := Returns(callee)
	if len(rets) > 1 && tuple {
		// (value, err) helper: under the caller's success test the value is the one of the only success return
		if ei, _ := errIndex(callee.Signature); ei >= 0 && ei != idx {
			var succ []*ssa.Return
			for _, rt := range rets {
				if c, _ := tb.P.retClass(rt, ei); c == "nil" {
					succ = append(succ, rt)
				} else if c != "nonnil" {
					succ = append(succ, nil)
				}
			}
			known := len(succ) > 0
			for _, rt := range succ {
				if rt == nil {
					known = false
				}
			}
			if known {
				rets = succ
			}
		}
	}
	if len(rets) == 0 || len(rets) > 6 || idx >= len(rets[0].Results) {
		return nil
	}
	if len(rets) > 1 {
		// an error or a verdict with several returns stays a call: the guards that test it are expanded into the
		// helper's success condition instead (guard.go)
		if ei, _ := errIndex(callee.Signature); ei == idx {
			return nil
		}
		if bt, ok := callee.Signature.Results().At(idx).Type().Underlying().(*types.Basic); ok && bt.Kind() == types.Bool {
			return nil
		}
	}
	if !tuple && len(rets[0].Results) != 1 {
		return nil
	}
	if tb.depth > maxTermDepth-4 {
		return nil
	}
	m := map[string]*Term{}
	for i, p := range callee.Params {
		if i < len(c.Call.Args) {
			m[pinnedParamName(p)] = tb.term(c.Call.Args[i], c)
		}
	}
	// the helper's parameters mean the arguments of THIS call while its return expression is rendered
	prev, had := helperCtx[callee]
	setHelperCtx(callee, c)
	// several returns (`if h == 0 { return latest }; return h`): the value is one of them, as the phi of the
	// written-out if statement is
	var alts []*Term
	seen := map[string]bool{}
	for _, rt := range rets {
		inner := &termBuilder{P: tb.P, stack: map[ssa.Value]bool{}, depth: tb.depth + 1}
		a := inner.term(rt.Results[idx], rt).Subst(m)
		if k := a.String(); !seen[k] {
			seen[k] = true
			alts = append(alts, a)
		}
	}
	t := alts[0]
	if len(alts) > 1 {
		sort.Slice(alts, func(i, j int) bool { return alts[i].String() < alts[j].String() })
		t = &Term{Op: "phi", Args: alts, V: c, In: c}
	}
	if had {
		helperCtx[callee] = prev
	} else {
		delete(helperCtx, callee)
	}
	return t
}
