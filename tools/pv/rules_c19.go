package main

import (
	"fmt"
	"strings"

	"golang.org/x/tools/go/ssa"
)

func init() { register("C19", checkC19) }

const (
	kbS     = "(crypto/keys.dbKeybase)."
	decrypt = "crypto/keys/mintkey.UnarmorDecryptPrivKey("
)

func checkC19(r *Run) {
	P := r.P
	passphraseKDF(r, "C19-R5")
	r.NotDecided("cryptographic binding of signatures to key and message (ed25519/secp256k1 libraries) and of the armor encryption (bcrypt/xsalsa20)")
	r.NotDecided("export/import round-trip equality (value-level; decided: what is written is the decrypted key re-encrypted, under its own address, never over an existing one)")

	// ------------------------------------------------------------------ R1
	r.Rule("C19-R1", "passphrase before effect: Delete removes the entry only after Get succeeded and the stored armor decrypted with the given passphrase; Update re-encrypts the key it decrypted with the OLD passphrase; Sign / ExportPrivateKeyObject use the key only after decryption succeeded; ImportPrivKey / ImportPrivateKeyObject write only if decryption succeeded and no key exists at that address", 14)
	getKP := kbS + "Get(param:kb, param:address)"
	if f := r.fn(kbS + "Delete"); f != nil {
		if c := r.oneCall("C19-R1", "Delete", f, "github.com/tendermint/tm-db.DB.DeleteSync"); c != nil {
			r.requireAtoms("C19-R1", "Delete/removal", c, P.Guards(c, 0), []req{
				{"key-exists", `^isnil\(` + q(getKP+"#1") + `\)$`},
				{"passphrase-decrypts", `^isnil\(` + q(decrypt+getKP+"#0.PrivKeyArmor, param:passphrase)#1") + `\)$`},
			})
			t := P.callTerm(c).String()
			r.Check(strings.Contains(t, "crypto/keys.addrKey((crypto/keys.KeyPair).GetAddress("+getKP+"#0))") || strings.Contains(t, "crypto/keys.addrKey(param:address)"), "C19-R1", "Delete/removes-that-key", P.InstrPos(c), t, "Delete removes "+t)
		}
	}
	if f := r.fn(kbS + "Update"); f != nil {
		if c := r.oneCall("C19-R1", "Update", f, kbS+"writeLocalKeyPair"); c != nil {
			dec := decrypt + getKP + "#0.PrivKeyArmor, param:oldpass)"
			r.requireAtoms("C19-R1", "Update/rewrite", c, P.Guards(c, 0), []req{
				{"key-exists", `^isnil\(` + q(getKP+"#1") + `\)$`},
				{"old-passphrase-decrypts", `^isnil\(` + q(dec+"#1") + `\)$`},
			})
			t := P.callTerm(c)
			r.Check(argTerm(t, 1).String() == dec+"#0" && argTerm(t, 2).String() == "param:newpass", "C19-R1", "Update/re-encrypts-decrypted-key-with-new-pass", P.InstrPos(c), t.String(), "Update writes "+t.String()+" ; required the key decrypted with oldpass, encrypted with newpass")
		}
	}
	for _, w := range []struct{ fn, use string }{{"Sign", "crypto.PrivateKey.Sign"}} {
		if f := r.fn(kbS + w.fn); f != nil {
			if c := r.oneCall("C19-R1", w.fn, f, w.use); c != nil {
				dec := decrypt + getKP + "#0.PrivKeyArmor, param:passphrase)"
				r.requireAtoms("C19-R1", w.fn+"/use", c, P.Guards(c, 0), []req{
					{"key-exists", `^isnil\(` + q(getKP+"#1") + `\)$`},
					{"passphrase-decrypts", `^isnil\(` + q(dec+"#1") + `\)$`},
				})
				t := P.callTerm(c)
				r.Check(argTerm(t, 0).String() == dec+"#0" && argTerm(t, 1).String() == "param:msg", "C19-R1", w.fn+"/signs-msg-with-decrypted-key", P.InstrPos(c), t.String(), "Sign is "+t.String())
			}
			for i, ret := range P.successReturns(f, 2, "nil") {
				pk := P.TermAt(ret.Results[1], ret).String()
				r.Check(strings.HasPrefix(pk, "crypto.PrivateKey.PublicKey("+decrypt), "C19-R1", fmt.Sprintf("Sign/returns-signer-pubkey#%d", i), P.InstrPos(ret), pk, "Sign returns public key "+pk)
			}
		}
	}
	if f := r.fn(kbS + "ExportPrivateKeyObject"); f != nil {
		for i, ret := range P.successReturns(f, 1, "nil") {
			t := P.TermAt(ret.Results[0], ret).String()
			dec := decrypt + getKP + "#0.PrivKeyArmor, param:passphrase)"
			if t == "nil" {
				continue
			}
			r.Check(t == dec+"#0", "C19-R1", fmt.Sprintf("ExportPrivateKeyObject/returns-decrypted#%d", i), P.InstrPos(ret), t, "exports "+t)
		}
	}
	for _, w := range []struct{ fn, keyTerm, existRe string }{
		{"ImportPrivKey", decrypt + "param:armor, param:decryptPassphrase)#0", `^!isnil\(` + q(kbS+"Get(param:kb, ") + `.*\)#1\)$`},
		{"ImportPrivateKeyObject", "param:privateKey", `^!isnil\(` + q(kbS+"Get(param:kb, ") + `.*\)#1\)$`},
	} {
		if f := r.fn(kbS + w.fn); f != nil {
			if c := r.oneCall("C19-R1", w.fn, f, kbS+"writeLocalKeyPair"); c != nil {
				reqs := []req{{"no-existing-key", w.existRe}}
				if w.fn == "ImportPrivKey" {
					reqs = append(reqs, req{"armor-decrypts", `^isnil\(` + q(decrypt+"param:armor, param:decryptPassphrase)#1") + `\)$`})
				}
				r.requireAtoms("C19-R1", w.fn+"/write", c, P.Guards(c, 0), reqs)
				t := P.callTerm(c)
				r.Check(argTerm(t, 1).String() == w.keyTerm && argTerm(t, 2).String() == "param:encryptPassphrase", "C19-R1", w.fn+"/writes-imported-key", P.InstrPos(c), t.String(), w.fn+" writes "+t.String())
			}
		}
	}
	if f := r.fn(kbS + "writeLocalKeyPair"); f != nil {
		if c := r.oneCall("C19-R1", "writeLocalKeyPair", f, kbS+"writeKeyPair"); c != nil {
			t := argTerm(P.callTerm(c), 1).String()
			want := "crypto/keys.NewKeyPair(crypto.PrivateKey.PublicKey(param:priv), crypto/keys/mintkey.EncryptArmorPrivKey(param:priv, param:passphrase, param:hint)#0)"
			r.Check(t == want, "C19-R1", "writeLocalKeyPair/pair", P.InstrPos(c), t, "stores "+t+" ; required "+want)
		}
	}
	if f := r.fn(kbS + "writeKeyPair"); f != nil {
		if c := r.oneCall("C19-R1", "writeKeyPair", f, "github.com/tendermint/tm-db.DB.SetSync"); c != nil {
			t := P.callTerm(c).String()
			r.Check(strings.Contains(t, "crypto/keys.addrKey((crypto/keys.KeyPair).GetAddress(param:kp))") && strings.Contains(t, "crypto/keys.writeKeyPair(param:kp)"), "C19-R1", "writeKeyPair/under-own-address", P.InstrPos(c), t, "writes "+t)
		}
	}
	// the DB is written only by writeKeyPair and Delete
	for _, fn := range P.RepoFns {
		if fn.Pkg == nil || short(fn.Pkg.Pkg.Path()) != "crypto/keys" {
			continue
		}
		InstrsRaw(fn, func(in ssa.Instruction) {
			ci, ok := in.(ssa.CallInstruction)
			if !ok || !ci.Common().IsInvoke() {
				return
			}
			m := ci.Common().Method.Name()
			if typeStr(ci.Common().Value.Type()) == "github.com/tendermint/tm-db.DB" && (m == "Set" || m == "SetSync" || m == "Delete" || m == "DeleteSync") {
				n := short(enclosingTop(fn).String())
				ok2 := n == kbS+"writeKeyPair" || n == kbS+"Delete"
				r.Check(ok2, "C19-R1", "keybase-db-writer@"+n, P.InstrPos(in), "vetted keybase writer", n+" writes the keybase DB ("+m+") but is not writeKeyPair/Delete")
			}
		})
	}

	// ------------------------------------------------------------------ R2
	checkMultisigVerify(r, "C19-R2")

	// ------------------------------------------------------------------ R4
	r.Rule("C19-R4", "lazy keybase: every method that opens the LevelDB closes it on every exit (deferred Close) and delegates to the same-named dbKeybase method with its own arguments in order", 10)
	for _, m := range []string{"List", "Get", "Delete", "Update", "Sign", "Create", "ImportPrivKey", "ExportPrivKeyEncryptedArmor", "ImportPrivateKeyObject", "ExportPrivateKeyObject"} {
		f := r.fnOpt("(crypto/keys.lazyKeybase)." + m)
		if f == nil {
			r.Undecided("C19-R4", "lazy."+m, "-", "method not found")
			continue
		}
		open := CallsIn(f, "types.NewLevelDB")
		if len(open) != 1 {
			r.Viol("C19-R4", "lazy."+m+"/opens-db", P.Pos(f.Pos()), "expected exactly one NewLevelDB call")
			continue
		}
		// deferred close
		var closeDefer *ssa.Defer
		Instrs(f, func(in ssa.Instruction) {
			if d, ok := in.(*ssa.Defer); ok {
				if _, nm := calleeName(&d.Call); nm == "github.com/tendermint/tm-db.DB.Close" {
					closeDefer = d
				}
			}
		})
		if closeDefer == nil {
			r.Viol("C19-R4", "lazy."+m+"/closes-db", P.Pos(f.Pos()), "lazyKeybase."+m+" opens the LevelDB without a deferred Close: the handle (and the DB lock) leaks and every later keybase operation fails")
		} else {
			// every return after a successful open is preceded by the defer
			okAll := true
			for _, ret := range Returns(f) {
				gs := P.Guards(ret, 0)
				opened, _ := HasAtom(gs, `^isnil\(types\.NewLevelDB\(.*\)#1\)$`)
				if opened && !Precedes(closeDefer, ret) {
					okAll = false
				}
			}
			r.Check(okAll, "C19-R4", "lazy."+m+"/closes-db", P.InstrPos(closeDefer), "Close deferred on every path after a successful open", "a return after a successful open is not covered by the deferred Close")
		}
		// delegation
		del := CallsIn(f, "crypto/keys.Keybase."+m)
		if len(del) == 0 {
			// the constructor may hand out the concrete type: the same method, called directly
			del = CallsIn(f, "(crypto/keys.dbKeybase)."+m)
		}
		if len(del) != 1 {
			r.Viol("C19-R4", "lazy."+m+"/delegates", P.Pos(f.Pos()), "lazyKeybase."+m+" does not delegate to the db keybase's "+m)
			continue
		}
		t := P.callTerm(del[0])
		ok := strings.HasPrefix(strings.TrimPrefix(argTerm(t, 0).String(), "*"), "crypto/keys.newDbKeybase(types.NewLevelDB(")
		for i, p := range f.Params[1:] {
			if argTerm(t, i+1).String() != "param:"+p.Name() {
				ok = false
			}
		}
		r.Check(ok, "C19-R4", "lazy."+m+"/delegates", P.InstrPos(del[0]), "delegates with its own arguments in order", "delegation is "+t.String())
	}

	// ------------------------------------------------------------------ R3
	r.Rule("C19-R3", "key constructors and accessors keep their data: NewKeyPair stores the public key and armor it is given; KeyPair.GetAddress is the address of its public key", 2)
	if f := r.fn("crypto/keys.NewKeyPair"); f != nil {
		for _, ret := range Returns(f) {
			t := P.TermAt(ret.Results[0], ret).String()
			r.Check(strings.Contains(t, "PublicKey=param:pub") && strings.Contains(t, "PrivKeyArmor=param:privArmor"), "C19-R3", "NewKeyPair", P.InstrPos(ret), t, "NewKeyPair builds "+t)
		}
	}
	if f := r.fn("(crypto/keys.KeyPair).GetAddress"); f != nil {
		for _, ret := range Returns(f) {
			t := P.TermAt(ret.Results[0], ret).String()
			r.Check(strings.Contains(t, "crypto.PublicKey.Address(param:kp.PublicKey)"), "C19-R3", "KeyPair.GetAddress", P.InstrPos(ret), t, "GetAddress is "+t)
		}
	}
}
