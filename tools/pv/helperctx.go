package main

import (
	"golang.org/x/tools/go/ssa"
)

// Virtual inlining of helpers introduced by a refactoring.
//
// A "new helper" is a repo function with a body that the pinned tree does not know (pinned_params.json). Rules are
// anchored in functions of the pinned tree; when statements of such a function are moved into a new helper, the
// engines treat the helper's body as part of its caller:
//   - Instrs / CallsIn enumerate the helper's instructions in place of the call (load.go);
//   - a parameter of the helper is the argument at the helper's context call site (term.go);
//   - the guards of an instruction inside the helper include the guards of the context call site (guard.go);
//   - path queries descend into the helper at the call and continue after the call at its returns (guard.go).
// The context call site of a helper is the site through which it was last enumerated, or its only call site.

var theProg *Prog

var helperCtx = map[*ssa.Function]*ssa.Call{}

func isNewHelperFn(f *ssa.Function) bool {
	if theProg == nil || f == nil {
		return false
	}
	return theProg.isNewHelper(f)
}

func setHelperCtx(h *ssa.Function, site *ssa.Call) { helperCtx[h] = site }

// helperSite: the call site standing for h's caller context (nil when h is not a new helper or has none).
func helperSite(h *ssa.Function) *ssa.Call {
	if h == nil || h.Parent() != nil || !isNewHelperFn(h) {
		return nil
	}
	if s := helperCtx[h]; s != nil && s.Parent() != h {
		return s
	}
	return theProg.uniqueSiteOfNewHelper(h)
}

// rootOf follows context sites up to the pinned function an instruction's function acts for.
func rootOf(f *ssa.Function) *ssa.Function {
	for i := 0; i < 5 && f != nil; i++ {
		s := helperSite(f)
		if s == nil {
			return f
		}
		f = s.Parent()
	}
	return f
}

// flatBlocks lists the blocks of fn and of the new helpers it calls statically (depth 3).
func flatBlocks(fn *ssa.Function) []*ssa.BasicBlock {
	var out []*ssa.BasicBlock
	seen := map[*ssa.Function]bool{}
	var walk func(f *ssa.Function, d int)
	walk = func(f *ssa.Function, d int) {
		if seen[f] {
			return
		}
		seen[f] = true
		for _, b := range f.Blocks {
			out = append(out, b)
			if d >= 3 {
				continue
			}
			for _, in := range b.Instrs {
				if c, ok := in.(*ssa.Call); ok {
					if h := staticCallee(&c.Call); h != nil && isNewHelperFn(h) {
						if helperCtx[h] == nil {
							setHelperCtx(h, c)
						}
						walk(h, d+1)
					}
				}
			}
		}
	}
	walk(fn, 0)
	return out
}
