package main

import (
	"fmt"
	"strings"

	"golang.org/x/tools/go/ssa"
)

func init() {
	register("C07", checkC07)
	register("C08", checkC08)
}

const (
	vSlash   = posK + "validateSlash(param:k, param:ctx, param:address, param:infractionHeight, param:power, param:slashFactor)"
	burnTerm = "types.MaxInt(types.MinInt((types.Dec).TruncateInt((types.Dec).Mul((types.Int).ToDec(types.TokensFromConsensusPower(param:power)), param:slashFactor)), " + vSlash + "#0.StakedTokens), types.ZeroInt())"
)

func checkC07(r *Run) {
	P := r.P
	r.NotDecided("the numeric value of trunc(p*10^6*f) (Dec arithmetic, C18)")
	r.NotDecided("several slashes of one validator in one block as a history")

	// ------------------------------------------------------------------ R1
	r.Rule("C07-R1", "slash amount: both the stake reduction and the pool burn receive MaxInt(MinInt(TruncateInt(ToDec(TokensFromConsensusPower(power)).Mul(slashFactor)), validator.StakedTokens), 0) of the validated validator — capped by the current stake, truncated not rounded, power and factor are the parameters", 5)
	if f := r.fn(posK + "slash"); f != nil {
		rm := r.oneCall("C07-R1", "slash", f, posK+"removeValidatorTokens")
		bn := r.oneCall("C07-R1", "slash", f, posK+"burnStakedTokens")
		if rm != nil {
			t := P.callTerm(rm)
			r.Check(argTerm(t, 3).String() == burnTerm, "C07-R1", "slash/stake-reduction-amount", P.InstrPos(rm), burnTerm, "stake is reduced by "+argTerm(t, 3).String()+" ; required "+burnTerm)
			r.Check(argTerm(t, 2).String() == vSlash+"#0", "C07-R1", "slash/subject", P.InstrPos(rm), "reduces the validated validator", "reduces "+argTerm(t, 2).String())
		}
		if bn != nil {
			t := P.callTerm(bn)
			r.Check(argTerm(t, 2).String() == burnTerm, "C07-R1", "slash/burn-amount", P.InstrPos(bn), burnTerm, "pool burn is "+argTerm(t, 2).String()+" ; required "+burnTerm)
		}
		if rm != nil && bn != nil {
			// both happen on every path past validation: from removeValidatorTokens the burn always follows
			ok, w := AlwaysFollowedBy(rm, func(in ssa.Instruction) bool { return in == ssa.Instruction(bn) })
			r.Check(ok, "C07-R1", "slash/reduction=>burn", P.InstrPos(rm), "the burn always follows the stake reduction", "a path returns after the stake reduction without the pool burn (at "+P.InstrPos(w)+")")
		}
	}
	if f := r.fn("types.TokensFromConsensusPower"); f != nil {
		for _, ret := range Returns(f) {
			t := P.TermAt(ret.Results[0], ret).String()
			r.Check(t == "(types.Int).Mul(types.NewInt(param:power), global:types.PowerReduction)", "C07-R1", "TokensFromConsensusPower", P.InstrPos(ret), t, "TokensFromConsensusPower is "+t)
		}
	}
	if f := r.fn(posK + "burnValidators"); f != nil {
		if c := r.oneCall("C07-R1", "burnValidators", f, posK+"slash"); c != nil {
			t := P.callTerm(c)
			key := "github.com/tendermint/tm-db.Iterator.Key(types.KVStorePrefixIterator(types.Ctx.KVStore(param:ctx, param:k.storeKey), global:x/pos/types.BurnValidatorKey))"
			addr := "x/pos/types.AddressFromKey(" + key + ")"
			ok := argTerm(t, 2).String() == addr && argTerm(t, 3).String() == "types.Ctx.BlockHeight(param:ctx)" &&
				argTerm(t, 4).String() == vT+"ConsensusPower("+posK+"mustGetValidator(param:k, param:ctx, "+addr+"))" &&
				strings.HasPrefix(argTerm(t, 5).String(), "out:types.Dec←")
			r.Check(ok, "C07-R1", "burnValidators/slash-args", P.InstrPos(c), "slash(address from key, current height, current power, stored severity)", "queued burn slashes with "+t.String())
			isNext := CallTo("github.com/tendermint/tm-db.Iterator.Next")
			del := func(in ssa.Instruction) bool {
				ci, ok := in.(ssa.CallInstruction)
				return ok && CallTo("store/types.KVStore.Delete")(in) && argTerm(P.callTerm(ci), 1).String() == key
			}
			r.loopBodyAlways("C07-R1", "burnValidators/entry-deleted", c, del, isNext, "store.Delete(iterator.Key())")
		}
	}

	// ------------------------------------------------------------------ R2
	r.Rule("C07-R2", "validateSlash: a nil error comes either with the zero Validator (caller tests Address==nil before any write) or with the stored validator under: factor >= 0, infractionHeight <= BlockHeight, not past the unstaking window, found, not Unstaked", 8)
	if f := r.fn(posK + "validateSlash"); f != nil {
		nReal := 0
		for i, ret := range P.successReturns(f, 1, "nil") {
			sub := P.TermAt(ret.Results[0], ret).String()
			key := fmt.Sprintf("validateSlash/nil-error-return#%d", i)
			if strings.HasPrefix(sub, "complit:x/pos/types.Validator{}") || sub == "zero:x/pos/types.Validator" {
				r.OK("C07-R2", key+"/zero-subject", P.InstrPos(ret), "returns the zero Validator (Address nil)")
				continue
			}
			nReal++
			r.Check(sub == posK+"GetValidator(param:k, param:ctx, param:address)#0", "C07-R2", key+"/subject", P.InstrPos(ret), sub, "returns "+sub+" ; required the stored validator of param:address")
			r.requireAtoms("C07-R2", key, ret, P.Guards(ret, 0), []req{
				{"factor>=0", `^!\(types\.Dec\)\.LT\(param:slashFactor, types\.ZeroDec\(\)\)$`},
				{"height-not-future", `^!\(types\.Ctx\.BlockHeight\(param:ctx\) < param:infractionHeight\)$`},
				{"within-unstaking-window", `^!\(time\.Time\)\.After\(types\.Ctx\.BlockTime\(param:ctx\), \(time\.Time\)\.Add\(types\.Ctx\.WithBlockHeight\(param:ctx, param:infractionHeight\)\.header\.Time, ` + q(posK+"UnStakingTime(param:k, param:ctx)") + `\)\)$`},
				{"found", `^` + q(posK+"GetValidator(param:k, param:ctx, param:address)#1") + `$`},
				{"not-unstaked", `^!` + q(vT+"IsUnstaked("+posK+"GetValidator(param:k, param:ctx, param:address)#0)") + `$`},
			})
		}
		r.Check(nReal == 1, "C07-R2", "validateSlash/one-real-success", P.Pos(f.Pos()), "exactly one success return yields a validator", fmt.Sprintf("%d success returns yield a non-zero validator (expected 1)", nReal))
	}
	if f := r.fn(posK + "slash"); f != nil {
		// every write in slash is dominated by err==nil and Address != nil
		for _, n := range []string{"removeValidatorTokens", "burnStakedTokens", "ForceValidatorUnstake", "BeforeValidatorSlashed"} {
			for _, c := range CallsIn(f, posK+n) {
				r.requireAtoms("C07-R2", "slash/"+n, c, P.Guards(c, 0), []req{
					{"validated", `^isnil\(` + q(vSlash+"#1") + `\)$`},
					{"subject-present", `^!isnil\(` + q(vSlash+"#0.Address") + `\)$`},
				})
			}
		}
		r.callersExactly("C07-R2", "slash", r.edgesTo(f), []string{posK + "handleDoubleSign", posK + "handleValidatorSignature", posK + "burnValidators"})
	}

	// ------------------------------------------------------------------ R3
	r.Rule("C07-R3", "validate-contract (rule V) for double-sign evidence: every nil-error return of validateDoubleSign either carries a non-nil, not-Unstaked validator whose evidence age <= MaxEvidenceAge, signing info found and not tombstoned — or a nil validator, in which case handleDoubleSign must test it before slash / jail / force-unstake / tombstone", 7)
	if f := r.fn(posK + "validateDoubleSign"); f != nil {
		nilSubject := false
		for i, ret := range P.successReturns(f, 3, "nil") {
			sub := P.TermAt(ret.Results[2], ret).String()
			key := fmt.Sprintf("validateDoubleSign/nil-error-return#%d", i)
			if sub == "nil" || strings.HasPrefix(sub, "zero:") {
				nilSubject = true
				r.OK("C07-R3", key+"/nil-subject", P.InstrPos(ret), "returns (nil validator, nil error): evidence ignored — the caller must test the validator")
				continue
			}
			val := posK + "Validator(param:k, param:ctx, param:addr)"
			r.Check(sub == val, "C07-R3", key+"/subject", P.InstrPos(ret), sub, "returns "+sub)
			r.requireAtoms("C07-R3", key, ret, P.Guards(ret, 0), []req{
				{"pubkey-known", `^isnil\(` + q(posK+"getPubKeyRelation(param:k, param:ctx, param:addr)#1") + `\)$`},
				{"age<=MaxEvidenceAge", `^!\(` + q(posK+"MaxEvidenceAge(param:k, param:ctx)") + ` < \(time\.Time\)\.Sub\(types\.Ctx\.BlockHeader\(param:ctx\)\.Time, param:timestamp\)\)$`},
				{"validator-found", `^!isnil\(` + q(val) + `\)$`},
				{"not-unstaked", `^!x/pos/exported\.ValidatorI\.IsUnstaked\(` + q(val) + `\)$`},
				{"signing-info-found", `^` + q(posK+"GetValidatorSigningInfo(param:k, param:ctx, param:addr)#1") + `$`},
				{"not-tombstoned", `^!` + q(posK+"GetValidatorSigningInfo(param:k, param:ctx, param:addr)#0.Tombstoned") + `$`},
			})
		}
		if h := r.fn(posK + "handleDoubleSign"); h != nil {
			vds := posK + "validateDoubleSign(param:k, param:ctx, param:addr, param:infractionHeight, param:timestamp)"
			for _, n := range []string{"slash", "JailValidator", "ForceValidatorUnstake", "SetValidatorSigningInfo"} {
				for _, c := range CallsIn(h, posK+n) {
					reqs := []req{{"evidence-accepted", `^isnil\(` + q(vds+"#3") + `\)$`}}
					if nilSubject {
						reqs = append(reqs, req{"validator-present", `^!isnil\(` + q(vds+"#2") + `\)$`})
					}
					r.requireAtoms("C07-R3", "handleDoubleSign/"+n, c, P.Guards(c, 0), reqs)
				}
			}
			if c := r.oneCall("C07-R3", "handleDoubleSign", h, posK+"slash"); c != nil {
				t := P.callTerm(c)
				ok := argTerm(t, 2).String() == vds+"#0" && argTerm(t, 3).String() == "(param:infractionHeight - 1)" && argTerm(t, 4).String() == "param:power" && argTerm(t, 5).String() == posK+"SlashFractionDoubleSign(param:k, param:ctx)"
				r.Check(ok, "C07-R3", "handleDoubleSign/slash-args", P.InstrPos(c), "slash(offender, infractionHeight-ValidatorUpdateDelay, reported power, SlashFractionDoubleSign)", "double-sign slash is "+t.String())
			}
		}
	}

	// ------------------------------------------------------------------ R4
	r.Rule("C07-R4", "double sign: slash -> jail (if not jailed) -> force-unstake (burns the whole remaining stake) -> tombstone, in this order on the confirmed path; downtime: slash -> JailValidator", 8)
	checkTombstone(r, "C07-R4")
	if f := r.fn(posK + "handleValidatorSignature"); f != nil {
		r.orderedCalls("C07-R4", "downtime", f, posK+"slash", posK+"JailValidator")
		if c := r.oneCall("C07-R4", "downtime", f, posK+"slash"); c != nil {
			t := P.callTerm(c)
			ok := argTerm(t, 2).String() == "param:addr" && argTerm(t, 4).String() == "param:power" && argTerm(t, 5).String() == posK+"SlashFractionDowntime(param:k, param:ctx)"
			r.Check(ok, "C07-R4", "downtime/slash-args", P.InstrPos(c), "slash(addr, …, reported power, SlashFractionDowntime)", "downtime slash is "+t.String())
		}
	}

	// ------------------------------------------------------------------ R5
	r.Rule("C07-R5", "the slash leaves stake, pool and supply together: removeValidatorTokens and burnStakedTokens receive the same term; ForceValidatorUnstake burns exactly the remaining recorded stake and still unstakes when nothing remains (= C04-R1)", 3)
	if f := r.fn(posK + "slash"); f != nil {
		rm, bn := CallsIn(f, posK+"removeValidatorTokens"), CallsIn(f, posK+"burnStakedTokens")
		if len(rm) == 1 && len(bn) == 1 {
			a, b := argTerm(P.callTerm(rm[0]), 3).String(), argTerm(P.callTerm(bn[0]), 2).String()
			r.Check(a == b, "C07-R5", "slash/removed≡burned", P.InstrPos(bn[0]), "same term", "removeValidatorTokens takes "+a+" but burnStakedTokens burns "+b)
		} else {
			r.Viol("C07-R5", "slash/removed≡burned", P.Pos(f.Pos()), "slash no longer has exactly one stake reduction and one pool burn")
		}
	}
	if f := r.fn(posK + "ForceValidatorUnstake"); f != nil {
		if c := r.oneCall("C07-R5", "ForceValidatorUnstake", f, posK+"burnStakedTokens"); c != nil {
			got := argTerm(P.callTerm(c), 2).String()
			r.Check(got == "param:validator.StakedTokens", "C07-R5", "ForceValidatorUnstake/burns-whole-remainder", P.InstrPos(c), got, "burns "+got+" ; required the whole recorded stake")
			// a zero remainder must still be force-unstaked: burnStakedTokens rejects a non-positive amount, so the burn must be
			// skipped (guarded by IsPositive) rather than allowed to fail before the status change
			ok, _ := HasAtom(P.Guards(c, 0), `^\(types\.Int\)\.IsPositive\(param:validator\.StakedTokens\)$`)
			r.Check(ok, "C07-R5", "ForceValidatorUnstake/zero-remainder-still-unstaked", P.InstrPos(c), "the burn is attempted only for a positive remainder; a validator slashed to zero proceeds to the status change",
				"ForceValidatorUnstake burns validator.StakedTokens unconditionally; burnStakedTokens fails for a zero amount, so after a slash of the whole stake the validator keeps status Staked with zero tokens (and handleDoubleSign panics on the error)")
		}
	}

	// ------------------------------------------------------------------ R6
	r.Rule("C07-R6", "validate-contract (rule V) for the queued-burn getter: getValidatorBurn's not-found return is the zero Dec, so BurnValidator must branch on `found` before using it (or the getter must return a usable Dec)", 1)
	if g := r.fn(posK + "getValidatorBurn"); g != nil {
		usable := true
		for _, ret := range Returns(g) {
			c, _ := P.retClass(ret, 1)
			if c == "false" {
				t := P.TermAt(ret.Results[0], ret).String()
				if t != "types.ZeroDec()" {
					usable = false
				}
			}
		}
		if b := r.fn(posK + "BurnValidator"); b != nil {
			for _, c := range CallsIn(b, "(types.Dec).Add") {
				recv := argTerm(P.callTerm(c), 0).String()
				found := posK + "getValidatorBurn(param:k, param:ctx, param:address)#1"
				// the receiver must not be the raw getter value on a path where found is false
				okRecv := usable || !strings.Contains(recv, posK+"getValidatorBurn(param:k, param:ctx, param:address)#0") || (strings.HasPrefix(recv, "phi(") && strings.Contains(recv, "types.ZeroDec()"))
				if okRecv && !usable {
					// the raw value may only flow in from the found==true edge: check by cut that reaching Add with the raw value requires found
					okRecv = strings.Contains(recv, "types.ZeroDec()")
				}
				r.Check(okRecv, "C07-R6", "BurnValidator/absent-burn-usable", P.InstrPos(c), "accumulates onto "+recv,
					"BurnValidator calls Add on "+recv+" although getValidatorBurn returns the zero Dec (nil big.Int) when nothing is queued and `found` ("+found+") is not consulted: the first queued burn for an address panics")
			}
		}
	}
	checkStoreKeyWriters(r, "C07-R6", "x/pos/types", "BurnValidatorKey", []string{posK + "setValidatorBurn", posK + "deleteValidatorBurn", posK + "burnValidators"})
}

func checkC08(r *Run) {
	P := r.P
	r.NotDecided("equality of the counter with the number of set bits of the window over a history (a statement about sequences); decided: each per-block update has the shape that statement needs")
	r.NotDecided("rounding of MinSignedPerWindow (Dec arithmetic, C18) beyond the use of RoundInt64 on minSigned*window")
	f := r.fn(posK + "handleValidatorSignature")
	if f == nil {
		return
	}
	info := posK + "GetValidatorSigningInfo(param:k, param:ctx, param:addr)#0"
	win := posK + "SignedBlocksWindow(param:k, param:ctx)"
	idx := "(" + info + ".IndexOffset % " + win + ")"

	// ------------------------------------------------------------------ R1
	r.Rule("C08-R1", "ring index = IndexOffset % SignedBlocksWindow computed from the offset BEFORE it is incremented; the bit read and both bit writes use that same index and the same address", 4)
	if c := r.oneCall("C08-R1", "hVS", f, posK+"getMissedBlockArray"); c != nil {
		t := P.callTerm(c)
		r.Check(argTerm(t, 3).String() == idx && argTerm(t, 2).String() == "param:addr", "C08-R1", "hVS/bit-read", P.InstrPos(c), idx, "bit read is "+t.String()+" ; required index "+idx)
	}
	sets := CallsIn(f, posK+"SetMissedBlockArray")
	r.Check(len(sets) == 2, "C08-R1", "hVS/two-bit-writes", P.Pos(f.Pos()), "one set-missed and one clear-missed write", fmt.Sprintf("%d SetMissedBlockArray calls (expected 2)", len(sets)))
	for _, c := range sets {
		t := P.callTerm(c)
		r.Check(argTerm(t, 3).String() == idx && argTerm(t, 2).String() == "param:addr", "C08-R1", "hVS/bit-write:"+argTerm(t, 4).String(), P.InstrPos(c), idx, "bit write is "+t.String()+" ; required index "+idx)
	}
	// IndexOffset++ happens on every path, once
	nInc := 0
	Instrs(f, func(in ssa.Instruction) {
		if st, ok := in.(*ssa.Store); ok && P.TermAt(st.Addr, st).String() == "&addr:x/pos/types.ValidatorSigningInfo.IndexOffset" {
			v := P.TermAt(st.Val, st).String()
			if v == "("+info+".IndexOffset + 1)" {
				nInc++
				r.Check(len(P.Guards(st, 0)) <= 2, "C08-R1", "hVS/IndexOffset++-unconditional", P.InstrPos(st), "increment is not under a data-dependent branch", "IndexOffset++ is conditional: "+strings.Join(atomStrings(P.Guards(st, 0)), " ; "))
			} else if v != "0" {
				r.Viol("C08-R1", "hVS/IndexOffset-writer", P.InstrPos(st), "IndexOffset is assigned "+v)
			}
		}
	})
	r.Check(nInc == 1, "C08-R1", "hVS/IndexOffset++", P.Pos(f.Pos()), "incremented exactly once", fmt.Sprintf("IndexOffset is incremented at %d sites (expected 1)", nInc))

	// ------------------------------------------------------------------ R2
	r.Rule("C08-R2", "counter coupling: MissedBlocksCounter++ only together with SetMissedBlockArray(index, true) under {!previous, missed}; -- only with SetMissedBlockArray(index, false) under {previous, !missed}; no other writer except the reset to 0", 6)
	prev := posK + "getMissedBlockArray(param:k, param:ctx, param:addr, " + idx + ")"
	for _, c := range sets {
		t := P.callTerm(c)
		val := argTerm(t, 4).String()
		var want []req
		var delta string
		if val == "true" {
			want = []req{{"!previous", `^!` + q(prev) + `$`}, {"missed", `^!param:signed$`}}
			delta = "(" + info + ".MissedBlocksCounter + 1)"
		} else {
			want = []req{{"previous", `^` + q(prev) + `$`}, {"!missed", `^param:signed$`}}
			delta = "(" + info + ".MissedBlocksCounter - 1)"
		}
		r.requireAtoms("C08-R2", "hVS/bit-write:"+val, c, P.Guards(c, 0), want)
		// the counter store in the same block with the matching delta
		found := false
		for _, in := range c.Block().Instrs {
			if st, ok := in.(*ssa.Store); ok && P.TermAt(st.Addr, st).String() == "&addr:x/pos/types.ValidatorSigningInfo.MissedBlocksCounter" {
				found = P.TermAt(st.Val, st).String() == delta
			}
		}
		r.Check(found, "C08-R2", "hVS/counter-with-bit:"+val, P.InstrPos(c), "counter changes by "+delta+" in the same block as the bit write", "the bit write ("+val+") is not accompanied by counter := "+delta+" in the same block")
	}
	Instrs(f, func(in ssa.Instruction) {
		if st, ok := in.(*ssa.Store); ok && P.TermAt(st.Addr, st).String() == "&addr:x/pos/types.ValidatorSigningInfo.MissedBlocksCounter" {
			v := P.TermAt(st.Val, st).String()
			ok2 := v == "0" || v == "("+info+".MissedBlocksCounter + 1)" || v == "("+info+".MissedBlocksCounter - 1)"
			r.Check(ok2, "C08-R2", "hVS/counter-writer:"+v, P.InstrPos(st), "vetted counter update", "MissedBlocksCounter is assigned "+v)
		}
	})
	checkFieldWriters(r, "C08-R2", "x/pos/types", "ValidatorSigningInfo", "MissedBlocksCounter", []string{posK + "handleValidatorSignature"})
	checkFieldWriters(r, "C08-R2", "x/pos/types", "ValidatorSigningInfo", "IndexOffset", []string{posK + "handleValidatorSignature"})

	// ------------------------------------------------------------------ R3
	r.Rule("C08-R3", "punishment guard: slash/jail only under height > StartHeight+Window (strict), MissedBlocksCounter > Window-MinSignedPerWindow (strict), validator found, not jailed; MinSignedPerWindow = RoundInt64(minSigned*window)", 6)
	for _, n := range []string{"slash", "JailValidator", "clearMissedArray"} {
		for _, c := range CallsIn(f, posK+n) {
			r.requireAtoms("C08-R3", "hVS/"+n, c, P.Guards(c, 0), []req{
				{"height>start+window", `^\(\(` + q(info+".StartHeight") + ` \+ ` + q(win) + `\) < types\.Ctx\.BlockHeight\(param:ctx\)\)$`},
				{"missed>window-minSigned", `^\(\(` + q(win) + ` - ` + q(posK+"MinSignedPerWindow(param:k, param:ctx)") + `\) < phi\(.*MissedBlocksCounter.*\)\)$`},
				{"validator-found", `^!isnil\(` + q(posK+"Validator(param:k, param:ctx, param:addr)") + `\)$`},
				{"not-jailed", `^!x/pos/exported\.ValidatorI\.IsJailed\(` + q(posK+"Validator(param:k, param:ctx, param:addr)") + `\)$`},
			})
		}
	}
	// and whenever all four hold the punishment happens: from the !IsJailed edge JailValidator always follows
	if cs := CallsIn(f, posK+"JailValidator"); len(cs) == 1 {
		r.mustFollowEdge("C08-R3", "hVS/guards=>punished", f, `^!x/pos/exported\.ValidatorI\.IsJailed\(`+q(posK+"Validator(param:k, param:ctx, param:addr)")+`\)$`, func(in ssa.Instruction) bool { return in == ssa.Instruction(cs[0]) }, nil, "JailValidator")
	} else {
		r.Viol("C08-R3", "hVS/guards=>punished", P.Pos(f.Pos()), fmt.Sprintf("%d JailValidator calls in handleValidatorSignature (expected 1)", len(cs)))
	}
	if g := r.fn(posK + "MinSignedPerWindow"); g != nil {
		for _, ret := range Returns(g) {
			t := P.TermAt(ret.Results[0], ret).String()
			ok := strings.Contains(t, "RoundInt64(") && strings.Contains(t, "MulInt64(") && strings.Contains(t, "SignedBlocksWindow")
			r.Check(ok, "C08-R3", "MinSignedPerWindow", P.InstrPos(ret), t, "MinSignedPerWindow is "+t+" ; required RoundInt64(minSigned.MulInt64(window))")
		}
	}

	// ------------------------------------------------------------------ R4
	r.Rule("C08-R4", "after punishment: JailedUntil = block header time + DowntimeJailDuration, counter = 0, offset = 0, clearMissedArray(address); SetValidatorSigningInfo(address, signInfo) is executed on every path to return", 5)
	wantStores := map[string]string{
		"&addr:x/pos/types.ValidatorSigningInfo.JailedUntil":         "(time.Time).Add(types.Ctx.BlockHeader(param:ctx).Time, " + posK + "DowntimeJailDuration(param:k, param:ctx))",
		"&addr:x/pos/types.ValidatorSigningInfo.MissedBlocksCounter": "0",
		"&addr:x/pos/types.ValidatorSigningInfo.IndexOffset":         "0",
	}
	if cs := CallsIn(f, posK+"JailValidator"); len(cs) == 1 {
		blk := cs[0].Block()
		got := map[string]string{}
		// the reset statements follow the jail in straight-line code (same block or its unique successors)
		b := blk
		for i := 0; i < 4 && b != nil; i++ {
			for _, in := range b.Instrs {
				if st, ok := in.(*ssa.Store); ok {
					got[P.TermAt(st.Addr, st).String()] = P.TermAt(st.Val, st).String()
				}
			}
			if len(b.Succs) == 1 {
				b = b.Succs[0]
			} else {
				b = nil
			}
		}
		for a, v := range wantStores {
			r.Check(got[a] == v, "C08-R4", "hVS/reset:"+strings.TrimPrefix(a, "&addr:x/pos/types.ValidatorSigningInfo."), P.InstrPos(cs[0]), a+" := "+v, "after jailing, "+a+" is assigned "+got[a]+" ; required "+v)
		}
		ok, w := AlwaysFollowedBy(cs[0], CallTo(posK+"clearMissedArray"))
		r.Check(ok, "C08-R4", "hVS/window-cleared", P.InstrPos(cs[0]), "clearMissedArray always follows the jailing", "a path returns after jailing without clearMissedArray (at "+P.InstrPos(w)+")")
		for _, c := range CallsIn(f, posK+"clearMissedArray") {
			r.Check(argTerm(P.callTerm(c), 2).String() == "param:addr", "C08-R4", "hVS/clears-own-window", P.InstrPos(c), "param:addr", "clears the window of "+argTerm(P.callTerm(c), 2).String())
		}
	}
	if c := r.oneCall("C08-R4", "hVS", f, posK+"SetValidatorSigningInfo"); c != nil {
		reach, _, path := ReachWithout(f, nil, isReturn, func(in ssa.Instruction) bool { return in == ssa.Instruction(c) }, nil)
		r.Check(!reach, "C08-R4", "hVS/always-persists", P.InstrPos(c), "every returning path persists the signing info", "a path returns without SetValidatorSigningInfo: "+P.blockPathString(path))
		r.Check(argTerm(P.callTerm(c), 2).String() == "param:addr", "C08-R4", "hVS/persists-own-record", P.InstrPos(c), "param:addr", "persists under "+argTerm(P.callTerm(c), 2).String())
	}
	if g := r.fn(posK + "clearMissedArray"); g != nil {
		// deletes every key under the validator's missed-block prefix
		ok := false
		for _, c := range CallsIn(g, "store/types.KVStore.Delete") {
			if strings.Contains(P.callTerm(c).String(), "Iterator.Key(") {
				ok = true
			}
		}
		pfx := false
		for _, c := range CallsIn(g, "types.KVStorePrefixIterator") {
			if strings.HasSuffix(P.callTerm(c).String(), "x/pos/types.GetValMissedBlockPrefixKey(param:address))") {
				pfx = true
			}
		}
		r.Check(ok && pfx, "C08-R4", "clearMissedArray", P.Pos(g.Pos()), "deletes every entry under GetValMissedBlockPrefixKey(addr)", "clearMissedArray no longer deletes all entries under the validator's missed-block prefix")
	}

	// ------------------------------------------------------------------ R5
	r.Rule("C08-R5", "BeginBlocker calls handleValidatorSignature exactly once per element of LastCommitInfo.Votes with that vote's address, power and signed flag; no other caller", 2)
	if g := r.fn(posK + "handleValidatorSignature"); g != nil {
		r.callersExactly("C08-R5", "handleValidatorSignature", r.edgesTo(g), []string{"x/pos/keeper.BeginBlocker"})
	}
	if bb := r.fn("x/pos/keeper.BeginBlocker"); bb != nil {
		cs := CallsIn(bb, posK+"handleValidatorSignature")
		if len(cs) != 1 {
			r.Viol("C08-R5", "BeginBlocker/one-call-per-vote", P.Pos(bb.Pos()), fmt.Sprintf("%d handleValidatorSignature call sites (expected 1, in the votes loop)", len(cs)))
		} else {
			t := P.callTerm(cs[0])
			v := "(*github.com/tendermint/tendermint/abci/types.LastCommitInfo).GetVotes(&addr:github.com/tendermint/tendermint/abci/types.RequestBeginBlock.LastCommitInfo)["
			ok := strings.HasPrefix(argTerm(t, 2).String(), v) && strings.HasSuffix(argTerm(t, 2).String(), "].Validator.Address") &&
				strings.HasSuffix(argTerm(t, 3).String(), "].Validator.Power") && strings.HasSuffix(argTerm(t, 4).String(), "].SignedLastBlock")
			r.Check(ok, "C08-R5", "BeginBlocker/one-call-per-vote", P.InstrPos(cs[0]), "called with each vote's address, power, signed flag", "called with "+t.String())
		}
	}
}
