package main

import (
	_ "embed"
	"encoding/json"
	"fmt"
	"go/types"
	"regexp"
	"sort"
	"strings"

	"golang.org/x/tools/go/ssa"
)

// Rules from seeding round 10 (suffixes aa–ac) and the generic rule RFG1.

// ---------------------------------------------------------------------------------------------------------------------
// RFG1 — failure conditions are monotone too. The mirror image of RSG1: for every repo function with an error-like or
// boolean result, each *failure* return (non-nil error / false, or `return f(x)` forwarding f's verdict) is reached on
// the pinned tree under a set of stable local guards; pinned_failure_guards.json records them (`pv -dump
// failureguards`). On the current tree every definite failure return must still be caused by at least the guards of
// some pinned failure return of that function: a refusal under a condition that refused nothing before (a key that can
// no longer sign, a version that can no longer be read, a transfer that is rejected half-way) is a new way to say no.
// Additional success returns, and failure returns that only add guards to a pinned cause, are not reported; a failure
// whose cause is the result of a helper introduced by a refactoring is not judged (limitation, see DESIGN §6.3).

//go:embed pinned_failure_guards.json
var pinnedFailureGuardsJSON []byte

type failureRet struct {
	fn      *ssa.Function
	ret     *ssa.Return
	guards  []string
	forward bool
	cause   *ssa.Function
}

func (P *Prog) failureReturnGuards() map[string][]failureRet {
	out := map[string][]failureRet{}
	for _, f := range P.RepoFns {
		if len(f.Blocks) == 0 || f.Synthetic != "" || P.isNewHelper(enclosingTop(f)) {
			continue
		}
		idx, _ := errIndex(f.Signature)
		want := "nonnil"
		if idx < 0 {
			res := f.Signature.Results()
			if res.Len() == 0 {
				continue
			}
			b, ok := res.At(res.Len() - 1).Type().Underlying().(*types.Basic)
			if !ok || b.Kind() != types.Bool {
				continue
			}
			idx, want = res.Len()-1, "false"
		}
		n := short(f.String())
		// one alternative per returned value and incoming edge (a merged `return ok && valid` is split like the
		// written-out early returns)
		for _, a := range P.RetAlternatives(f, idx) {
			c, t := altClass(a)
			fr := failureRet{fn: f, ret: a.Ret}
			boolExpr := false
			if c != want {
				if want == "false" && c == "unknown" && t != nil && t.Op != "zero" {
					boolExpr = true // `return a.IsAllGTE(b)`: refuses exactly when the expression is false
				} else if !(want == "nonnil" && c == "unknown" && t != nil && (t.Op == "call" || t.Op == "invoke" || t.Op == "extract")) {
					continue
				}
				fr.forward = true
			}
			if boolExpr {
				gs := append(P.stableOf(a.G), canonAtom("!"+t.String()))
				sort.Strings(gs)
				fr.guards = gs
				out[n] = append(out[n], fr)
				continue
			}
			if t != nil {
				ct := t
				if ct.Op == "extract" && len(ct.Args) == 1 {
					ct = ct.Args[0]
				}
				if ct.Op == "call" {
					fr.cause = P.Fn(ct.Name)
				}
			}
			gs := P.stableOf(a.G)
			if fr.forward {
				// as a failure a forwarding return carries the opposite of the implicit success atom
				var kept []string
				for _, g := range gs {
					if g != canonAtom("isnil("+t.String()+")") {
						kept = append(kept, g)
					}
				}
				gs = kept
				if k := canonAtom("!isnil(" + t.String() + ")"); !(strings.Contains(k, "phi(") || strings.Contains(k, "loop") || strings.Contains(k, "next(range(")) {
					gs = append(gs, k)
					sort.Strings(gs)
				}
			}
			fr.guards = gs
			out[n] = append(out[n], fr)
		}
	}
	return out
}

// altClass classifies one return alternative the way retClass classifies a return: "nil", "nonnil", "true", "false"
// or "unknown".
func altClass(a RetAlt) (string, *Term) {
	t := a.T
	if t == nil {
		return "unknown", nil
	}
	switch {
	case t.Op == "const" && (t.Name == "nil" || t.Name == "true" || t.Name == "false"):
		return t.Name, t
	case t.Op == "zero":
		return "unknown", t
	case t.Op == "call" && errCtorRe.MatchString(t.Name):
		return "nonnil", t
	case t.Op == "invoke" && (strings.HasSuffix(t.Name, ".Result") || strings.HasSuffix(t.Name, ".TraceSDK") || strings.HasSuffix(t.Name, ".WithDefaultCodespace")):
		return "nonnil", t
	}
	for _, g := range a.G {
		if g.T.Op == "call" && g.T.Name == "isnil" && len(g.T.Args) == 1 && g.T.Args[0].String() == t.String() {
			if g.Pos {
				return "nil", t
			}
			return "nonnil", t
		}
		if g.T.String() == t.String() {
			if g.Pos {
				return "true", t
			}
			return "false", t
		}
	}
	return "unknown", t
}

func dumpFailureGuards(P *Prog) {
	m := map[string][][]string{}
	for n, rs := range P.failureReturnGuards() {
		for _, s := range rs {
			g := s.guards
			if g == nil {
				g = []string{}
			}
			m[n] = append(m[n], g)
		}
	}
	for k := range m {
		sort.Slice(m[k], func(i, j int) bool { return strings.Join(m[k][i], "|") < strings.Join(m[k][j], "|") })
	}
	b, _ := json.MarshalIndent(m, "", " ")
	fmt.Println(string(b))
}

func failureGuardsMonotone(r *Run, rule string) {
	P := r.P
	r.Rule(rule, "a no is not easier to get than before: every definite failure return (non-nil error / false) of a function in scope is still caused by at least the guards of one of that function's failure returns on the pinned tree (pinned_failure_guards.json) — a refusal under a condition that refused nothing before is a new way to reject (a stored key that can no longer sign, a committed version that can no longer be read, a transfer rejected after the debit). Scope: functions that are anchors of this property's rules or lie in the property's packages", 1)
	var pinned map[string][][]string
	if err := json.Unmarshal(pinnedFailureGuardsJSON, &pinned); err != nil || len(pinned) == 0 {
		r.Undecided(rule, "table", "-", "pinned_failure_guards.json is empty or unreadable")
		return
	}
	cur := P.failureReturnGuards()
	var names []string
	for n := range cur {
		f := P.Fn(n)
		if f == nil {
			continue
		}
		if r.Anchors[f] || r.Anchors[enclosingTop(f)] || inScope(r.Prop, f) {
			names = append(names, n)
		}
	}
	sort.Strings(names)
	nRet, fresh := 0, 0
	for _, n := range names {
		want, known := pinned[n]
		if !known {
			// a pinned function that could not fail before: judged only if it existed (has parameters pinned)
			if f := P.Fn(n); f == nil || P.isNewHelper(enclosingTop(f)) || !P.inPinnedTree(n) {
				continue
			}
		}
		for i, s := range cur[n] {
			if s.forward {
				continue // a forwarded verdict is a failure only when the callee fails: judged there
			}
			if s.cause != nil && P.isNewHelper(enclosingTop(s.cause)) {
				continue
			}
			nRet++
			hs := map[string]bool{}
			viaNew := false
			for _, g := range s.guards {
				hs[g] = true
			}
			for _, a := range P.LocalGuards(s.ret) {
				if f := P.atomCalleeFn(a); f != nil && P.isNewHelper(enclosingTop(f)) {
					viaNew = true
				}
			}
			if viaNew {
				continue
			}
			_ = hs
			uni := atomUniverse(n, want)
			var unknown []string
			for _, g := range s.guards {
				if unstableAtom(g) {
					continue
				}
				if !uni[symKey(g)] {
					unknown = append(unknown, g)
				}
			}
			// a test that a callee of this function makes on the same arguments to refuse (a re-stated refusal in front
			// of the call, and its outcome carried along to the later returns) decides nothing new
			if len(unknown) > 0 {
				ca := P.calleeRefusalAtoms(s.fn, pinned)
				var still []string
				for _, g := range unknown {
					if !ca[symKey(g)] {
						still = append(still, g)
					}
				}
				unknown = still
			}
			ok := len(unknown) == 0
			if !ok && P.refusalRestatesCallee(s, pinned) {
				ok = true
			}
			if !ok && P.deadNilBranch(P.LocalGuards(s.ret)) {
				ok = true // `if acc == nil` right after a constructor that returned no error: provably dead
			}
			if !ok {
				fresh++
				r.Viol(rule, fmt.Sprintf("new-refusal:%s#%d", n, i), P.InstrPos(s.ret), n+" now fails under {"+strings.Join(s.guards, " ; ")+"} — the test(s) {"+strings.Join(unknown, " ; ")+"} decided nothing in this function on the pinned tree: a new cause of refusal")
			}
		}
	}
	r.OK(rule, "failure-returns-compared", "-", fmt.Sprintf("%d failure returns of %d functions in scope compared, %d new refusals", nRet, len(names), fresh))
}

// stableOf renders a guard set the way GuardsStable does (no atoms over merged or loop-carried values; success
// conditions inlined only through helpers introduced by a refactoring).
func (P *Prog) stableOf(atoms []Atom) []string {
	seen := map[string]bool{}
	var out []string
	var expand func(a Atom, depth int)
	expand = func(a Atom, depth int) {
		k := canonAtom(a.Key())
		if !(strings.Contains(k, "phi(") || strings.Contains(k, "loop") || strings.Contains(k, "next(range(")) && !seen[k] {
			seen[k] = true
			out = append(out, k)
		}
		if depth > 3 {
			return
		}
		if f := P.atomCalleeFn(a); f != nil && P.isNewHelper(enclosingTop(f)) {
			for _, x := range P.inlineAtom(a, 1) {
				expand(x, depth+1)
			}
		}
	}
	for _, a := range atoms {
		expand(a, 0)
	}
	sort.Strings(out)
	return dropImpliedLiteralTests(out)
}

// refusalRestatesCallee: the new refusal repeats, in front of a call the function makes anyway, a refusal that the
// callee itself makes first thing (same test on the same arguments): `if !amt.IsValid() { return ErrInvalidCoins }`
// in front of SubtractCoins(…, amt), whose own first refusal is that test. The causes of the new failure must be
// exactly one pinned failure set of the callee (its parameters replaced by the arguments of the call) plus guards
// that also protect the call site.
func (P *Prog) refusalRestatesCallee(s failureRet, pinned map[string][][]string) bool {
	have := map[string]bool{}
	for _, g := range s.guards {
		have[g] = true
	}
	for _, b := range s.fn.Blocks {
		for _, in := range b.Instrs {
			c, ok := in.(ssa.CallInstruction)
			if !ok {
				continue
			}
			g := staticCallee(c.Common())
			if g == nil || !P.IsRepoFn(g) || P.isNewHelper(g) {
				continue
			}
			gn := short(g.String())
			sets := pinned[gn]
			names := pinnedParams[gn]
			if len(sets) == 0 || len(names) == 0 {
				continue
			}
			t := P.callTerm(c)
			if t == nil || len(t.Args) != len(names) {
				continue
			}
			site := map[string]bool{}
			for _, k := range P.GuardsStable(in) {
				site[k] = true
			}
			for _, set := range sets {
				if len(set) == 0 {
					continue
				}
				used := map[string]bool{}
				all := true
				for _, a := range set {
					x := a
					for i, pn := range names {
						x = replaceParam(x, pn, t.Args[i].String())
					}
					x = canonAtom(x)
					if !have[x] {
						all = false
						break
					}
					used[x] = true
				}
				if !all {
					continue
				}
				rest := true
				for k := range have {
					// the negations of the callee's earlier refusals hold on the way to the call as well; everything
					// else must protect the call site too
					if !used[k] && !site[k] {
						rest = false
					}
				}
				if rest {
					return true
				}
			}
		}
	}
	return false
}

// calleeRefusalAtoms: the tests (polarity dropped) that the pinned callees of f make to refuse, spelled over the
// arguments f passes.
var calleeAtomsCache = map[*ssa.Function]map[string]bool{}

func (P *Prog) calleeRefusalAtoms(f *ssa.Function, pinned map[string][][]string) map[string]bool {
	if m, ok := calleeAtomsCache[f]; ok {
		return m
	}
	out := map[string]bool{}
	for _, b := range f.Blocks {
		for _, in := range b.Instrs {
			c, ok := in.(ssa.CallInstruction)
			if !ok {
				continue
			}
			g := staticCallee(c.Common())
			if g == nil || !P.IsRepoFn(g) || P.isNewHelper(g) {
				continue
			}
			gn := short(g.String())
			names := pinnedParams[gn]
			t := P.callTerm(c)
			if len(pinned[gn]) == 0 || len(names) == 0 || t == nil || len(t.Args) != len(names) {
				continue
			}
			for _, set := range pinned[gn] {
				for _, a := range set {
					x := a
					for i, pn := range names {
						x = replaceParam(x, pn, t.Args[i].String())
					}
					out[symKey(canonAtom(x))] = true
				}
			}
		}
	}
	calleeAtomsCache[f] = out
	return out
}

var paramTokRe = map[string]*regexp.Regexp{}

// replaceParam substitutes the argument term for `param:name` (whole token) in an atom's spelling.
func replaceParam(atom, name, arg string) string {
	rx := paramTokRe[name]
	if rx == nil {
		rx = regexp.MustCompile(`param:` + regexp.QuoteMeta(name) + `\b`)
		paramTokRe[name] = rx
	}
	return rx.ReplaceAllLiteralString(atom, arg)
}

// atomUniverse: every test (ignoring polarity) that decided a failure, a success or a panic of the function on the
// pinned tree. Guard *sets* change with every harmless restructuring (a reordered `||`, merged ifs, De Morgan); the
// tests a function makes do not.
var universeCache = map[string]map[string]bool{}

func atomUniverse(fn string, failureSets [][]string) map[string]bool {
	if u, ok := universeCache[fn]; ok {
		return u
	}
	u := map[string]bool{}
	add := func(sets [][]string) {
		for _, set := range sets {
			for _, g := range set {
				u[symKey(g)] = true
			}
		}
	}
	var tabs []map[string][][]string
	for _, raw := range [][]byte{pinnedFailureGuardsJSON, pinnedSuccessGuardsJSON, pinnedPanicGuardsJSON} {
		var m map[string][][]string
		if json.Unmarshal(raw, &m) == nil {
			tabs = append(tabs, m)
		}
	}
	for _, m := range tabs {
		add(m[fn])
	}
	add(failureSets)
	universeCache[fn] = u
	return u
}

// unstableAtom: atoms over range elements and opaque containers are spelled differently by equivalent loops.
func unstableAtom(g string) bool {
	return strings.Contains(g, "[*]") || strings.Contains(g, "other:") || strings.Contains(g, "phi(") || strings.Contains(g, "loop")
}

// symKey: an atom without its polarity, with the operands of symmetric library predicates (bytes.Equal) sorted.
func symKey(g string) string {
	g = strings.TrimPrefix(g, "!")
	const eq = "bytes.Equal("
	i := strings.Index(g, eq)
	if i < 0 {
		return g
	}
	start := i + len(eq)
	depth, comma, end := 0, -1, -1
	for j := start; j < len(g); j++ {
		switch g[j] {
		case '(', '[', '{':
			depth++
		case ')', ']', '}':
			if depth == 0 {
				end = j
			}
			depth--
		case ',':
			if depth == 0 && comma < 0 {
				comma = j
			}
		}
		if end >= 0 {
			break
		}
	}
	if comma < 0 || end < 0 {
		return g
	}
	a, b := strings.TrimSpace(g[start:comma]), strings.TrimSpace(g[comma+1:end])
	if b < a {
		a, b = b, a
	}
	return g[:start] + a + ", " + b + g[end:]
}

// inPinnedTree: the function existed on the pinned tree (its parameters are pinned).
func (P *Prog) inPinnedTree(name string) bool {
	f := P.Fn(name)
	return f != nil && !P.isNewHelper(enclosingTop(f))
}

// ---------------------------------------------------------------------------------------------------------------------
// specific rules

// genesisMissedEntriesKeepTheirIndex (C08): the sliding window is imported slot by slot.
func genesisMissedEntriesKeepTheirIndex(r *Run, rule string) {
	P := r.P
	r.Rule(rule, "genesis import keeps every missed-block entry in its own slot of the sliding window: in pos.InitGenesis the index argument of SetMissedBlockArray is the Index field of the very entry whose Missed field is the value argument (an exported window is sparse — only missed slots are listed — so the position in the list is not the slot)", 1)
	f := r.fn("x/pos.InitGenesis")
	if f == nil {
		return
	}
	cs := CallsIn(f, "(x/pos/keeper.Keeper).SetMissedBlockArray")
	if len(cs) == 0 {
		r.Viol(rule, "InitGenesis/missed-entry-slot", P.Pos(f.Pos()), "InitGenesis no longer imports the missed-block entries")
		return
	}
	for _, c := range cs {
		t := P.callTerm(c)
		ix, v := argTerm(t, 3).String(), argTerm(t, 4).String()
		ok := strings.HasSuffix(ix, ".Index") && strings.HasSuffix(v, ".Missed") && strings.TrimSuffix(ix, ".Index") == strings.TrimSuffix(v, ".Missed")
		r.Check(ok, rule, "InitGenesis/missed-entry-slot", P.InstrPos(c), "SetMissedBlockArray(ctx, addr, e.Index, e.Missed)", "the entry is written at index "+oneLine(ix)+" with value "+oneLine(v))
	}
}

// versionedCacheFailsOnMissingVersion (C12/C14): a height that a substore no longer has is an error, not the live store.
func versionedCacheFailsOnMissingVersion(r *Run, rule string) {
	P := r.P
	r.Rule(rule, "a versioned view is made of immutable trees of that version only: in CacheMultiStoreWithVersion every path on which GetImmutable(version) failed returns that error (no fall-back to the live substore), and the store kept for an IAVL substore is GetImmutable's result", 2)
	f := r.fn("(*store/rootmulti.Store).CacheMultiStoreWithVersion")
	if f == nil {
		return
	}
	cs := CallsIn(f, "(*store/iavl.Store).GetImmutable")
	if len(cs) == 0 {
		r.Viol(rule, "CacheMultiStoreWithVersion/immutable-tree", P.Pos(f.Pos()), "CacheMultiStoreWithVersion no longer takes the immutable tree of the version")
		return
	}
	for _, c := range cs {
		ct := P.callTerm(c).String()
		// from the failure edge of the call every path returns its error
		failRe := `^!isnil\(` + regexp.QuoteMeta(ct) + `#1\)$`
		edges := P.ifEdgesFor(f, failRe)
		r.Check(len(edges) > 0, rule, "CacheMultiStoreWithVersion/error-tested", P.InstrPos(c), "err != nil is tested", "the error of GetImmutable is not tested")
		for _, e := range edges {
			bad, _, path := ReachFromEdge(e.B, e.I, func(in ssa.Instruction) bool {
				ret, ok := in.(*ssa.Return)
				if !ok {
					return false
				}
				cl, t := P.retClass(ret, 1)
				return !(cl == "nonnil" && t != nil && t.String() == ct+"#1")
			}, func(in ssa.Instruction) bool {
				ret, ok := in.(*ssa.Return)
				if !ok {
					return false
				}
				cl, t := P.retClass(ret, 1)
				return cl == "nonnil" && t != nil && t.String() == ct+"#1"
			}, nil)
			r.Check(!bad, rule, "CacheMultiStoreWithVersion/missing-version-is-an-error", P.InstrPos(c), "every path from the failed GetImmutable returns its error", "after GetImmutable(version) failed a path goes on without returning the error: "+P.blockPathString(path))
			// and no map update on the failure side
			upd, _, path2 := ReachFromEdge(e.B, e.I, func(in ssa.Instruction) bool { _, ok := in.(*ssa.MapUpdate); return ok }, isReturn, nil)
			r.Check(!upd, rule, "CacheMultiStoreWithVersion/no-store-kept-for-a-missing-version", P.InstrPos(c), "no store is kept after the failure", "a store is put into the view although the version is missing: "+P.blockPathString(path2))
		}
	}
}

// iavlDefaultHeightExists (C14/C12): height 0 resolves to a version the tree still has.
func iavlDefaultHeightExists(r *Run, rule string) {
	P := r.P
	r.Rule(rule, "a store query without a height is answered from a version that exists: iavl getHeight returns tree.Version()-1 only under tree.VersionExists(tree.Version()-1), the requested height only when one was given, and tree.Version() otherwise (on a pruning node latest-1 is usually gone)", 3)
	f := r.fn("store/iavl.getHeight")
	if f == nil {
		return
	}
	n := 0
	for i, a := range P.RetAlternatives(f, 0) {
		{
			n++
			t := a.T.String()
			gs := a.G
			key := fmt.Sprintf("getHeight/alt#%d", i)
			switch {
			case t == "(store/iavl.Tree.Version(param:tree) - 1)":
				ok, _ := HasAtom(gs, `^store/iavl\.Tree\.VersionExists\(param:tree, \(store/iavl\.Tree\.Version\(param:tree\) - 1\)\)$`)
				z, _ := HasAtom(gs, `^\(0 == param:req\.Height\)$`)
				r.Check(ok && z, rule, "getHeight/previous-version-only-if-it-exists", P.InstrPos(a.Ret), "latest-1 under Height == 0 && VersionExists(latest-1)", "getHeight answers with latest-1 under {"+strings.Join(atomStrings(gs), " ; ")+"}")
			case t == "param:req.Height":
				nz, _ := HasAtom(gs, `^!\(0 == param:req\.Height\)$`)
				r.Check(nz, rule, "getHeight/requested-height-kept", P.InstrPos(a.Ret), "req.Height under Height != 0", "getHeight keeps the requested height under {"+strings.Join(atomStrings(gs), " ; ")+"}")
			case t == "store/iavl.Tree.Version(param:tree)":
				z, _ := HasAtom(gs, `^\(0 == param:req\.Height\)$`)
				r.Check(z, rule, "getHeight/latest-as-fallback", P.InstrPos(a.Ret), "latest under Height == 0", "getHeight answers with the latest version under {"+strings.Join(atomStrings(gs), " ; ")+"}")
			default:
				r.Viol(rule, key+"/value", P.InstrPos(a.Ret), "getHeight can answer "+oneLine(t)+" under {"+strings.Join(atomStrings(gs), " ; ")+"}: neither the requested height, nor latest-1, nor latest")
			}
		}
	}
	if n < 3 {
		r.Viol(rule, "getHeight/three-answers", P.Pos(f.Pos()), fmt.Sprintf("getHeight has %d answers (requested, latest-1 if it exists, latest expected)", n))
	}
}

// tombstoneIsNil (C15/C14): a deletion in the cache layer is the nil value — an empty value is data.
func tombstoneIsNil(r *Run, rule string) {
	P := r.P
	r.Rule(rule, "the deletion marker of the cache layer is the nil value and nothing else: cacheMergeIterator.skipCacheDeletes steps over a cache entry exactly under cache.Valid() && cache.Value() == nil (an empty, non-nil value is a live entry that Get, Has and Write see)", 1)
	f := r.fn("(*store/cachekv.cacheMergeIterator).skipCacheDeletes")
	if f == nil {
		return
	}
	cs := CallsIn(f, "github.com/tendermint/tm-db.Iterator.Next")
	if len(cs) == 0 {
		r.Viol(rule, "skipCacheDeletes/steps", P.Pos(f.Pos()), "skipCacheDeletes no longer advances the cache iterator")
		return
	}
	for _, c := range cs {
		gs := P.Guards(c, 0)
		isNil, _ := HasAtom(gs, `^isnil\(github\.com/tendermint/tm-db\.Iterator\.Value\(param:iter\.cache\)\)$`)
		valid, _ := HasAtom(gs, `^github\.com/tendermint/tm-db\.Iterator\.Valid\(param:iter\.cache\)$`)
		extra := ""
		for _, g := range gs {
			k := g.Key()
			if strings.Contains(k, "len(") && strings.Contains(k, "Iterator.Value(") {
				extra = k
			}
		}
		r.Check(isNil && valid && extra == "", rule, "skipCacheDeletes/skips-exactly-nil-values", P.InstrPos(c), "Next under Valid && Value == nil", "the cache iterator is advanced under {"+strings.Join(atomStrings(gs), " ; ")+"}")
	}
}

// tracingInherited (C16): every layer of cache multistores traces with the writer and context of the layer below.
func tracingInherited(r *Run, rule string) {
	P := r.P
	r.Rule(rule, "the trace records every operation at every cache level: each construction of a cache multistore (cachemulti.NewStore / NewFromKVStore) passes on the trace writer and the trace context of the store it is made from — never nil — and NewFromKVStore keeps both and wraps each substore with CacheWrapWithTrace(writer, context) when a writer is set", 4)
	n := 0
	for _, f := range P.RepoFns {
		if len(f.Blocks) == 0 || f.Synthetic != "" {
			continue
		}
		for _, suffix := range []string{"store/cachemulti.NewFromKVStore", "store/cachemulti.NewStore"} {
			for _, c := range CallsIn(f, suffix) {
				if g := staticCallee(c.Common()); g == nil || short(g.String()) != suffix {
					continue
				}
				n++
				t := P.callTerm(c)
				w, tc := argTerm(t, 3).String(), argTerm(t, 4).String()
				okW := reMatch(`(^param:|\.)traceWriter$`, w)
				okC := reMatch(`(^param:|\.)traceContext$`, tc)
				r.Check(okW && okC, rule, "trace-passed-on@"+short(enclosingTop(f).String())+"→"+short(suffix), P.InstrPos(c), "(…, traceWriter, traceContext) of the parent", short(f.String())+" builds a cache multistore with trace writer "+oneLine(w)+" and context "+oneLine(tc)+": operations on that level are not traced")
			}
		}
	}
	if n < 4 {
		r.Viol(rule, "trace-passed-on/sites", "-", fmt.Sprintf("%d constructions of a cache multistore found (4 confirmed on the pinned tree)", n))
	}
	if f := r.fn("store/cachemulti.NewFromKVStore"); f != nil {
		cs := CallsIn(f, "store/types.CacheWrapper.CacheWrapWithTrace")
		r.Check(len(cs) > 0, rule, "NewFromKVStore/wraps-with-trace", P.Pos(f.Pos()), "CacheWrapWithTrace used", "NewFromKVStore no longer wraps the substores with a tracing cache")
		for _, c := range cs {
			t := P.callTerm(c)
			w, tc := argTerm(t, 1).String(), argTerm(t, 2).String()
			r.Check(strings.HasSuffix(w, "traceWriter") && strings.HasSuffix(tc, "traceContext"), rule, "NewFromKVStore/wraps-with-its-writer-and-context", P.InstrPos(c), "CacheWrapWithTrace(traceWriter, traceContext)", "substores are wrapped with "+oneLine(w)+", "+oneLine(tc))
		}
	}
}

func init() {
	for i := 1; i <= 20; i++ {
		p := fmt.Sprintf("C%02d", i)
		extend(p, func(r *Run) { failureGuardsMonotone(r, p+"-RFG1") })
	}
	extend("C08", func(r *Run) { genesisMissedEntriesKeepTheirIndex(r, "C08-R13") })
	extend("C12", func(r *Run) {
		versionedCacheFailsOnMissingVersion(r, "C12-R20")
		iavlDefaultHeightExists(r, "C12-R21")
	})
	extend("C14", func(r *Run) {
		iavlDefaultHeightExists(r, "C14-R21")
		versionedCacheFailsOnMissingVersion(r, "C14-R22")
		r.borrow("C15", "C15-R3", "C14-R23")
		tombstoneIsNil(r, "C14-R24")
	})
	extend("C15", func(r *Run) { tombstoneIsNil(r, "C15-R22") })
	extend("C16", func(r *Run) { tracingInherited(r, "C16-R17") })
	// a jailed validator is absent from Tendermint's set only if its removal is a zero-power update (C09)
	extend("C09", func(r *Run) { r.borrow("C05", "C05-R2", "C09-R15") })
}

// ---------------------------------------------------------------------------------------------------------------------
// RPN1 — panics are monotone. Consensus code runs inside BeginBlock / EndBlock / DeliverTx: a panic there halts the
// chain (or refuses the transaction), so a new cause of panic is a new refusal. For every repo function that panics
// on the pinned tree, pinned_panic_guards.json records the stable guards of each panic site (`pv -dump panicguards`);
// on the current tree every panic site whose argument is not the error of a call tested on the way (panic(err) after
// `err := f(x)` is the forwarding of f's refusal: Must-style wrappers, judged at f) must be protected by at least the
// guards of some pinned panic site of that function; a function that did not panic before must not start to.

//go:embed pinned_panic_guards.json
var pinnedPanicGuardsJSON []byte

type panicSite struct {
	fn     *ssa.Function
	in     *ssa.Panic
	guards []string
}

func (P *Prog) panicSiteGuards() map[string][]panicSite {
	out := map[string][]panicSite{}
	for _, f := range P.RepoFns {
		if len(f.Blocks) == 0 || f.Synthetic != "" || P.isNewHelper(enclosingTop(f)) {
			continue
		}
		for _, b := range f.Blocks {
			if b != f.Blocks[0] && !reachBlock(f.Blocks[0], b, nil) {
				continue
			}
			if len(b.Instrs) == 0 {
				continue
			}
			pn, ok := b.Instrs[len(b.Instrs)-1].(*ssa.Panic)
			if !ok {
				continue
			}
			// forwarding the failure of a call: not a cause of its own
			t := P.TermAt(pn.X, pn)
			forward := false
			if t != nil {
				for _, a := range P.LocalGuards(pn) {
					if !a.Pos && a.T.Op == "call" && a.T.Name == "isnil" && len(a.T.Args) == 1 && a.T.Args[0].String() == t.String() {
						forward = true
					}
				}
			}
			if forward {
				continue
			}
			n := short(f.String())
			sets := [][]Atom{P.LocalGuards(pn)}
			if len(b.Preds) > 1 && len(b.Preds) <= 6 {
				sets = nil
				for _, p := range b.Preds {
					k := 0
					for j, s := range p.Succs {
						if s == b {
							k = j
						}
					}
					sets = append(sets, P.EdgeGuards(p, k))
				}
			}
			for _, set := range sets {
				out[n] = append(out[n], panicSite{f, pn, P.stableOf(set)})
			}
		}
	}
	return out
}

// panicScope: the rule is armed for the module keepers, handlers and genesis code only — the code that runs inside
// BeginBlock / EndBlock / DeliverTx with consensus state in hand. In types/ and store/ the sanity panics are spelled
// over arithmetic and byte-slice terms that equivalent rewrites respell (six false alarms on 378 refactorings when the
// rule was armed everywhere), so there it would be a brittle proxy; a new panic there is not reported (round-11 miss
// C18_bb, an overflow pre-check in Uint.Mul that is one bit too strict, stays a miss).
func panicScope(f *ssa.Function) bool {
	top := enclosingTop(f)
	if top.Pkg == nil {
		return false
	}
	switch short(top.Pkg.Pkg.Path()) {
	case "x/pos", "x/pos/keeper", "x/gov", "x/gov/keeper", "x/auth", "x/auth/keeper":
		return true
	}
	return false
}

func dumpPanicGuards(P *Prog) {
	m := map[string][][]string{}
	for n, ps := range P.panicSiteGuards() {
		for _, s := range ps {
			g := s.guards
			if g == nil {
				g = []string{}
			}
			m[n] = append(m[n], g)
		}
	}
	for k := range m {
		sort.Slice(m[k], func(i, j int) bool { return strings.Join(m[k][i], "|") < strings.Join(m[k][j], "|") })
	}
	b, _ := json.MarshalIndent(m, "", " ")
	fmt.Println(string(b))
}

func panicGuardsMonotone(r *Run, rule string) {
	P := r.P
	r.Rule(rule, "no new way to halt: every panic site of a function in scope whose argument is not the tested error of a call (panic(err) forwards the callee's refusal) is still protected by at least the guards of one of that function's panic sites on the pinned tree (pinned_panic_guards.json); a function that did not panic before does not start to — inside BeginBlock / EndBlock / DeliverTx a panic stops the chain or refuses the transaction. Scope: functions that are anchors of this property's rules or lie in the property's packages", 1)
	var pinned map[string][][]string
	if err := json.Unmarshal(pinnedPanicGuardsJSON, &pinned); err != nil || len(pinned) == 0 {
		r.Undecided(rule, "table", "-", "pinned_panic_guards.json is empty or unreadable")
		return
	}
	cur := P.panicSiteGuards()
	var names []string
	for n := range cur {
		f := P.Fn(n)
		if f == nil {
			continue
		}
		if (r.Anchors[f] || r.Anchors[enclosingTop(f)] || inScope(r.Prop, f)) && panicScope(f) {
			names = append(names, n)
		}
	}
	sort.Strings(names)
	nSites, fresh := 0, 0
	for _, n := range names {
		want := pinned[n]
		for i, s := range cur[n] {
			viaNew := false
			for _, a := range P.LocalGuards(s.in) {
				if f := P.atomCalleeFn(a); f != nil && P.isNewHelper(enclosingTop(f)) {
					viaNew = true
				}
			}
			if viaNew {
				continue
			}
			nSites++
			hs := map[string]bool{}
			for _, g := range s.guards {
				hs[g] = true
			}
			_ = hs
			uni := atomUniverse(n, want)
			var unknown []string
			for _, g := range s.guards {
				if unstableAtom(g) {
					continue
				}
				if !uni[symKey(g)] {
					unknown = append(unknown, g)
				}
			}
			if len(unknown) > 0 || (len(want) == 0 && len(s.guards) == 0) {
				fresh++
				why := "the test(s) {" + strings.Join(unknown, " ; ") + "} decided nothing in this function on the pinned tree"
				if len(want) == 0 && len(unknown) == 0 {
					why = "the function did not panic on the pinned tree"
				}
				r.Viol(rule, fmt.Sprintf("new-panic:%s#%d", n, i), P.InstrPos(s.in), n+" now panics under {"+strings.Join(s.guards, " ; ")+"} — "+why+": a new way to halt the block or refuse the transaction")
			}
		}
	}
	r.OK(rule, "panic-sites-compared", "-", fmt.Sprintf("%d panic sites of %d functions in scope compared, %d new", nSites, len(names), fresh))
}

func init() {
	for i := 1; i <= 20; i++ {
		p := fmt.Sprintf("C%02d", i)
		extend(p, func(r *Run) { panicGuardsMonotone(r, p+"-RPN1") })
	}
	// the power-index key and the power a validator reports are one value (C06: a jailed validator leaves the index)
	extend("C06", func(r *Run) { r.borrow("C05", "C05-R3", "C06-R20") })
	// re-pruning after a restart with another pruning configuration is tolerated (C12: commit stays possible)
	extend("C12", func(r *Run) { r.borrow("C13", "C13-R4", "C12-R22") })
}
