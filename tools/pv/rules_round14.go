package main

import (
	"strings"

	"golang.org/x/tools/go/ssa"
)

// Rules from seeding round 10 and rules shared between properties whose clauses overlap.

// memIteratorDomain: the cache layer of a cache-wrapped store answers a range with the keys of that range (C15/C16):
// newMemIterator keeps exactly the items for which tm-db's IsKeyInDomain(key, start, end) holds — the same predicate
// the parent stores apply (an empty but non-nil end bound means "nothing", a nil one "unbounded").
func memIteratorDomain(r *Run, rule string) {
	P := r.P
	r.Rule(rule, "the cache layer filters a range with the same predicate as the stores below it: newMemIterator appends an item only under dbm.IsKeyInDomain(item.Key, start, end) with its own start / end arguments (a hand-written bound test treats an empty non-nil bound differently from the parent)", 2)
	f := r.fn("store/cachekv.newMemIterator")
	if f == nil {
		return
	}
	cs := CallsIn(f, "github.com/tendermint/tm-db.IsKeyInDomain")
	if len(cs) == 0 {
		r.Viol(rule, "newMemIterator/domain-predicate", P.Pos(f.Pos()), "newMemIterator no longer decides membership with dbm.IsKeyInDomain")
		return
	}
	var dom string
	for _, c := range cs {
		t := P.callTerm(c)
		a1, a2 := argTerm(t, 1).String(), argTerm(t, 2).String()
		r.Check(a1 == "param:start" && a2 == "param:end" && strings.HasSuffix(argTerm(t, 0).String(), ".Key"), rule, "newMemIterator/domain-predicate", P.InstrPos(c), "IsKeyInDomain(item.Key, start, end)", "membership is decided by "+oneLine(t.String()))
		dom = t.Name
	}
	n := 0
	Instrs(f, func(in ssa.Instruction) {
		c, ok := in.(*ssa.Call)
		if !ok {
			return
		}
		if b, isB := c.Call.Value.(*ssa.Builtin); !isB || b.Name() != "append" {
			return
		}
		n++
		has := false
		for _, a := range P.Guards(in, 0) {
			if a.Pos && a.T != nil && a.T.Name == dom {
				has = true
			}
		}
		r.Check(has, rule, "newMemIterator/kept-only-in-domain", P.InstrPos(in), "appended under IsKeyInDomain", "an item is kept under {"+strings.Join(atomStrings(P.Guards(in, 0)), " ; ")+"} ; required IsKeyInDomain(item.Key, start, end)")
	})
	if n == 0 {
		r.Viol(rule, "newMemIterator/kept-only-in-domain", P.Pos(f.Pos()), "newMemIterator no longer collects the items in the domain")
	}
}

func init() {
	extend("C16", func(r *Run) { memIteratorDomain(r, "C16-R16") })
	extend("C15", func(r *Run) { memIteratorDomain(r, "C15-R21") })
	// sign bytes cover every field only if the JSON names of a message's fields are distinct; the fee a message must
	// pay is part of what the ante handler enforces (C03)
	extend("C03", func(r *Run) { jsonNamesDistinct(r, "C03-R13") })
	pkgScope["C03"] = append(pkgScope["C03"], "x/pos/types")
	// what was committed is what a query of the store sees (C12): the height a store query is answered from, and the
	// cache layer flushing every dirty entry
	extend("C12", func(r *Run) {
		queryStoreHeight(r, "C12-R17")
		queryHeightDefaults(r, "C12-R18")
		r.borrow("C15", "C15-R3", "C12-R19")
	})
}
