package main

import (
	"fmt"
	"go/token"
	"strings"

	"golang.org/x/tools/go/ssa"
)

func init() {
	register("C05", checkC05)
}

const (
	stakedIt  = "types.KVStoreReversePrefixIterator(types.Ctx.KVStore(param:ctx, param:k.storeKey), global:x/pos/types.StakedValidatorsKey)"
	itValue   = "github.com/tendermint/tm-db.Iterator.Value(" + stakedIt + ")"
	loopVal   = posK + "mustGetValidator(param:k, param:ctx, " + itValue + ")"
	prevMap   = posK + "getPrevStatePowerMap(param:k, param:ctx)"
	sortedOld = "x/pos/keeper.sortNoLongerStakedValidators(" + prevMap + ")"
)

// powerIndexRules: C05-R1 (shared with C06-R6 and C09-R4).
func powerIndexRules(r *Run, rule string) {
	P := r.P
	r.Rule(rule, "power-index typestate: the only store.Set under the staked-power prefix is in SetStakedValidator and is dominated by IsStaked(validator) and !validator.Jailed; the only Delete is in deleteValidatorFromStakingSet; both key the entry by KeyForValidatorInStakingSet(validator) and the value is the validator's address", 6)
	checkStoreKeyWriters(r, rule, "x/pos/types", "StakedValidatorsKey", []string{posK + "SetStakedValidator", posK + "deleteValidatorFromStakingSet"})
	if f := r.fn(posK + "SetStakedValidator"); f != nil {
		n := 0
		for _, c := range CallsIn(f, "store/types.KVStore.Set") {
			n++
			t := P.callTerm(c)
			r.Check(argTerm(t, 1).String() == "x/pos/types.KeyForValidatorInStakingSet(param:validator)" && argTerm(t, 2).String() == "param:validator.Address", rule, "SetStakedValidator/entry", P.InstrPos(c), t.String(), "index entry is "+t.String()+" ; required key KeyForValidatorInStakingSet(validator), value validator.Address")
			r.requireAtoms(rule, "SetStakedValidator/insert", c, P.Guards(c, 1), []req{
				{"status=Staked", `^(\(x/pos/types\.Validator\)\.IsStaked\(param:validator\)|\(2 == .*param:validator.*Status.*\)|\(types\.StakeStatus\)\.Equal\(.*param:validator.*, 2\))$`},
				{"not-jailed", `^!(param:validator\.Jailed|\(x/pos/types\.Validator\)\.IsJailed\(param:validator\))$`},
			})
		}
		if n == 0 {
			r.Viol(rule, "SetStakedValidator/insert", P.Pos(f.Pos()), "SetStakedValidator no longer writes the index")
		}
		r.callersExactly(rule, "SetStakedValidator", r.edgesTo(f), []string{posK + "StakeValidator", posK + "UnjailValidator", posK + "removeValidatorTokens", "x/pos.InitGenesis"})
	}
	if f := r.fn(posK + "deleteValidatorFromStakingSet"); f != nil {
		for _, c := range CallsIn(f, "store/types.KVStore.Delete") {
			t := P.callTerm(c)
			r.Check(argTerm(t, 1).String() == "x/pos/types.KeyForValidatorInStakingSet(param:validator)", rule, "deleteValidatorFromStakingSet/key", P.InstrPos(c), t.String(), "deletes "+t.String())
			r.Check(len(P.Guards(c, 0)) == 0, rule, "deleteValidatorFromStakingSet/unconditional", P.InstrPos(c), "unconditional", "the delete is conditional")
		}
	}
	// IsStaked means status == Staked
	if f := r.fn(vT + "IsStaked"); f != nil {
		for _, ret := range Returns(f) {
			t := P.TermAt(ret.Results[0], ret).String()
			r.Check(t == "(types.StakeStatus).Equal(param:v.Status, 2)" || t == "(param:v.Status == 2)", rule, "Validator.IsStaked", P.InstrPos(ret), t, "IsStaked is "+t)
		}
	}
	if f := r.fn("(types.StakeStatus).Equal"); f != nil {
		for _, ret := range Returns(f) {
			t := P.TermAt(ret.Results[0], ret).String()
			r.Check(t == "(param:b == param:b2)" || t == "(param:b2 == param:b)", rule, "StakeStatus.Equal", P.InstrPos(ret), t, "StakeStatus.Equal is "+t)
		}
	}
}

func checkC05(r *Run) {
	P := r.P
	r.NotDecided("that the cumulative stream of updates equals the staked set after arbitrary histories (needs induction over blocks on top of the per-block clauses decided here)")
	r.NotDecided("ordering produced by the store iterator (IAVL, library)")
	r.NotDecided("tie-breaking by address at the MaxValidators cut-off beyond the key layout (power big-endian, inverted address)")

	powerIndexRules(r, "C05-R1")

	// ------------------------------------------------------------------ R2
	r.Rule("C05-R2", "UpdateTendermintValidators couples the diff with its memory: iterates the staked-power index in reverse, bounded by count < MaxValidators with count++ on every iteration; delete(prevStatePowerMap, addr) on every iteration; an update is appended exactly together with SetPrevStateValPower(addr, curPower); a zero-power update exactly together with DeletePrevStateValPower for keys of the sorted remainder of the previous-state map; jailed / zero-power sanity panics dominate", 12)
	if f := r.fn(posK + "UpdateTendermintValidators"); f != nil {
		isNext := CallTo("github.com/tendermint/tm-db.Iterator.Next")
		body := CallsIn(f, posK+"mustGetValidator")
		var bodyCall ssa.CallInstruction
		for _, c := range body {
			if argTerm(P.callTerm(c), 2).String() == itValue {
				bodyCall = c
			}
		}
		if bodyCall == nil {
			r.Viol("C05-R2", "UTV/loop-over-power-index", P.Pos(f.Pos()), "no mustGetValidator(iterator.Value()) over the reverse staked-power iterator found: the loop no longer walks the power index from highest to lowest")
		} else {
			r.OK("C05-R2", "UTV/loop-over-power-index", P.InstrPos(bodyCall), loopVal)
			r.requireAtoms("C05-R2", "UTV/loop-body", bodyCall, P.Guards(bodyCall, 0), []req{
				{"iterator-valid", `^` + q("github.com/tendermint/tm-db.Iterator.Valid("+stakedIt+")") + `$`},
				{"count<MaxValidators", `^\(phi\(.*\) < ` + q(posK+"GetParams(param:k, param:ctx).MaxValidators") + `\)$`},
			})
			// count++ on every iteration
			var inc ssa.Instruction
			Instrs(f, func(in ssa.Instruction) {
				b, ok := in.(*ssa.BinOp)
				if !ok || b.Op != token.ADD {
					return
				}
				if c, ok := b.Y.(*ssa.Const); ok && c.Value != nil && c.Value.ExactString() == "1" {
					if _, isPhi := b.X.(*ssa.Phi); isPhi && b.Type().String() == "int" {
						// is this the phi compared with MaxValidators?
						if refs := b.X.Referrers(); refs != nil {
							for _, u := range *refs {
								// count < max, count >= max, max > count, max <= count: any order test of the counter against the bound
								if cmp, ok := u.(*ssa.BinOp); ok && (cmp.Op == token.LSS || cmp.Op == token.GEQ || cmp.Op == token.GTR || cmp.Op == token.LEQ) {
									other := cmp.Y
									if other == ssa.Value(b.X) {
										other = cmp.X
									}
									if strings.Contains(P.TermAt(other, cmp).String(), "MaxValidators") {
										inc = in
									}
								}
							}
						}
					}
				}
			})
			if inc == nil {
				r.Viol("C05-R2", "UTV/count++", P.InstrPos(bodyCall), "the counter compared with MaxValidators is never incremented")
			} else {
				r.loopBodyAlways("C05-R2", "UTV/count++", bodyCall, func(in ssa.Instruction) bool { return in == inc }, isNext, "count++")
			}
			// delete from the previous-state map on every iteration, keyed by the iterated address
			del := func(in ssa.Instruction) bool {
				ci, ok := in.(ssa.CallInstruction)
				if !ok {
					return false
				}
				if op, n := calleeName(ci.Common()); op != "builtin" || n != "delete" {
					return false
				}
				t := P.callTerm(ci)
				return argTerm(t, 0).String() == prevMap && strings.Contains(argTerm(t, 1).String(), itValue)
			}
			r.loopBodyAlways("C05-R2", "UTV/delete-from-prev-map-every-iteration", bodyCall, del, isNext, "delete(prevStatePowerMap, iterated address)")
			// sanity panics dominate the rest of the body: guards of the delete include !Jailed and power != 0
			Instrs(f, func(in ssa.Instruction) {
				if del(in) {
					r.requireAtoms("C05-R2", "UTV/sanity", in, P.Guards(in, 0), []req{
						{"not-jailed", `^!` + q(loopVal+".Jailed") + `$`},
						{"power-nonzero", `^!\(` + q(vT+"PotentialConsensusPower("+loopVal+")") + ` == 0\)$`},
					})
				}
			})
		}
		// update <-> memory coupling
		curPower := vT + "ConsensusPower(" + loopVal + ")"
		var appendUpd, appendZero []ssa.CallInstruction
		Instrs(f, func(in ssa.Instruction) {
			ci, ok := in.(ssa.CallInstruction)
			if !ok {
				return
			}
			if op, n := calleeName(ci.Common()); op == "builtin" && n == "append" {
				a := argTerm(P.callTerm(ci), 1).String()
				if strings.Contains(a, "ABCIValidatorUpdateZero(") {
					appendZero = append(appendZero, ci)
				} else if strings.Contains(a, "ABCIValidatorUpdate(") {
					appendUpd = append(appendUpd, ci)
				}
			}
		})
		setP := CallsIn(f, posK+"SetPrevStateValPower")
		delP := CallsIn(f, posK+"DeletePrevStateValPower")
		r.Check(len(appendUpd) == 1 && len(setP) == 1, "C05-R2", "UTV/one-update-site", P.Pos(f.Pos()), "one power-update append and one SetPrevStateValPower", fmt.Sprintf("%d power-update appends and %d SetPrevStateValPower calls (expected 1 and 1)", len(appendUpd), len(setP)))
		r.Check(len(appendZero) == 1 && len(delP) == 1, "C05-R2", "UTV/one-removal-site", P.Pos(f.Pos()), "one zero-power append and one DeletePrevStateValPower", fmt.Sprintf("%d zero-power appends and %d DeletePrevStateValPower calls (expected 1 and 1)", len(appendZero), len(delP)))
		if len(appendUpd) == 1 && len(setP) == 1 {
			a, s := appendUpd[0], setP[0]
			at := argTerm(P.callTerm(a), 1).String()
			r.Check(at == "list("+vT+"ABCIValidatorUpdate("+loopVal+"))", "C05-R2", "UTV/update-is-iterated-validator", P.InstrPos(a), at, "the appended update is "+at)
			st := P.callTerm(s).String()
			want := posK + "SetPrevStateValPower(param:k, param:ctx, " + itValue + ", " + curPower + ")"
			r.Check(st == want, "C05-R2", "UTV/memory-records-sent-power", P.InstrPos(s), st, "memory write is "+st+" ; required "+want)
			r.Check(a.Block() == s.Block() || (Precedes(a, s) && sameGuards(P, a, s)), "C05-R2", "UTV/update⇔memory", P.InstrPos(a), "the update and the memory write happen under the same condition", "the power update and SetPrevStateValPower are not executed under the same condition (an update could be sent without being remembered, or vice versa)")
			// condition: !found || power changed
			r.requireCut("C05-R2", "UTV/update-only-if-new-or-changed", nil, a, "new-or-changed",
				`^!`+q(prevMap)+`\[.*\]#1$`, `^!bytes\.Equal\(`+q(prevMap)+`\[.*\]#0, .*MarshalBinaryLengthPrefixed\(param:k\.cdc, `+q(curPower)+`\)#0\)$`)
			// and conversely: if new or changed the update is always appended before Next
			for _, re := range []string{`^!` + q(prevMap) + `\[.*\]#1$`, `^!bytes\.Equal\(` + q(prevMap) + `\[`} {
				r.mustFollowEdge("C05-R2", "UTV/new-or-changed-always-updated:"+re[:12], f, re, func(in ssa.Instruction) bool { return in == ssa.Instruction(a) }, CallTo("github.com/tendermint/tm-db.Iterator.Next"), "the power update")
			}
		}
		if len(appendZero) == 1 && len(delP) == 1 {
			a, d := appendZero[0], delP[0]
			oldVal := posK + "mustGetValidator(param:k, param:ctx, " + sortedOld + "[(phi(-1, loop:"
			at := argTerm(P.callTerm(a), 1).String()
			r.Check(strings.HasPrefix(at, "list("+vT+"ABCIValidatorUpdateZero("+oldVal), "C05-R2", "UTV/removal-from-sorted-remainder", P.InstrPos(a), at, "zero-power update is built from "+at+" ; required: a key of sortNoLongerStakedValidators(prevStatePowerMap)")
			dt := argTerm(P.callTerm(d), 2).String()
			r.Check(strings.HasPrefix(dt, oldVal) && strings.HasSuffix(dt, ").Address"), "C05-R2", "UTV/removal-forgets-same-validator", P.InstrPos(d), dt, "DeletePrevStateValPower forgets "+dt)
			r.Check(a.Block() == d.Block(), "C05-R2", "UTV/removal⇔memory", P.InstrPos(a), "zero update and memory delete are in the same block", "the zero-power update and DeletePrevStateValPower are not in the same block")
		}
		// the map the removals come from is the one the loop deleted from (same value), sorted
		if c := r.oneCall("C05-R2", "UTV", f, "x/pos/keeper.sortNoLongerStakedValidators"); c != nil {
			r.Check(P.callTerm(c).String() == sortedOld, "C05-R2", "UTV/remainder-sorted", P.InstrPos(c), sortedOld, "remainder is "+P.callTerm(c).String())
			if bodyCall != nil {
				// sort happens after the loop: not reachable back to the loop body
				reach, _, _ := ReachWithout(f, c, func(in ssa.Instruction) bool { return in == ssa.Instruction(bodyCall) }, nil, nil)
				r.Check(!reach, "C05-R2", "UTV/remainder-after-loop", P.InstrPos(c), "computed after the index walk", "the remainder is computed before the index walk finished")
			}
		}
		// total power recorded iff there are updates
		if c := r.oneCall("C05-R2", "UTV", f, posK+"SetPrevStateValidatorsPower"); c != nil {
			ok, _ := HasAtom(P.Guards(c, 0), `^!\(0 == len\(`)
			r.Check(ok, "C05-R2", "UTV/total-power-when-updates", P.InstrPos(c), "guarded by len(updates) > 0", "SetPrevStateValidatorsPower guard changed: "+strings.Join(atomStrings(P.Guards(c, 0)), " ; "))
		}
	}
	// sortNoLongerStakedValidators really sorts (decided by the determinism lint too)
	if f := r.fn("x/pos/keeper.sortNoLongerStakedValidators"); f != nil {
		cs := append(CallsIn(f, "sort.SliceStable"), CallsIn(f, "sort.Slice")...)
		if len(cs) == 0 {
			r.Viol("C05-R2", "sortNoLongerStakedValidators/sorts", P.Pos(f.Pos()), "the keys of the previous-state map are returned without sorting (map order would decide the order of removals)")
		} else {
			for _, ret := range Returns(f) {
				r.Check(Precedes(cs[0], ret), "C05-R2", "sortNoLongerStakedValidators/sorts", P.InstrPos(cs[0]), "sorted before returning", "a return is not preceded by the sort")
			}
		}
	}
	// getPrevStatePowerMap reads the previous-state prefix
	if f := r.fn(posK + "getPrevStatePowerMap"); f != nil {
		if c := r.oneCall("C05-R2", "getPrevStatePowerMap", f, "types.KVStorePrefixIterator"); c != nil {
			t := P.callTerm(c).String()
			r.Check(strings.HasSuffix(t, "global:x/pos/types.PrevStateValidatorsPowerKey)"), "C05-R2", "getPrevStatePowerMap/prefix", P.InstrPos(c), t, "iterates "+t)
		}
	}
	checkStoreKeyWriters(r, "C05-R2", "x/pos/types", "PrevStateValidatorsPowerKey", []string{posK + "SetPrevStateValPower", posK + "DeletePrevStateValPower"})
	if f := r.fn(posK + "SetPrevStateValPower"); f != nil {
		r.callersExactly("C05-R2", "SetPrevStateValPower", r.edgesTo(f), []string{posK + "UpdateTendermintValidators", "x/pos.InitGenesis"})
	}
	if f := r.fn(posK + "DeletePrevStateValPower"); f != nil {
		r.callersExactly("C05-R2", "DeletePrevStateValPower", r.edgesTo(f), []string{posK + "UpdateTendermintValidators"})
	}

	// ------------------------------------------------------------------ R3
	r.Rule("C05-R3", "order-preserving index key: getStakedValPowerRankKey = prefix byte, 8 big-endian bytes of TokensToConsensusPower(StakedTokens), bit-inverted address; ParseValidatorPowerRankKey inverts the same bytes at the same offset; ConsensusPower uses the same TokensToConsensusPower", 7)
	checkPowerRankKey(r)

	// ------------------------------------------------------------------ R4
	r.Rule("C05-R4", "re-keying on stake change: removeValidatorTokens deletes the index entry computed from the validator before RemoveStakedTokens and inserts the one computed after", 3)
	if f := r.fn(posK + "removeValidatorTokens"); f != nil {
		d := r.oneCall("C05-R4", "removeValidatorTokens", f, posK+"deleteValidatorFromStakingSet")
		s := r.oneCall("C05-R4", "removeValidatorTokens", f, posK+"SetStakedValidator")
		if d != nil && s != nil {
			dt, st := argTerm(P.callTerm(d), 2).String(), argTerm(P.callTerm(s), 2).String()
			r.Check(dt == "param:v", "C05-R4", "removeValidatorTokens/deletes-old-key", P.InstrPos(d), dt, "deletes the key of "+dt+" ; required the validator before the change (param:v)")
			r.Check(st == vT+"RemoveStakedTokens(param:v, param:tokensToRemove)", "C05-R4", "removeValidatorTokens/inserts-new-key", P.InstrPos(s), st, "inserts the key of "+st+" ; required the validator after the change")
			r.Check(Precedes(d, s), "C05-R4", "removeValidatorTokens/delete-before-insert", P.InstrPos(s), "old entry removed first", "insert not preceded by the delete of the old entry")
		}
	}

	// ------------------------------------------------------------------ R5
	r.Rule("C05-R5", "EndBlocker returns the result of UpdateTendermintValidators, computed before unstakeAllMatureValidators; InitGenesis returns UpdateTendermintValidators' result when not exported", 3)
	if f := r.fn("x/pos/keeper.EndBlocker"); f != nil {
		r.orderedCalls("C05-R5", "EndBlocker", f, posK+"UpdateTendermintValidators", posK+"unstakeAllMatureValidators")
		for _, ret := range Returns(f) {
			t := P.TermAt(ret.Results[0], ret).String()
			r.Check(t == posK+"UpdateTendermintValidators(param:k, param:ctx)", "C05-R5", "EndBlocker/returns-updates", P.InstrPos(ret), t, "EndBlocker returns "+t)
		}
		for _, c := range CallsIn(f, posK+"UpdateTendermintValidators") {
			r.Check(len(P.Guards(c, 0)) == 0, "C05-R5", "EndBlocker/unconditional", P.InstrPos(c), "unconditional", "conditional")
		}
	}
	if f := r.fn("(x/pos.AppModule).EndBlock"); f != nil {
		for _, ret := range Returns(f) {
			t := P.TermAt(ret.Results[0], ret).String()
			r.Check(strings.Contains(t, "x/pos/keeper.EndBlocker(param:ctx, param:am.keeper)"), "C05-R5", "AppModule.EndBlock", P.InstrPos(ret), t, "pos AppModule.EndBlock returns "+t)
		}
	}
}

func sameGuards(P *Prog, a, b ssa.Instruction) bool {
	x, y := P.Guards(a, 0), P.Guards(b, 0)
	if len(x) != len(y) {
		return false
	}
	for i := range x {
		if x[i].Key() != y[i].Key() {
			return false
		}
	}
	return true
}

func checkPowerRankKey(r *Run) {
	P := r.P
	f := r.fn("x/pos/types.getStakedValPowerRankKey")
	if f != nil {
		if c := r.oneCall("C05-R3", "rankKey", f, "(encoding/binary.bigEndian).PutUint64"); c != nil {
			t := P.callTerm(c)
			r.Check(argTerm(t, 2).String() == "types.TokensToConsensusPower(param:validator.StakedTokens)", "C05-R3", "rankKey/power-bytes", P.InstrPos(c), t.String(), "power bytes are "+t.String()+" ; required big-endian TokensToConsensusPower(validator.StakedTokens)")
		}
		// prefix byte, power at [1:9], inverted address after
		var sawPrefix, sawInv bool
		var copies []string
		Instrs(f, func(in ssa.Instruction) {
			if st, ok := in.(*ssa.Store); ok {
				a, v := P.TermAt(st.Addr, st).String(), P.TermAt(st.Val, st).String()
				if (strings.HasSuffix(a, ")[0]") || strings.HasSuffix(a, "][0]")) && v == "global:x/pos/types.StakedValidatorsKey[0]" {
					sawPrefix = true
				}
				if strings.HasPrefix(v, "^types.CopyBytes(param:validator.Address)[") && strings.HasPrefix(a, "&types.CopyBytes(param:validator.Address)[") && a[1:] == v[1:] {
					sawInv = true
				}
			}
			if ci, ok := in.(ssa.CallInstruction); ok {
				if op, n := calleeName(ci.Common()); op == "builtin" && n == "copy" {
					copies = append(copies, P.callTerm(ci).String())
				}
			}
		})
		r.Check(sawPrefix, "C05-R3", "rankKey/prefix-byte", P.Pos(f.Pos()), "key[0] = StakedValidatorsKey[0]", "key[0] is not set from StakedValidatorsKey[0]")
		r.Check(sawInv, "C05-R3", "rankKey/address-inverted", P.Pos(f.Pos()), "every address byte is bit-inverted in place", "the address bytes are not bit-inverted (b = ^b) before being appended: ties would not break by address as documented")
		okPow, okAddr := false, false
		for _, c := range copies {
			if reMatch(`^copy\((?:makeslice\(.*\)|addr:makeslice\[_, 29, _\])\[1, 9, _\], addr:makeslice\[_, 8, _\]\)$`, c) {
				okPow = true
			}
			if reMatch(`^copy\((?:makeslice\(.*\)|addr:makeslice\[_, 29, _\])\[9, _, _\], types\.CopyBytes\(param:validator\.Address\)\)$`, c) {
				okAddr = true
			}
		}
		r.Check(okPow, "C05-R3", "rankKey/power-at-1..9", P.Pos(f.Pos()), "power bytes at key[1:9]", "power bytes are not copied to key[1:9]: "+strings.Join(copies, " | "))
		r.Check(okAddr, "C05-R3", "rankKey/address-at-9", P.Pos(f.Pos()), "inverted address at key[9:]", "inverted address not copied to key[9:]: "+strings.Join(copies, " | "))
	}
	if g := r.fn("x/pos/types.ParseValidatorPowerRankKey"); g != nil {
		ok := false
		Instrs(g, func(in ssa.Instruction) {
			if st, ok2 := in.(*ssa.Store); ok2 {
				a, v := P.TermAt(st.Addr, st).String(), P.TermAt(st.Val, st).String()
				if strings.HasPrefix(v, "^types.CopyBytes(param:key[9, _, _])[") && a[1:] == v[1:] {
					ok = true
				}
			}
		})
		r.Check(ok, "C05-R3", "parseRankKey/inverts-same-bytes", P.Pos(g.Pos()), "parser inverts key[9:]", "ParseValidatorPowerRankKey does not invert key[9:] (builder and parser disagree)")
	}
	if g := r.fn(vT + "PotentialConsensusPower"); g != nil {
		for _, ret := range Returns(g) {
			t := P.TermAt(ret.Results[0], ret).String()
			r.Check(t == "types.TokensToConsensusPower(param:v.StakedTokens)", "C05-R3", "PotentialConsensusPower", P.InstrPos(ret), t, "PotentialConsensusPower is "+t)
		}
	}
	consensusPowerShape(r, "C05-R3")
	if g := r.fn("types.TokensToConsensusPower"); g != nil {
		for _, ret := range Returns(g) {
			t := P.TermAt(ret.Results[0], ret).String()
			r.Check(t == "(types.Int).Int64((types.Int).Quo(param:tokens, global:types.PowerReduction))", "C05-R3", "TokensToConsensusPower", P.InstrPos(ret), t, "TokensToConsensusPower is "+t)
		}
	}
	if g := r.fn(vT + "ABCIValidatorUpdate"); g != nil {
		for _, ret := range Returns(g) {
			t := P.TermAt(ret.Results[0], ret).String()
			r.Check(strings.Contains(t, "Power="+vT+"ConsensusPower(param:v)") && strings.Contains(t, "PubKey=") && strings.Contains(t, "param:v.PublicKey"), "C05-R3", "ABCIValidatorUpdate", P.InstrPos(ret), t, "ABCIValidatorUpdate is "+t)
		}
	}
	if g := r.fn(vT + "ABCIValidatorUpdateZero"); g != nil {
		for _, ret := range Returns(g) {
			t := P.TermAt(ret.Results[0], ret).String()
			r.Check(!strings.Contains(t, "Power=") && strings.HasPrefix(t, "complit:") && strings.Contains(t, "param:v.PublicKey"), "C05-R3", "ABCIValidatorUpdateZero", P.InstrPos(ret), t, "ABCIValidatorUpdateZero is "+t)
		}
	}
}

// consensusPowerShape: ConsensusPower is 0 exactly for validators that are not Staked (C05-R3, C07-R12).
func consensusPowerShape(r *Run, rule string) {
	P := r.P
	if g := r.fn(vT + "ConsensusPower"); g != nil {
		// early returns or one result variable: judged per alternative
		for _, a := range P.RetAlternatives(g, 0) {
			t := a.T.String()
			gs := a.G
			if t == "0" {
				ok, _ := HasAtom(gs, `^!\(x/pos/types\.Validator\)\.IsStaked\(param:v\)$`)
				r.Check(ok, rule, "ConsensusPower/zero-iff-not-staked", P.InstrPos(a.Ret), "0 only when not staked", "returns 0 under "+strings.Join(atomStrings(gs), ";"))
			} else {
				ok, _ := HasAtom(gs, `^\(x/pos/types\.Validator\)\.IsStaked\(param:v\)$`)
				r.Check(ok && t == vT+"PotentialConsensusPower(param:v)", rule, "ConsensusPower/staked-power", P.InstrPos(a.Ret), t, "returns "+t+" under "+strings.Join(atomStrings(gs), ";"))
			}
		}
	}
}
