package main

import (
	"fmt"
	"go/types"
	"sort"
	"strings"

	"golang.org/x/tools/go/ssa"
)

// Rules added after the fourth round of seeded changes.

// lookupHelpers: "not found" is the only reason a lookup helper answers nil (C10-R8, C06-R12).
func lookupHelpers(r *Run, rule string) {
	P := r.P
	r.Rule(rule, "lookup helpers do not hide records: Keeper.Validator(ctx, addr) returns nil only when GetValidator found nothing, and otherwise the record GetValidator returned (callers such as rewardFromFees, the unjail and unstake handlers decide on the record's own status)", 2)
	f := r.fn(posK + "Validator")
	if f == nil {
		return
	}
	get := posK + "GetValidator(param:k, param:ctx, param:address)"
	for i, a := range P.RetAlternatives(f, 0) {
		t := a.T.String()
		key := fmt.Sprintf("Validator/alternative#%d", i)
		if t == "nil" {
			onlyNotFound := len(a.G) > 0
			for _, g := range a.G {
				if g.Via != "" {
					continue
				}
				if g.Key() != "!"+get+"#1" {
					onlyNotFound = false
				}
			}
			r.Check(onlyNotFound, rule, key+"/nil-only-if-not-found", P.InstrPos(a.Ret), "nil iff not found", "Validator() answers nil under {"+strings.Join(atomStrings(a.G), " ; ")+"} ; required: only when GetValidator reports not found (a record that exists would be treated as unknown by its callers)")
		} else {
			r.Check(t == get+"#0", rule, key+"/returns-the-record", P.InstrPos(a.Ret), t, "Validator() returns "+oneLine(t))
		}
	}
}

// freshAddressCopies: the removal list holds one fresh slice per map key (C05-R8).
func freshAddressCopies(r *Run, rule string) {
	P := r.P
	r.Rule(rule, "sortNoLongerStakedValidators stores a freshly allocated copy of each map key: the range variable is one variable for the whole loop (go 1.13 semantics), so a slice of it would make every entry alias the last key", 1)
	f := r.fn("x/pos/keeper.sortNoLongerStakedValidators")
	if f == nil {
		return
	}
	n := 0
	Instrs(f, func(in ssa.Instruction) {
		st, ok := in.(*ssa.Store)
		if !ok {
			return
		}
		ia, ok := st.Addr.(*ssa.IndexAddr)
		if !ok {
			return
		}
		if _, isSliceOfSlices := ia.X.Type().Underlying().(interface{ Elem() interface{} }); isSliceOfSlices {
			_ = isSliceOfSlices
		}
		a := P.TermAt(st.Addr, st).String()
		if !strings.HasPrefix(a, "&makeslice(len(param:prevState))[") {
			return
		}
		n++
		v := P.TermAt(st.Val, st).String()
		r.Check(strings.HasPrefix(v, "addr:makeslice["), rule, "sortNoLongerStaked/element-is-fresh-copy", P.InstrPos(st), v, "the list element is "+oneLine(v)+" ; required a freshly made slice filled by copy (a slice of the shared range variable aliases every entry to the last key)")
	})
	// the list may also be grown with append(list, element)
	Instrs(f, func(in ssa.Instruction) {
		c, ok := in.(*ssa.Call)
		if !ok {
			return
		}
		if b, isB := c.Call.Value.(*ssa.Builtin); !isB || b.Name() != "append" || len(c.Call.Args) != 2 {
			return
		}
		if _, isNested := c.Call.Args[0].Type().Underlying().(*types.Slice).Elem().Underlying().(*types.Slice); !isNested {
			return
		}
		n++
		v := argTerm(P.callTerm(c), 1).String()
		r.Check(strings.HasPrefix(v, "list(addr:makeslice[") || strings.HasPrefix(v, "list(makeslice("), rule, "sortNoLongerStaked/element-is-fresh-copy", P.InstrPos(c), v, "the appended element is "+oneLine(v)+" ; required a freshly made slice filled by copy")
	})
	if n == 0 {
		r.Viol(rule, "sortNoLongerStaked/element-is-fresh-copy", P.Pos(f.Pos()), "no element store into the result slice found")
	}
	if len(CallsIn(f, "copy")) == 0 {
		r.Viol(rule, "sortNoLongerStaked/copies-key", P.Pos(f.Pos()), "the map key is no longer copied into the fresh slice")
	}
}

// iterationCallbacksContinue: callbacks that walked the whole collection still do (C05-R9 and generic table below).
// For every closure with a boolean (stop) result defined in the scope packages, the set of constants it returns on the
// pinned tree is frozen by (enclosing function, ordinal): a callback that never stopped must not start to.
var pinnedNeverStop = map[string]int{
	// enclosing function -> number of never-stopping callbacks it defines (confirmed by reading)
	"x/pos.ExportGenesis":   3,
	"x/auth.InitGenesis":    1,
	"x/pos.ValidateGenesis": 0,
}

func iterationCallbacksContinue(r *Run, rule string) {
	P := r.P
	r.Rule(rule, "walks stay complete: the iteration callbacks of pos.ExportGenesis (missed-block arrays, signing infos, previous-state powers) and auth.InitGenesis (supply sum) return false (= continue) on every path", 2)
	for _, encl := range []string{"x/pos.ExportGenesis", "x/auth.InitGenesis"} {
		f := r.fn(encl)
		if f == nil {
			continue
		}
		var cls []*ssa.Function
		var walk func(g *ssa.Function)
		walk = func(g *ssa.Function) {
			for _, a := range g.AnonFuncs {
				cls = append(cls, a)
				walk(a)
			}
		}
		walk(f)
		// closures defined in helpers a refactoring split off this function count as its own
		for _, h := range P.RepoFns {
			if h.Parent() != nil || !P.isNewHelper(h) {
				continue
			}
			for _, pf := range P.pinnedCallersOf(h) {
				if enclosingTop(pf) == f {
					walk(h)
				}
			}
		}
		never := 0
		for _, c := range cls {
			res := c.Signature.Results()
			if res.Len() != 1 || res.At(0).Type().String() != "bool" {
				continue
			}
			allFalse := true
			for _, ret := range Returns(c) {
				if cl, _ := P.retClass(ret, 0); cl != "false" {
					allFalse = false
					r.Viol(rule, "callback-continues@"+short(c.String()), P.InstrPos(ret), short(c.String())+" (an iteration callback of "+encl+") can return stop=true: the walk ends early and the remaining entries are not exported / summed")
				}
			}
			if allFalse {
				never++
			}
		}
		want := pinnedNeverStop[encl]
		r.Check(never >= want, rule, "callbacks-never-stop@"+encl, P.Pos(f.Pos()), fmt.Sprintf("%d callbacks always continue", never), fmt.Sprintf("%s defines %d always-continuing callbacks, %d on the pinned tree", encl, never, want))
	}
}

// extraWriteSites: an existing (function → writer) pair does not grow a call site that is less guarded than every
// site it had (RWG3, part of the write-guards family).
func extraWriteSites(r *Run, rule string) {
	P := r.P
	r.Rule(rule, "no new, weaker-guarded write site: when a function calls a store-writing callee at more sites than on the pinned tree, every site is still protected by at least the guards of one pinned site of that pair (a duplicated call in a restructured branch is fine; a write under a new, different condition is a new write path)", 1)
	var pinned map[string][][]string
	if err := jsonUnmarshal(pinnedWriteGuardsJSON, &pinned); err != nil || len(pinned) == 0 {
		return
	}
	cur := map[string][]writeSite{}
	for _, s := range P.writeSites() {
		k := short(s.caller.String()) + " → " + s.label
		cur[k] = append(cur[k], s)
	}
	var keys []string
	for k := range cur {
		keys = append(keys, k)
	}
	sort.Strings(keys)
	n, bad := 0, 0
	for _, k := range keys {
		want := pinned[k]
		have := cur[k]
		if len(want) == 0 || len(have) <= len(want) {
			continue
		}
		s0 := have[0]
		if !(r.Anchors[s0.caller] || inScope(r.Prop, s0.caller) || (s0.callee != nil && (r.Anchors[s0.callee] || inScope(r.Prop, s0.callee)))) {
			continue
		}
		for i, s := range have {
			n++
			hs := map[string]bool{}
			for _, g := range s.guards {
				hs[g] = true
			}
			ok := false
			for _, w := range want {
				all := true
				for _, g := range w {
					if !hs[g] {
						all = false
					}
				}
				if all {
					ok = true
				}
			}
			if !ok {
				bad++
				r.Viol(rule, fmt.Sprintf("extra-write-site:%s#%d", k, i), P.InstrPos(s.site), k+": this pair had "+fmt.Sprint(len(want))+" call site(s) on the pinned tree and has "+fmt.Sprint(len(have))+" now; this one holds under {"+strings.Join(s.guards, " ; ")+"}, which covers none of the pinned sites' guards: the state change now also happens under a new condition")
			}
		}
	}
	r.OK(rule, "extra-sites-compared", "-", fmt.Sprintf("%d sites of grown pairs compared, %d weaker", n, bad))
}

func init() {
	extend("C07", func(r *Run) {
		r.Rule("C07-R12", "the power a queued burn is computed from: Validator.ConsensusPower is PotentialConsensusPower for a Staked validator (jailed or not) and 0 only when it is not Staked", 2)
		consensusPowerShape(r, "C07-R12")
		r.Rule("C07-R13", "a forced or finished unstake leaves no phantom stake: status Unstaked is assigned only to the record returned by RemoveStakedTokens(validator, validator.StakedTokens)", 2)
		unstakedRecordHasZeroStake(r, "C07-R13")
	})
	extend("C10", func(r *Run) { lookupHelpers(r, "C10-R8") })
	extend("C06", func(r *Run) { lookupHelpers(r, "C06-R12") })
	extend("C05", func(r *Run) {
		freshAddressCopies(r, "C05-R8")
		iterationCallbacksContinue(r, "C05-R9")
	})
	extend("C08", func(r *Run) { iterationCallbacksContinue(r, "C08-R8") })
	extend("C02", func(r *Run) { iterationCallbacksContinue(r, "C02-R14") })
	for i := 1; i <= 20; i++ {
		p := fmt.Sprintf("C%02d", i)
		extend(p, func(r *Run) { extraWriteSites(r, p+"-RWG3") })
	}
}

// iteratorBoundsPassThrough: wrappers hand the bounds down unchanged and in order (C16-R8, C01-R9, C15-R11).
func iteratorBoundsPassThrough(r *Run, rule string) {
	P := r.P
	r.Rule(rule, "sibling agreement of the store wrappers' iterators: tracekv, gaskv and cachekv call parent.Iterator(start, end) when ascending and parent.ReverseIterator(start, end) when descending — the same two bounds in the same order, on the wrapped store; iavl passes (start, end, ascending) to newIAVLIterator", 8)
	for _, w := range []struct{ fn, parent string }{
		{"(*store/tracekv.Store).iterator", "param:tkv.parent"}, {"(*store/gaskv.Store).iterator", "param:gs.parent"}, {"(*store/cachekv.Store).iterator", "param:store.parent"},
	} {
		f := r.fn(w.fn)
		if f == nil {
			continue
		}
		for _, m := range []string{"Iterator", "ReverseIterator"} {
			cs := CallsIn(f, "store/types.KVStore."+m)
			if len(cs) != 1 {
				r.Viol(rule, w.fn+"/"+m+"/one-call", P.Pos(f.Pos()), fmt.Sprintf("%s has %d calls of parent.%s (expected 1)", w.fn, len(cs), m))
				continue
			}
			t := P.callTerm(cs[0])
			want := "store/types.KVStore." + m + "(" + w.parent + ", param:start, param:end)"
			r.Check(t.String() == want, rule, w.fn+"/"+m+"/bounds", P.InstrPos(cs[0]), t.String(), w.fn+" calls "+t.String()+" ; required "+want+" (swapped or altered bounds make bounded iteration empty or wrong under this wrapper only)")
			// direction: Iterator under ascending, ReverseIterator under !ascending
			gs := P.Guards(cs[0], 0)
			asc, _ := HasAtom(gs, `^param:ascending$`)
			desc, _ := HasAtom(gs, `^!param:ascending$`)
			r.Check((m == "Iterator" && asc) || (m == "ReverseIterator" && desc), rule, w.fn+"/"+m+"/direction", P.InstrPos(cs[0]), "direction matches", w.fn+" calls parent."+m+" under {"+strings.Join(atomStrings(gs), " ; ")+"}")
		}
	}
	for _, w := range []struct{ fn, asc string }{{"(*store/iavl.Store).Iterator", "true"}, {"(*store/iavl.Store).ReverseIterator", "false"}} {
		f := r.fn(w.fn)
		if f == nil {
			continue
		}
		if c := r.oneCall(rule, w.fn, f, "store/iavl.newIAVLIterator"); c != nil {
			t := P.callTerm(c)
			ok := argTerm(t, 1).String() == "param:start" && argTerm(t, 2).String() == "param:end" && argTerm(t, 3).String() == w.asc
			r.Check(ok, rule, w.fn+"/bounds", P.InstrPos(c), "(start, end, "+w.asc+")", w.fn+" builds "+oneLine(t.String()))
		}
	}
}

// commitResetsBlockState: Commit leaves no per-block state behind (C01-R10, C11-R14).
func commitResetsBlockState(r *Run, rule string) {
	P := r.P
	r.Rule(rule, "nothing in memory outlives the block it belongs to: BaseApp.Commit writes the deliver state, commits the multistore, re-creates the check state from the committed header and sets app.deliverState = nil on every path from the commit to its return (a state kept across blocks accumulates gas and context for as long as the process lives — different on a restarted replica)", 2)
	f := r.fn("(*baseapp.BaseApp).Commit")
	if f == nil {
		return
	}
	var reset ssa.Instruction
	Instrs(f, func(in ssa.Instruction) {
		if st, ok := in.(*ssa.Store); ok && P.TermAt(st.Addr, st).String() == "&param:app.deliverState" && P.TermAt(st.Val, st).String() == "nil" {
			reset = in
		}
	})
	if reset == nil {
		r.Viol(rule, "Commit/deliverState-reset", P.Pos(f.Pos()), "Commit no longer sets app.deliverState = nil")
		return
	}
	if c := r.oneCall(rule, "Commit", f, "(*baseapp.BaseApp).setCheckState"); c != nil {
		r.OK(rule, "Commit/check-state-recreated", P.InstrPos(c), "setCheckState(header)")
	}
	if c := r.oneCall(rule, "Commit", f, "store/types.CommitMultiStore.Commit"); c != nil {
		// (the halt path returns before anything is committed and is not concerned)
		reach, _, path := ReachWithout(f, c, isReturn, func(in ssa.Instruction) bool { return in == reset }, nil)
		r.Check(!reach, rule, "Commit/deliverState-reset", P.InstrPos(reset), "reset on every path after cms.Commit", "a path from cms.Commit to the return does not reset deliverState: "+P.blockPathString(path))
	}
}

func init() {
	extend("C16", func(r *Run) { iteratorBoundsPassThrough(r, "C16-R8") })
	extend("C15", func(r *Run) { iteratorBoundsPassThrough(r, "C15-R11") })
	extend("C01", func(r *Run) {
		iteratorBoundsPassThrough(r, "C01-R9")
		commitResetsBlockState(r, "C01-R10")
	})
	extend("C11", func(r *Run) { commitResetsBlockState(r, "C11-R14") })
}
