package main

import (
	"go/types"
	"sort"
	"strings"

	"golang.org/x/tools/go/ssa"
)

// Edge is one resolved call from repo code. Callee is nil for a leaf that
// cannot be resolved to a function (library interface invoke): Label then
// names it ("invoke:<iface>.<method>").
type Edge struct {
	Caller *ssa.Function
	Site   ssa.CallInstruction
	Callee *ssa.Function
	Kind   string // static | cha | sig | slot | closure
	Label  string // resolved name of the callee (short)
}

// CallGraph is the repo call graph of DESIGN §2: static edges, CHA restricted
// to types declared in the repo, signature-based resolution of function values
// among address-taken repo functions, and the frozen slot table.
type CallGraph struct {
	P          *Prog
	Out        map[*ssa.Function][]*Edge
	In         map[*ssa.Function][]*Edge
	Unresolved []ssa.CallInstruction // dynamic calls in repo code with no candidate
	NEdges     int
	repoTypes  []types.Type
	addrTaken  []*ssa.Function
}

// slotTable: function-typed slots whose producers live in application wiring
// outside the repo. Key = short name of the named func type; values = repo
// functions that the (absent) application installs there. Re-resolved on every run.
var slotTable = map[string][]string{
	"types.BeginBlocker": {"(*types/module.Manager).BeginBlock"},
	"types.EndBlocker":   {"(*types/module.Manager).EndBlock"},
	"types.InitChainer":  {}, // InitChainer is written by the application (calls Manager.InitGenesis); see roots
	"types.Handler":      {"x/pos.NewHandler$1", "x/gov.NewHandler$1"},
	"types.AnteHandler":  {"x/auth.NewAnteHandler$1"},
	"types.Querier":      {"x/pos/keeper.NewQuerier$1", "x/gov/keeper.NewQuerier$1", "x/auth.NewQuerier$1"},
}

func (P *Prog) CG() *CallGraph {
	if P.cg != nil {
		return P.cg
	}
	g := &CallGraph{P: P, Out: map[*ssa.Function][]*Edge{}, In: map[*ssa.Function][]*Edge{}}
	// repo named types (and pointers to them) for restricted CHA
	for _, p := range P.Pkgs {
		sc := p.Types.Scope()
		for _, n := range sc.Names() {
			if tn, ok := sc.Lookup(n).(*types.TypeName); ok && !tn.IsAlias() {
				if _, isIface := tn.Type().Underlying().(*types.Interface); isIface {
					continue
				}
				g.repoTypes = append(g.repoTypes, tn.Type(), types.NewPointer(tn.Type()))
			}
		}
	}
	// address-taken repo functions
	taken := map[*ssa.Function]bool{}
	for _, fn := range P.RepoFns {
		InstrsRaw(fn, func(in ssa.Instruction) {
			if mc, ok := in.(*ssa.MakeClosure); ok {
				if f, ok := mc.Fn.(*ssa.Function); ok {
					taken[unwrapBound(P, f)] = true
				}
			}
			for _, op := range in.Operands(nil) {
				f, ok := (*op).(*ssa.Function)
				if !ok {
					continue
				}
				if ci, isCall := in.(ssa.CallInstruction); isCall && ci.Common().Value == ssa.Value(f) && !ci.Common().IsInvoke() {
					// used in call position: check it is not also an argument
					isArg := false
					for _, a := range ci.Common().Args {
						if a == ssa.Value(f) {
							isArg = true
						}
					}
					if !isArg {
						continue
					}
				}
				taken[unwrapBound(P, f)] = true
			}
		})
	}
	for _, names := range slotTable {
		for _, n := range names {
			if f := P.Fn(n); f != nil {
				taken[f] = true
			}
		}
	}
	for f := range taken {
		if f.Package() != nil && isRepoPkg(f.Package().Pkg) || f.Parent() != nil {
			g.addrTaken = append(g.addrTaken, f)
		}
	}
	sort.Slice(g.addrTaken, func(i, j int) bool { return g.addrTaken[i].String() < g.addrTaken[j].String() })

	for _, fn := range P.RepoFns {
		fn := fn
		InstrsRaw(fn, func(in ssa.Instruction) {
			ci, ok := in.(ssa.CallInstruction)
			if !ok {
				return
			}
			g.resolve(fn, ci)
		})
	}
	P.cg = g
	return g
}

// unwrapBound maps a bound-method wrapper / thunk to the declared method.
func unwrapBound(P *Prog, f *ssa.Function) *ssa.Function {
	if f.Synthetic != "" && f.Object() != nil {
		if fo, ok := f.Object().(*types.Func); ok {
			if d := P.SSA.FuncValue(fo); d != nil {
				return d
			}
		}
	}
	return f
}

func (g *CallGraph) add(e *Edge) {
	if e.Callee != nil {
		e.Callee = unwrapBound(g.P, e.Callee)
		e.Label = short(e.Callee.String())
	}
	g.Out[e.Caller] = append(g.Out[e.Caller], e)
	if e.Callee != nil {
		g.In[e.Callee] = append(g.In[e.Callee], e)
	}
	g.NEdges++
}

func (g *CallGraph) resolve(fn *ssa.Function, ci ssa.CallInstruction) {
	c := ci.Common()
	if c.IsInvoke() {
		iface, _ := c.Value.Type().Underlying().(*types.Interface)
		label := "invoke:" + typeStr(c.Value.Type()) + "." + c.Method.Name()
		// leaf edge so sinks can be matched at the call site
		g.add(&Edge{Caller: fn, Site: ci, Kind: "cha", Label: label})
		if iface == nil {
			return
		}
		chaSeen := map[*ssa.Function]bool{}
		for _, T := range g.repoTypes {
			if !types.Implements(T, iface) {
				continue
			}
			ms := g.P.SSA.MethodSets.MethodSet(T)
			sel := ms.Lookup(c.Method.Pkg(), c.Method.Name())
			if sel == nil {
				continue
			}
			// the value type and its pointer type usually resolve to the same declared method: count it once
			if m := g.P.SSA.MethodValue(sel); m != nil && !chaSeen[unwrapBound(g.P, m)] {
				chaSeen[unwrapBound(g.P, m)] = true
				g.add(&Edge{Caller: fn, Site: ci, Callee: m, Kind: "cha"})
			}
		}
		return
	}
	if f := staticCallee(c); f != nil {
		g.add(&Edge{Caller: fn, Site: ci, Callee: f, Kind: "static"})
		return
	}
	if _, ok := c.Value.(*ssa.Builtin); ok {
		return
	}
	// dynamic call of a function value
	sig, _ := c.Value.Type().Underlying().(*types.Signature)
	n := 0
	if named, ok := c.Value.Type().(*types.Named); ok {
		key := short(named.Obj().Pkg().Path()) + "." + named.Obj().Name()
		if names, ok := slotTable[key]; ok {
			for _, nm := range names {
				if f := g.P.Fn(nm); f != nil {
					g.add(&Edge{Caller: fn, Site: ci, Callee: f, Kind: "slot"})
					n++
				}
			}
		}
	}
	seen := map[*ssa.Function]bool{}
	for _, e := range g.Out[fn] {
		if e.Site == ci && e.Callee != nil {
			seen[e.Callee] = true
		}
	}
	for _, f := range g.addrTaken {
		if seen[f] {
			continue
		}
		fs := f.Signature
		if f.Signature.Recv() != nil {
			// method value: compare without receiver
			fs = types.NewSignatureType(nil, nil, nil, f.Signature.Params(), f.Signature.Results(), f.Signature.Variadic())
		}
		if sig != nil && types.Identical(fs, sig) {
			g.add(&Edge{Caller: fn, Site: ci, Callee: f, Kind: "sig"})
			n++
		}
	}
	if n == 0 {
		g.Unresolved = append(g.Unresolved, ci)
		g.add(&Edge{Caller: fn, Site: ci, Kind: "dyn", Label: "dyn:" + short(types.TypeString(c.Value.Type(), nil))})
	}
}

// IsRepoFn reports whether fn's body belongs to the repo (so traversal may descend into it).
func (P *Prog) IsRepoFn(fn *ssa.Function) bool {
	if fn == nil {
		return false
	}
	for f := fn; f != nil; f = f.Parent() {
		if f.Package() != nil {
			return isRepoPkg(f.Package().Pkg)
		}
	}
	return false
}

// Reach computes the repo functions reachable from roots. stop(fn) prevents
// traversal out of fn (gate). It returns, for every reached function, the edge
// through which it was first reached (BFS: shortest call paths).
func (g *CallGraph) Reach(roots []*ssa.Function, stop func(*ssa.Function) bool) map[*ssa.Function]*Edge {
	reached := map[*ssa.Function]*Edge{}
	var work []*ssa.Function
	for _, r := range roots {
		if r == nil {
			continue
		}
		if _, ok := reached[r]; !ok {
			reached[r] = nil
			work = append(work, r)
		}
	}
	for len(work) > 0 {
		f := work[0]
		work = work[1:]
		if stop != nil && stop(f) {
			continue
		}
		// closures defined in f execute in f's dynamic extent only if called or passed; they are
		// reached through MakeClosure flow (sig edges); additionally treat a closure created in f as
		// reachable (deferred funcs, callbacks handed to library code such as sort.Slice).
		for _, a := range f.AnonFuncs {
			if _, ok := reached[a]; !ok {
				reached[a] = &Edge{Caller: f, Callee: a, Kind: "closure", Label: short(a.String())}
				work = append(work, a)
			}
		}
		for _, e := range g.Out[f] {
			if e.Callee == nil || !g.P.IsRepoFn(e.Callee) {
				continue
			}
			if _, ok := reached[e.Callee]; !ok {
				reached[e.Callee] = e
				work = append(work, e.Callee)
			}
		}
	}
	return reached
}

// PathTo renders the call path by which fn was reached.
func (g *CallGraph) PathTo(reached map[*ssa.Function]*Edge, fn *ssa.Function) string {
	var parts []string
	cur := fn
	for i := 0; cur != nil && i < 64; i++ {
		parts = append([]string{short(cur.String())}, parts...)
		e := reached[cur]
		if e == nil {
			break
		}
		cur = e.Caller
	}
	return strings.Join(parts, " → ")
}

// Callers returns the distinct repo functions that have a (resolved) call site for fn.
func (g *CallGraph) Callers(fn *ssa.Function) []*ssa.Function {
	seen := map[*ssa.Function]bool{}
	var out []*ssa.Function
	for _, e := range g.In[fn] {
		if !seen[e.Caller] {
			seen[e.Caller] = true
			out = append(out, e.Caller)
		}
	}
	sort.Slice(out, func(i, j int) bool { return out[i].String() < out[j].String() })
	return out
}

// CallersByLabel returns all repo functions that have a call edge whose label ends with suffix
// (works for library callees and interface invokes as well as repo functions).
func (g *CallGraph) SitesByLabel(match func(label string) bool) []*Edge {
	var out []*Edge
	for _, fn := range g.P.RepoFns {
		for _, e := range g.Out[fn] {
			if match(e.Label) {
				out = append(out, e)
			}
		}
	}
	return out
}

func fnNames(fs []*ssa.Function) []string {
	var out []string
	for _, f := range fs {
		out = append(out, short(f.String()))
	}
	sort.Strings(out)
	return out
}

// enclosingTop returns the outermost named function containing fn.
func enclosingTop(fn *ssa.Function) *ssa.Function {
	for fn.Parent() != nil {
		fn = fn.Parent()
	}
	return fn
}
