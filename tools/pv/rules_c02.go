package main

import (
	"fmt"
	"regexp"
	"strings"

	"golang.org/x/tools/go/ssa"
)

func init() { register("C02", checkC02) }

func q(s string) string { return regexp.QuoteMeta(s) }

const (
	bankK   = "(x/auth/keeper.Keeper)."
	modAcc  = "(x/auth/keeper.Keeper).GetModuleAccount(param:k, param:ctx, param:moduleName)"
	modAddr = "x/auth/exported.ModuleAccountI.GetAddress(" + modAcc + ")"
)

func checkC02(r *Run) {
	P := r.P
	g := P.CG()
	r.NotDecided("that Coins.Add/Sub are arithmetically inverse and exact (C18, numeric)")
	r.NotDecided("the sum over all accounts as a state invariant across histories (follows from the per-operation clauses only by induction, which is argued in DESIGN.md, not computed)")
	r.Assumption("library amino encoding of accounts and supply is faithful")

	// ------------------------------------------------------------------ R1
	r.Rule("C02-R1", "only MintCoins/BurnCoins (and auth genesis) write the supply record: direct callers of Keeper.SetSupply, SupplyI.Inflate, SupplyI.Deflate, Supply.SetTotal are the vetted sets", 4)
	if f := r.fn(bankK + "SetSupply"); f != nil {
		r.callersExactly("C02-R1", "SetSupply", r.edgesTo(f), []string{bankK + "MintCoins", bankK + "BurnCoins", "x/auth.InitGenesis"})
	}
	r.callersExactly("C02-R1", "Inflate", r.edgesToLabel(`^invoke:x/auth/exported\.SupplyI\.Inflate$`), []string{bankK + "MintCoins"})
	r.callersExactly("C02-R1", "Deflate", r.edgesToLabel(`^invoke:x/auth/exported\.SupplyI\.Deflate$`), []string{bankK + "BurnCoins"})
	r.callersExactly("C02-R1", "SetTotal", r.edgesToLabel(`^invoke:x/auth/exported\.SupplyI\.SetTotal$`), []string{"(x/auth/types.Supply).Inflate", "(x/auth/types.Supply).Deflate"})
	// the supply key is written only by SetSupply
	checkStoreKeyWriters(r, "C02-R1", "x/auth/types", "SupplyKeyPrefix", []string{bankK + "SetSupply"})

	// ------------------------------------------------------------------ R2
	r.Rule("C02-R2", "balances are written only through the bank: Account.SetCoins is called only by Keeper.SetCoins (and the pos genesis pool bootstrap); Keeper.SetCoins only by AddCoins/SubtractCoins; those only by SendCoins/MintCoins/BurnCoins; writers of the Coins field of BaseAccount are its own SetCoins and constructors", 8)
	r.callersExactly("C02-R2", "Account.SetCoins", r.edgesToLabel(`^invoke:x/auth/exported\.(Account|ModuleAccountI)\.SetCoins$`),
		[]string{bankK + "SetCoins", "x/pos.InitGenesis"})
	if f := r.fn(bankK + "SetCoins"); f != nil {
		r.callersExactly("C02-R2", "Keeper.SetCoins", r.edgesTo(f), []string{bankK + "AddCoins", bankK + "SubtractCoins"})
	}
	if f := r.fn(bankK + "AddCoins"); f != nil {
		r.callersExactly("C02-R2", "Keeper.AddCoins", r.edgesTo(f), []string{bankK + "SendCoins", bankK + "MintCoins"})
	}
	if f := r.fn(bankK + "SubtractCoins"); f != nil {
		r.callersExactly("C02-R2", "Keeper.SubtractCoins", r.edgesTo(f), []string{bankK + "SendCoins", bankK + "BurnCoins"})
	}
	// direct field writers of BaseAccount.Coins
	checkFieldWriters(r, "C02-R2", "x/auth/types", "BaseAccount", "Coins", []string{"(*x/auth/types.BaseAccount).SetCoins", "x/auth/types.NewBaseAccount", "x/auth/types.ProtoBaseAccount", "(*x/auth/types.BaseAccount).UnmarshalYAML", "(*x/auth/types.BaseAccount).UnmarshalJSON"})
	// pos genesis bootstrap is not reachable from block execution roots other than InitGenesis
	if ig := r.fn("x/pos.InitGenesis"); ig != nil {
		roots := []*ssa.Function{}
		for _, n := range []string{"x/pos/keeper.BeginBlocker", "x/pos/keeper.EndBlocker", "x/pos.NewHandler$1", "x/gov.NewHandler$1", "x/auth.NewAnteHandler$1"} {
			if f := r.fn(n); f != nil {
				roots = append(roots, f)
			}
		}
		reached := g.Reach(roots, nil)
		_, bad := reached[ig]
		r.Check(!bad, "C02-R2", "pos.InitGenesis/genesis-only", P.Pos(ig.Pos()), "the pool bootstrap (direct SetCoins) is unreachable from block/tx execution", "pos.InitGenesis (direct balance write) is reachable from block/tx execution: "+g.PathTo(reached, ig))
		r.Stats["C02_functions_reachable_from_block_roots"] = len(reached)
	}

	// ------------------------------------------------------------------ R3
	r.Rule("C02-R3", "each mint/burn/send changes both sides by the same amount: MintCoins adds amt to the module account and inflates the supply by the same amt, SetSupply only after AddCoins succeeded; BurnCoins symmetric; SendCoins subtracts amt from `from` then adds the same amt to `to`", 12)
	if f := r.fn(bankK + "MintCoins"); f != nil {
		checkMintBurn(r, f, "MintCoins", "AddCoins", "Inflate", "minter")
	}
	if f := r.fn(bankK + "BurnCoins"); f != nil {
		checkMintBurn(r, f, "BurnCoins", "SubtractCoins", "Deflate", "burner")
	}
	sendCoinsShape(r, "C02-R3")
	// the three module-send wrappers forward their amount and resolve the module address themselves
	for _, w := range []struct{ fn, from, to string }{
		{"SendCoinsFromModuleToAccount", `(x/auth/keeper.Keeper).GetModuleAddress(param:k, param:senderModule)`, `param:recipientAddr`},
		{"SendCoinsFromModuleToModule", `(x/auth/keeper.Keeper).GetModuleAddress(param:k, param:senderModule)`, `x/auth/exported.ModuleAccountI.GetAddress((x/auth/keeper.Keeper).GetModuleAccount(param:k, param:ctx, param:recipientModule))`},
		{"SendCoinsFromAccountToModule", `param:senderAddr`, `x/auth/exported.ModuleAccountI.GetAddress((x/auth/keeper.Keeper).GetModuleAccount(param:k, param:ctx, param:recipientModule))`},
	} {
		f := r.fn(bankK + w.fn)
		if f == nil {
			continue
		}
		if c := r.oneCall("C02-R3", w.fn, f, bankK+"SendCoins"); c != nil {
			tt := P.callTerm(c)
			if g := enclosingTop(c.Parent()); g != f {
				// the forwarding moved into a function of the pinned tree that f newly calls: read its SendCoins call
				// with f's arguments in place of its parameters
				for _, site := range CallsIn(f, short(g.String())) {
					m := map[string]*Term{}
					for i, p := range g.Params {
						m[pinnedParamName(p)] = argTerm(P.callTerm(site), i)
					}
					tt = tt.Subst(m)
				}
			}
			t := tt.String()
			want := bankK + "SendCoins(param:k, param:ctx, " + w.from + ", " + w.to + ", param:amt)"
			r.Check(t == want, "C02-R3", w.fn+"/forwards", P.InstrPos(c), t, "forwards "+t+" ; required "+want)
		}
	}
	// Supply.Inflate/Deflate really add/subtract their argument
	for _, w := range []struct{ fn, op string }{{"Inflate", "Add"}, {"Deflate", "Sub"}} {
		f := r.fn("(x/auth/types.Supply)." + w.fn)
		if f == nil {
			continue
		}
		for _, ret := range Returns(f) {
			t := P.TermAt(ret.Results[0], ret).String()
			want := "upd(param:supply, Total=(types.Coins)." + w.op + "(param:supply.Total, param:amount))"
			ok := t == want || strings.Contains(t, "(types.Coins)."+w.op+"(param:supply.Total, param:amount)")
			r.Check(ok, "C02-R3", "Supply."+w.fn, P.InstrPos(ret), t, "Supply."+w.fn+" returns "+t+" ; required total "+w.op+" amount")
		}
	}

	// ------------------------------------------------------------------ R4
	r.Rule("C02-R4", "overdraft and validity guards dominate the balance writes: SubtractCoins writes only if amt.IsValid and spendable.SafeSub(amt) has no negative; AddCoins only if amt.IsValid and the sum has no negative; SetCoins only if amt.IsValid", 6)
	if f := r.fn(bankK + "SubtractCoins"); f != nil {
		if c := r.oneCall("C02-R4", "SubtractCoins", f, bankK+"SetCoins"); c != nil {
			r.requireAtoms("C02-R4", "SubtractCoins/write", c, P.Guards(c, 0), []req{
				{"amt-valid", `^\(types\.Coins\)\.IsValid\(param:amt\)$`},
				{"no-overdraft", `^!\(types\.Coins\)\.SafeSub\(.*x/auth/exported\.Account\.SpendableCoins\(\(x/auth/keeper\.Keeper\)\.GetAccount\(param:k, param:ctx, param:addr\).*, param:amt\)#1$`},
			})
			t := P.callTerm(c).String()
			ok := reMatch(`^`+q(bankK+"SetCoins(param:k, param:ctx, param:addr, (types.Coins).Sub(")+`.*x/auth/exported\.Account\.GetCoins\(\(x/auth/keeper\.Keeper\)\.GetAccount\(param:k, param:ctx, param:addr\)\).*, param:amt\)\)$`, t)
			r.Check(ok, "C02-R4", "SubtractCoins/new-balance", P.InstrPos(c), t, "new balance is "+t+" ; required SetCoins(addr, oldCoins(addr).Sub(amt))")
		}
	}
	if f := r.fn(bankK + "AddCoins"); f != nil {
		if c := r.oneCall("C02-R4", "AddCoins", f, bankK+"SetCoins"); c != nil {
			r.requireAtoms("C02-R4", "AddCoins/write", c, P.Guards(c, 0), []req{
				{"amt-valid", `^\(types\.Coins\)\.IsValid\(param:amt\)$`},
				{"no-negative", `^!\(types\.Coins\)\.IsAnyNegative\(\(types\.Coins\)\.Add\(` + q(bankK+"GetCoins(param:k, param:ctx, param:addr)") + `, param:amt\)\)$`},
			})
			t := P.callTerm(c).String()
			want := bankK + "SetCoins(param:k, param:ctx, param:addr, (types.Coins).Add(" + bankK + "GetCoins(param:k, param:ctx, param:addr), param:amt))"
			r.Check(t == want, "C02-R4", "AddCoins/new-balance", P.InstrPos(c), t, "new balance is "+t+" ; required "+want)
		}
	}
	if f := r.fn(bankK + "SetCoins"); f != nil {
		for _, c := range CallsIn(f, ".SetCoins") {
			if _, n := calleeName(c.Common()); !strings.HasPrefix(n, "x/auth/exported.") {
				continue
			}
			r.requireAtoms("C02-R4", "SetCoins/write", c, P.Guards(c, 0), []req{{"amt-valid", `^\(types\.Coins\)\.IsValid\(param:amt\)$`}})
			t := P.callTerm(c)
			r.Check(argTerm(t, 1).String() == "param:amt", "C02-R4", "SetCoins/stores-amt", P.InstrPos(c), t.String(), "stores "+argTerm(t, 1).String()+" instead of amt")
		}
		if c := r.oneCall("C02-R4", "SetCoins", f, bankK+"SetAccount"); c != nil {
			r.OK("C02-R4", "SetCoins/persists", P.InstrPos(c), "account is persisted after SetCoins")
		}
	}

	// ------------------------------------------------------------------ R5
	r.Rule("C02-R5", "supply changes only by an explicit award mint or a slash/forced-unstake/DAO burn: callers of MintCoins = {pos.mint, gov.InitGenesis}; of BurnCoins = {pos.burnStakedTokens, gov.DAOBurn}; mint <- mintValidatorAwards <- BeginBlocker; burnStakedTokens <- {slash, ForceValidatorUnstake}", 6)
	if f := r.fn(bankK + "MintCoins"); f != nil {
		r.callersExactly("C02-R5", "MintCoins", r.edgesTo(f), []string{"(x/pos/keeper.Keeper).mint", "(x/gov/keeper.Keeper).InitGenesis"})
	}
	if f := r.fn(bankK + "BurnCoins"); f != nil {
		r.callersExactly("C02-R5", "BurnCoins", r.edgesTo(f), []string{"(x/pos/keeper.Keeper).burnStakedTokens", "(x/gov/keeper.Keeper).DAOBurn"})
	}
	if f := r.fn("(x/pos/keeper.Keeper).mint"); f != nil {
		r.callersExactly("C02-R5", "pos.mint", r.edgesTo(f), []string{"(x/pos/keeper.Keeper).mintValidatorAwards"})
	}
	if f := r.fn("(x/pos/keeper.Keeper).mintValidatorAwards"); f != nil {
		r.callersExactly("C02-R5", "pos.mintValidatorAwards", r.edgesTo(f), []string{"x/pos/keeper.BeginBlocker"})
	}
	if f := r.fn("(x/pos/keeper.Keeper).burnStakedTokens"); f != nil {
		r.callersExactly("C02-R5", "pos.burnStakedTokens", r.edgesTo(f), []string{"(x/pos/keeper.Keeper).slash", "(x/pos/keeper.Keeper).ForceValidatorUnstake"})
	}

	// accounts are persisted only by the vetted writers, and a module account is created only when no account exists at its address
	if f := r.fn(bankK + "SetAccount"); f != nil {
		r.callersExactly("C02-R2", "Keeper.SetAccount", r.edgesTo(f), []string{bankK + "SetCoins", bankK + "SetModuleAccount", "x/auth.InitGenesis", "(x/gov/keeper.Keeper).InitGenesis"})
	}
	if f := r.fn(bankK + "SetModuleAccount"); f != nil {
		r.callersExactly("C02-R2", "Keeper.SetModuleAccount", r.edgesTo(f), []string{bankK + "GetModuleAccountAndPermissions", "x/pos.InitGenesis", "(x/gov/keeper.Keeper).InitGenesis"})
	}
	if f := r.fn(bankK + "GetModuleAccountAndPermissions"); f != nil {
		if c := r.oneCall("C02-R2", "GetModuleAccountAndPermissions", f, bankK+"SetModuleAccount"); c != nil {
			r.requireAtoms("C02-R2", "GetModuleAccountAndPermissions/create", c, P.Guards(c, 0), []req{
				{"only-when-absent", `^isnil\(` + q(bankK+"GetAccount(param:k, param:ctx, "+bankK+"GetModuleAddressAndPermissions(param:k, param:moduleName)#0)") + `\)$`},
			})
			got := argTerm(P.callTerm(c), 2).String()
			r.Check(strings.Contains(got, "x/auth/types.NewEmptyModuleAccount(param:moduleName"), "C02-R2", "GetModuleAccountAndPermissions/creates-empty", P.InstrPos(c), got, "creates "+got+" ; required a new empty module account")
		}
	}
	checkStoreKeyWriters(r, "C02-R2", "x/auth/types", "AddressStoreKeyPrefix", []string{bankK + "SetAccount", bankK + "RemoveAccount"})
	if f := r.fn(bankK + "RemoveAccount"); f != nil {
		r.callersExactly("C02-R2", "Keeper.RemoveAccount", r.edgesTo(f), []string{})
	}

	// ------------------------------------------------------------------ R7
	r.Rule("C02-R7", "a slash burns from the pool exactly what it removes from the validator record (same SSA term for removeValidatorTokens and burnStakedTokens); a forced unstake burns exactly the record's remaining stake", 2)
	if f := r.fn("(x/pos/keeper.Keeper).slash"); f != nil {
		rm, bn := CallsIn(f, "(x/pos/keeper.Keeper).removeValidatorTokens"), CallsIn(f, "(x/pos/keeper.Keeper).burnStakedTokens")
		if len(rm) == 1 && len(bn) == 1 {
			a, b := argTerm(P.callTerm(rm[0]), 3).String(), argTerm(P.callTerm(bn[0]), 2).String()
			r.Check(a == b, "C02-R7", "slash/removed≡burned", P.InstrPos(bn[0]), "same term", "removeValidatorTokens takes "+a+" but burnStakedTokens burns "+b+": supply and pool change by an amount other than the stake removed")
		} else {
			r.Viol("C02-R7", "slash/removed≡burned", P.Pos(f.Pos()), "slash no longer has exactly one stake reduction and one pool burn")
		}
	}
	if f := r.fn("(x/pos/keeper.Keeper).ForceValidatorUnstake"); f != nil {
		if c := r.oneCall("C02-R7", "ForceValidatorUnstake", f, "(x/pos/keeper.Keeper).burnStakedTokens"); c != nil {
			got := argTerm(P.callTerm(c), 2).String()
			r.Check(got == "param:validator.StakedTokens", "C02-R7", "ForceValidatorUnstake/burns-recorded-stake", P.InstrPos(c), got, "burns "+got)
		}
	}

	// ------------------------------------------------------------------ R6
	r.Rule("C02-R6", "an award mints exactly what it forwards (= C10-R2): in pos.mint the amount given to MintCoins and the amount sent on from the staked pool are the same term, same module", 2)
	checkMintPair(r, "C02-R6")
}

// checkMintBurn verifies the shape of MintCoins / BurnCoins.
// mintBurnRule is the rule id checkMintBurn reports under (C02-R3 by default; C10 and C07 share the instances).
var mintBurnRule = "C02-R3"

func checkMintBurn(r *Run, f *ssa.Function, name, balOp, supOp, perm string) {
	P := r.P
	bal := r.oneCall(mintBurnRule, name, f, bankK+balOp)
	sup := r.oneCall(mintBurnRule, name, f, "x/auth/exported.SupplyI."+supOp)
	set := r.oneCall(mintBurnRule, name, f, bankK+"SetSupply")
	if bal == nil || sup == nil || set == nil {
		return
	}
	bt := P.callTerm(bal).String()
	want := bankK + balOp + "(param:k, param:ctx, " + modAddr + ", param:amt)"
	r.Check(bt == want, mintBurnRule, name+"/balance-side", P.InstrPos(bal), bt, "balance side is "+bt+" ; required "+want)
	st := P.callTerm(sup).String()
	wantS := "x/auth/exported.SupplyI." + supOp + "(" + bankK + "GetSupply(param:k, param:ctx), param:amt)"
	r.Check(st == wantS, mintBurnRule, name+"/supply-side", P.InstrPos(sup), st, "supply side is "+st+" ; required "+wantS)
	tt := P.callTerm(set).String()
	wantT := bankK + "SetSupply(param:k, param:ctx, " + wantS + ")"
	r.Check(tt == wantT, mintBurnRule, name+"/supply-written", P.InstrPos(set), tt, "SetSupply receives "+tt+" ; required "+wantT)
	r.requireAtoms(mintBurnRule, name+"/SetSupply", set, P.Guards(set, 0), []req{
		{"balance-op-succeeded", `^isnil\(` + q(want+"#1") + `\)$`},
	})
	r.requireAtoms("C02-R4", name+"/balance-write", bal, P.Guards(bal, 0), []req{
		{"module-account-exists", `^!isnil\(` + q(modAcc) + `\)$`},
		{"has-" + perm + "-permission", `^x/auth/exported\.ModuleAccountI\.HasPermission\(` + q(modAcc) + `, "` + perm + `"\)$`},
	})
	// every success return happens after the supply write
	for i, ret := range P.successReturns(f, 0, "nil") {
		ok := Precedes(set, ret)
		r.Check(ok, mintBurnRule, fmt.Sprintf("%s/success-return#%d/after-SetSupply", name, i), P.InstrPos(ret), "success only after the supply was written", name+" can return success without writing the supply record")
	}
}

// checkMintPair: pos.mint — minted amount ≡ forwarded amount, same module (C02-R6, C04-R1, C10-R2).
func checkMintPair(r *Run, rule string) {
	P := r.P
	f := r.fn("(x/pos/keeper.Keeper).mint")
	if f == nil {
		return
	}
	m := r.oneCall(rule, "mint", f, "x/pos/types.AuthKeeper.MintCoins")
	s := r.oneCall(rule, "mint", f, "x/pos/types.AuthKeeper.SendCoinsFromModuleToAccount")
	if m == nil || s == nil {
		return
	}
	mt, st := P.callTerm(m), P.callTerm(s)
	mintAmt, sendAmt := argTerm(mt, 3).String(), argTerm(st, 4).String()
	mintMod, sendMod := argTerm(mt, 2).String(), argTerm(st, 2).String()
	wantAmt := "types.NewCoins(list(types.NewCoin((x/pos/keeper.Keeper).StakeDenom(param:k, param:ctx), param:amount)))"
	r.Check(mintAmt == sendAmt && mintMod == sendMod, rule, "mint/minted≡forwarded", P.InstrPos(m),
		"MintCoins("+mintMod+", "+mintAmt+") and the forward use the same amount and module",
		fmt.Sprintf("MintCoins(%s, %s) but SendCoinsFromModuleToAccount(%s, …, %s): the amount minted into the pool is not the amount forwarded", mintMod, mintAmt, sendMod, sendAmt))
	r.Check(sendAmt == wantAmt, rule, "mint/forwards-award-amount", P.InstrPos(s), sendAmt, "forwarded amount is "+sendAmt+" ; required "+wantAmt)
	r.Check(argTerm(st, 3).String() == "param:address", rule, "mint/recipient", P.InstrPos(s), "recipient is the award address", "recipient is "+argTerm(st, 3).String()+" ; required param:address")
	r.requireAtoms(rule, "mint/forward", s, P.Guards(s, 0), []req{{"mint-succeeded", `^isnil\(x/pos/types\.AuthKeeper\.MintCoins\(`}})
	// and conversely: whatever was minted into the pool is always forwarded (nothing may stay behind in the pool)
	r.mustFollowEdge(rule, "mint/minted=>forwarded", f, `^isnil\(x/pos/types\.AuthKeeper\.MintCoins\(`, func(in ssa.Instruction) bool { return in == ssa.Instruction(s) }, nil, "SendCoinsFromModuleToAccount (the award would stay in the staked pool, unbacked by any stake)")
}

// sendCoinsShape: a transfer debits the sender and credits the recipient by the same amount, through SubtractCoins
// then AddCoins (each re-reads the balance it changes) (C02-R3, C17-R10).
func sendCoinsShape(r *Run, rule string) {
	P := r.P
	if f := r.fn(bankK + "SendCoins"); f != nil {
		sub := r.oneCall(rule, "SendCoins", f, bankK+"SubtractCoins")
		add := r.oneCall(rule, "SendCoins", f, bankK+"AddCoins")
		if sub != nil && add != nil {
			st, at := P.callTerm(sub).String(), P.callTerm(add).String()
			r.Check(st == bankK+"SubtractCoins(param:k, param:ctx, param:fromAddr, param:amt)", rule, "SendCoins/debit", P.InstrPos(sub), st, "debit is "+st+" ; required SubtractCoins(k, ctx, fromAddr, amt)")
			r.Check(at == bankK+"AddCoins(param:k, param:ctx, param:toAddr, param:amt)", rule, "SendCoins/credit", P.InstrPos(add), at, "credit is "+at+" ; required AddCoins(k, ctx, toAddr, amt)")
			r.requireAtoms(rule, "SendCoins/credit", add, P.Guards(add, 0), []req{{"debit-succeeded", `^isnil\(` + q(bankK+"SubtractCoins(param:k, param:ctx, param:fromAddr, param:amt)#1") + `\)$`}})
			for i, ret := range P.successReturns(f, 0, "nil") {
				r.requireAtoms(rule, fmt.Sprintf("SendCoins/success-return#%d", i), ret, P.Guards(ret, 0), []req{
					{"debit-ok", `^isnil\(` + q(bankK+"SubtractCoins(")},
					{"credit-ok", `^isnil\(` + q(bankK+"AddCoins(")},
				})
			}
		}
	}
}
