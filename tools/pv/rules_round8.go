package main

import (
	"fmt"
	"strings"

	"golang.org/x/tools/go/ssa"
)

// Rules added after the fourth round of seeded changes (second half).

// loadStoreFailsOnAnyError: a version that cannot be loaded is an error, never an empty store (C12-R12, C14-R9).
func loadStoreFailsOnAnyError(r *Run, rule string) {
	P := r.P
	r.Rule(rule, "a pruned or missing version is unreadable, not empty: iavl.LoadStore returns a store only when the tree load (LoadVersion or LazyLoadVersion) returned a nil error — no error value is exempted", 1)
	f := r.fn("store/iavl.LoadStore")
	if f == nil {
		return
	}
	for i, ret := range P.successReturns(f, 1, "nil") {
		gs := P.Guards(ret, 0)
		ok := false
		for _, a := range gs {
			k := a.Key()
			if strings.HasPrefix(k, "isnil(") && strings.Contains(k, "LoadVersion(") && strings.Contains(k, "#1") {
				ok = true
			}
		}
		r.Check(ok, rule, fmt.Sprintf("LoadStore/success#%d/load-error-nil", i), P.InstrPos(ret), "store only after a nil load error", "LoadStore can return a store under {"+strings.Join(atomStrings(gs), " ; ")+"}: the tree load's error is not required to be nil on this path (a load that failed with an exempted error yields an empty store for a version that does not exist)")
	}
}

// gaskvIteratorsChargeSeek: both directions are opened through the charging constructor (C16-R9).
func gaskvIteratorsChargeSeek(r *Run, rule string) {
	P := r.P
	r.Rule(rule, "sibling agreement of gaskv.Iterator and ReverseIterator: both return gs.iterator(start, end, ascending) — the one place that charges the initial seek — with true and false respectively", 2)
	for _, w := range []struct{ fn, asc string }{{"(*store/gaskv.Store).Iterator", "true"}, {"(*store/gaskv.Store).ReverseIterator", "false"}} {
		f := r.fn(w.fn)
		if f == nil {
			continue
		}
		for _, ret := range Returns(f) {
			t := P.TermAt(ret.Results[0], ret).String()
			want := "(*store/gaskv.Store).iterator(param:gs, param:start, param:end, " + w.asc + ")"
			r.Check(t == want, rule, w.fn+"/through-iterator", P.InstrPos(ret), t, w.fn+" returns "+oneLine(t)+" ; required "+want+" (building the gas iterator directly skips the seek charge)")
		}
	}
}

// cachekvHoldsLockThroughout: the read-then-remember of Get and the other entry points are atomic (C15-R12).
func cachekvHoldsLockThroughout(r *Run, rule string) {
	P := r.P
	r.Rule(rule, "cachekv entry points are atomic: Get, Set, Delete, Write, Iterator and ReverseIterator take store.mtx once and release it only through the deferred Unlock — no explicit Unlock/Lock pair opens a window in which a concurrent Set or Delete could be overwritten by a stale read", 5)
	for _, n := range []string{"Get", "Set", "Delete", "Write", "iterator"} {
		f := r.fnOpt(ckS + n)
		if f == nil {
			continue
		}
		locks, unlocks, deferred := 0, 0, 0
		Instrs(f, func(in ssa.Instruction) {
			ci, ok := in.(ssa.CallInstruction)
			if !ok {
				return
			}
			_, name := calleeName(ci.Common())
			switch {
			case strings.HasSuffix(name, "sync.Mutex).Lock"):
				locks++
			case strings.HasSuffix(name, "sync.Mutex).Unlock"):
				if _, isDefer := in.(*ssa.Defer); isDefer {
					deferred++
				} else {
					unlocks++
				}
			}
		})
		if locks == 0 && deferred == 0 && unlocks == 0 {
			continue // relies on its caller (checked by the lock discipline rule)
		}
		r.Check(locks == 1 && deferred == 1 && unlocks == 0, rule, ckS+n+"/single-critical-section", P.Pos(f.Pos()), "one Lock, deferred Unlock", fmt.Sprintf("%s%s has %d Lock, %d deferred Unlock and %d explicit Unlock calls: the critical section is split (check-then-act across a released lock)", ckS, n, locks, deferred, unlocks))
	}
}

func init() {
	extend("C12", func(r *Run) { loadStoreFailsOnAnyError(r, "C12-R12") })
	extend("C14", func(r *Run) { loadStoreFailsOnAnyError(r, "C14-R9") })
	extend("C16", func(r *Run) { gaskvIteratorsChargeSeek(r, "C16-R9") })
	extend("C15", func(r *Run) { cachekvHoldsLockThroughout(r, "C15-R12") })
	extend("C17", func(r *Run) {
		r.Rule("C17-R10", "a DAO transfer moves exactly the amount: SendCoins subtracts amt from the sender through SubtractCoins and then adds the same amt to the recipient through AddCoins (each reads the balance it changes, so a transfer to oneself is neutral)", 4)
		sendCoinsShape(r, "C17-R10")
	})
	pkgScope["C20"] = append(pkgScope["C20"], "crypto", "x/pos/types", "x/auth/types", "codec")
}
