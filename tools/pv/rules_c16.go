package main

import (
	"fmt"
	"go/constant"
	"go/types"
	"sort"
	"strings"

	"golang.org/x/tools/go/ssa"
)

func init() { register("C16", checkC16) }

func checkC16(r *Run) {
	P := r.P
	moreC16(r)
	r.NotDecided("equality of a wrapped store with a map model over operation sequences (runtime); decided: every parent access goes through the prefix, every cost-table row is charged at its place, every operation is traced")
	r.NotDecided("arithmetic overflow of ReadCostPerByte*len(value) (uint64 multiplication is not overflow-checked in the code: observation)")

	// ------------------------------------------------------------------ R1
	r.Rule("C16-R1", "prefix confinement: every parent Get/Has/Set/Delete key is s.key(k) = cloneAppend(prefix, k); iterator bounds are cloneAppend(prefix,start) and cloneAppend(prefix,end) or cpIncr(prefix) when end is nil; prefixIterator strips the prefix from keys and is valid only while the parent key has the prefix; PrefixEndBytes increments the last non-0xFF byte after dropping trailing 0xFF bytes and returns nil for an all-0xFF (or empty) prefix", 14)
	for _, m := range []string{"Get", "Has", "Set", "Delete"} {
		f := r.fn("(store/prefix.Store)." + m)
		if f == nil {
			continue
		}
		cs := CallsIn(f, "store/types.KVStore."+m)
		if len(cs) != 1 {
			r.Viol("C16-R1", "prefix."+m+"/parent-call", P.Pos(f.Pos()), fmt.Sprintf("%d parent.%s calls (expected 1)", len(cs), m))
			continue
		}
		t := P.callTerm(cs[0])
		r.Check(argTerm(t, 0).String() == "param:s.parent" && argTerm(t, 1).String() == "(store/prefix.Store).key(param:s, param:key)", "C16-R1", "prefix."+m+"/key-prefixed", P.InstrPos(cs[0]), t.String(), "parent."+m+" is called with key "+argTerm(t, 1).String()+" ; required s.key(key)")
		if m == "Set" {
			r.Check(argTerm(t, 2).String() == "param:value", "C16-R1", "prefix.Set/value", P.InstrPos(cs[0]), "value forwarded", "value is "+argTerm(t, 2).String())
		}
		if m == "Get" || m == "Has" {
			for _, ret := range Returns(f) {
				rv := P.TermAt(ret.Results[0], ret).String()
				r.Check(rv == t.String(), "C16-R1", "prefix."+m+"/returns-parent-result", P.InstrPos(ret), "parent result returned unchanged", "returns "+rv)
			}
		}
	}
	if f := r.fn("(store/prefix.Store).key"); f != nil {
		for _, ret := range Returns(f) {
			t := P.TermAt(ret.Results[0], ret).String()
			r.Check(t == "store/prefix.cloneAppend(param:s.prefix, param:key)", "C16-R1", "prefix.key", P.InstrPos(ret), t, "key() is "+t)
		}
	}
	if f := r.fn("store/prefix.cloneAppend"); f != nil {
		var copies []string
		Instrs(f, func(in ssa.Instruction) {
			if ci, ok := in.(ssa.CallInstruction); ok {
				if op, n := calleeName(ci.Common()); op == "builtin" && n == "copy" {
					copies = append(copies, P.callTerm(ci).String())
				}
			}
		})
		sort.Strings(copies)
		want := []string{
			"copy(makeslice((len(param:bz) + len(param:tail))), param:bz)",
			"copy(makeslice((len(param:bz) + len(param:tail)))[len(param:bz), _, _], param:tail)",
		}
		r.Check(len(copies) == 2 && copies[0] == want[0] && copies[1] == want[1], "C16-R1", "cloneAppend", P.Pos(f.Pos()), "fresh slice = bz ++ tail", "cloneAppend builds "+strings.Join(copies, " ; "))
	}
	for _, m := range []string{"Iterator", "ReverseIterator"} {
		f := r.fn("(store/prefix.Store)." + m)
		if f == nil {
			continue
		}
		cs := CallsIn(f, "store/types.KVStore."+m)
		if len(cs) != 1 {
			r.Viol("C16-R1", "prefix."+m+"/parent-call", P.Pos(f.Pos()), "expected one parent."+m+" call")
			continue
		}
		t := P.callTerm(cs[0])
		s0, e0 := argTerm(t, 1).String(), argTerm(t, 2).String()
		r.Check(s0 == "store/prefix.cloneAppend(param:s.prefix, param:start)", "C16-R1", "prefix."+m+"/start", P.InstrPos(cs[0]), s0, "start bound is "+s0)
		okEnd := e0 == "phi(store/prefix.cloneAppend(param:s.prefix, param:end), store/types.PrefixEndBytes(param:s.prefix))"
		r.Check(okEnd, "C16-R1", "prefix."+m+"/end", P.InstrPos(cs[0]), e0, "end bound is "+e0+" ; required cloneAppend(prefix,end) or cpIncr(prefix)")
		// cpIncr exactly when end == nil
		for _, c := range append(CallsIn(f, "store/prefix.cpIncr"), CallsIn(f, "store/types.PrefixEndBytes")...) {
			ok, _ := HasAtom(P.Guards(c, 0), `^isnil\(param:end\)$`)
			r.Check(ok, "C16-R1", "prefix."+m+"/cpIncr-iff-end-nil", P.InstrPos(c), "cpIncr(prefix) when end == nil", "cpIncr used under "+strings.Join(atomStrings(P.Guards(c, 0)), " ; "))
		}
		for _, c := range CallsIn(f, "store/prefix.newPrefixIterator") {
			pt := P.callTerm(c)
			r.Check(argTerm(pt, 0).String() == "param:s.prefix" && argTerm(pt, 3).String() == t.String(), "C16-R1", "prefix."+m+"/wraps-parent-iterator", P.InstrPos(c), "prefixIterator(prefix, …, parent iterator)", "wrapper is "+pt.String())
		}
	}
	if f := r.fn("store/prefix.newPrefixIterator"); f != nil {
		for _, ret := range Returns(f) {
			t := P.TermAt(ret.Results[0], ret).String()
			ok := strings.Contains(t, "prefix=param:prefix") && strings.Contains(t, "iter=param:parent") && strings.Contains(t, "valid=phi(bytes.HasPrefix(github.com/tendermint/tm-db.Iterator.Key(param:parent), param:prefix), false)")
			for _, c := range CallsIn(f, "bytes.HasPrefix") {
				g, _ := HasAtom(P.Guards(c, 0), `^github\.com/tendermint/tm-db\.Iterator\.Valid\(param:parent\)$`)
				ok = ok && g
			}
			r.Check(ok, "C16-R1", "newPrefixIterator/valid", P.InstrPos(ret), "valid = parent.Valid() && HasPrefix(parent.Key(), prefix)", "prefixIterator is built as "+t)
		}
	}
	if f := r.fn("(*store/prefix.prefixIterator).Key"); f != nil {
		for _, ret := range Returns(f) {
			t := P.TermAt(ret.Results[0], ret).String()
			r.Check(t == "store/prefix.stripPrefix(github.com/tendermint/tm-db.Iterator.Key(param:iter.iter), param:iter.prefix)", "C16-R1", "prefixIterator.Key/strips", P.InstrPos(ret), t, "Key() returns "+t)
		}
	}
	if f := r.fn("(*store/prefix.prefixIterator).Next"); f != nil {
		// valid=false whenever the parent is invalid or its key lacks the prefix
		ok := false
		Instrs(f, func(in ssa.Instruction) {
			if s, ok2 := in.(*ssa.Store); ok2 && P.TermAt(s.Addr, s).String() == "&param:iter.valid" && P.TermAt(s.Val, s).String() == "false" {
				ok = true
			}
		})
		hp := len(CallsIn(f, "bytes.HasPrefix")) == 1
		r.Check(ok && hp, "C16-R1", "prefixIterator.Next/invalidates-outside-prefix", P.Pos(f.Pos()), "invalidated when the parent key leaves the prefix", "Next no longer invalidates the iterator when the parent key lacks the prefix")
	}
	if f := r.fn("(*store/prefix.prefixIterator).Valid"); f != nil {
		// however the conjunction is spelled (a && b, or an early `return false`): each alternative is either false,
		// or the parent's Valid() under iter.valid
		n := 0
		for i, a := range P.RetAlternatives(f, 0) {
			t := a.T.String()
			g, _ := HasAtom(a.G, `^param:iter\.valid$`)
			ok := t == "false" || (t == "github.com/tendermint/tm-db.Iterator.Valid(param:iter.iter)" && g)
			if t != "false" {
				n++
			}
			r.Check(ok, "C16-R1", fmt.Sprintf("prefixIterator.Valid/alternative#%d", i), P.InstrPos(a.Ret), "valid && parent.Valid()", "Valid() is "+t+" under {"+strings.Join(atomStrings(a.G), " ; ")+"}")
		}
		if n == 0 {
			r.Viol("C16-R1", "prefixIterator.Valid/consults-parent", P.Pos(f.Pos()), "Valid() never consults the parent iterator")
		}
	}
	if f := r.fn("store/prefix.stripPrefix"); f != nil {
		for _, ret := range Returns(f) {
			t := P.TermAt(ret.Results[0], ret).String()
			r.Check(t == "param:key[len(param:prefix), _, _]", "C16-R1", "stripPrefix", P.InstrPos(ret), t, "stripPrefix returns "+t)
		}
	}
	checkPrefixEndBytes(r, "C16-R1")

	// ------------------------------------------------------------------ R2
	r.Rule("C16-R2", "gas table: Get charges ReadCostFlat before and ReadCostPerByte*len(value) after the parent read; Set charges WriteCostFlat and WriteCostPerByte*len(value) before the parent write; Has charges HasCost, Delete charges DeleteCost before the parent call; iterators charge ReadCostPerByte*len(value)+IterNextCostFlat at creation and on Next only while valid; every GasConfig field is consumed and every descriptor goes with its namesake cost; results are the parent's", 16)
	gm := "store/types.GasMeter.ConsumeGas(param:gs.gasMeter, "
	type charge struct{ amount, desc string }
	table := map[string]struct {
		parent string
		before []charge
		after  []charge
	}{
		"Get":    {"store/types.KVStore.Get(param:gs.parent, param:key)", []charge{{"param:gs.gasConfig.ReadCostFlat", `"ReadFlat"`}}, []charge{{"(param:gs.gasConfig.ReadCostPerByte * len(store/types.KVStore.Get(param:gs.parent, param:key)))", `"ReadPerByte"`}}},
		"Set":    {"store/types.KVStore.Set(param:gs.parent, param:key, param:value)", []charge{{"param:gs.gasConfig.WriteCostFlat", `"WriteFlat"`}, {"(param:gs.gasConfig.WriteCostPerByte * len(param:value))", `"WritePerByte"`}}, nil},
		"Has":    {"store/types.KVStore.Has(param:gs.parent, param:key)", []charge{{"param:gs.gasConfig.HasCost", `"Has"`}}, nil},
		"Delete": {"store/types.KVStore.Delete(param:gs.parent, param:key)", []charge{{"param:gs.gasConfig.DeleteCost", `"Delete"`}}, nil},
	}
	for _, m := range []string{"Get", "Set", "Has", "Delete"} {
		f := r.fn("(*store/gaskv.Store)." + m)
		if f == nil {
			continue
		}
		row := table[m]
		var parent ssa.CallInstruction
		for _, c := range CallsIn(f, "store/types.KVStore."+m) {
			if P.callTerm(c).String() == row.parent {
				parent = c
			}
		}
		if parent == nil {
			r.Viol("C16-R2", "gaskv."+m+"/parent-call", P.Pos(f.Pos()), "no call "+row.parent)
			continue
		}
		gas := CallsIn(f, "store/types.GasMeter.ConsumeGas")
		r.Check(len(gas) == len(row.before)+len(row.after), "C16-R2", "gaskv."+m+"/charge-count", P.Pos(f.Pos()), fmt.Sprintf("%d charges", len(gas)), fmt.Sprintf("%d ConsumeGas calls (expected %d)", len(gas), len(row.before)+len(row.after)))
		find := func(ch charge) ssa.CallInstruction {
			for _, g := range gas {
				if P.callTerm(g).String() == gm+ch.amount+", "+ch.desc+")" {
					return g
				}
			}
			return nil
		}
		for _, ch := range row.before {
			g := find(ch)
			if g == nil {
				r.Viol("C16-R2", "gaskv."+m+"/charge:"+ch.desc, P.Pos(f.Pos()), m+" does not charge "+ch.amount+" as "+ch.desc)
				continue
			}
			r.Check(Precedes(g, parent) && len(P.Guards(g, 0)) == 0, "C16-R2", "gaskv."+m+"/charge:"+ch.desc, P.InstrPos(g), "charged before the parent call, unconditionally", ch.desc+" is not charged (unconditionally) before the parent "+m)
		}
		for _, ch := range row.after {
			g := find(ch)
			if g == nil {
				r.Viol("C16-R2", "gaskv."+m+"/charge:"+ch.desc, P.Pos(f.Pos()), m+" does not charge "+ch.amount+" as "+ch.desc)
				continue
			}
			r.Check(Precedes(parent, g) && len(P.Guards(g, 0)) == 0, "C16-R2", "gaskv."+m+"/charge:"+ch.desc, P.InstrPos(g), "charged after the parent call", ch.desc+" is not charged after the parent "+m)
		}
		if m == "Get" || m == "Has" {
			for _, ret := range Returns(f) {
				rv := P.TermAt(ret.Results[0], ret).String()
				r.Check(rv == row.parent, "C16-R2", "gaskv."+m+"/returns-parent-result", P.InstrPos(ret), "parent result", "returns "+rv)
			}
		}
	}
	if f := r.fn("(*store/gaskv.gasIterator).consumeSeekGas"); f != nil {
		gas := CallsIn(f, "store/types.GasMeter.ConsumeGas")
		want := map[string]bool{
			"store/types.GasMeter.ConsumeGas(param:gi.gasMeter, (param:gi.gasConfig.ReadCostPerByte * len((*store/gaskv.gasIterator).Value(param:gi))), \"ValuePerByte\")": false,
			"store/types.GasMeter.ConsumeGas(param:gi.gasMeter, param:gi.gasConfig.IterNextCostFlat, \"IterNextFlat\")":                                                    false,
		}
		for _, g := range gas {
			s := P.callTerm(g).String()
			if _, ok := want[s]; ok {
				want[s] = true
			} else {
				r.Viol("C16-R2", "consumeSeekGas/unexpected-charge", P.InstrPos(g), "unexpected charge "+s)
			}
		}
		for s, ok := range want {
			r.Check(ok, "C16-R2", "consumeSeekGas/charge:"+s[len(s)-16:], P.Pos(f.Pos()), s, "consumeSeekGas no longer charges "+s)
		}
	}
	if f := r.fn("(*store/gaskv.gasIterator).Next"); f != nil {
		cs := CallsIn(f, "(*store/gaskv.gasIterator).consumeSeekGas")
		nx := CallsIn(f, "github.com/tendermint/tm-db.Iterator.Next")
		if len(cs) == 1 && len(nx) == 1 {
			ok, _ := HasAtom(P.Guards(cs[0], 0), `^\(\*store/gaskv\.gasIterator\)\.Valid\(param:gi\)$`)
			r.Check(ok, "C16-R2", "gasIterator.Next/charged-iff-valid", P.InstrPos(cs[0]), "seek gas only while valid", "seek gas guard is "+strings.Join(atomStrings(P.Guards(cs[0], 0)), " ; "))
			r.mustFollowEdge("C16-R2", "gasIterator.Next/valid=>charged", f, `^\(\*store/gaskv\.gasIterator\)\.Valid\(param:gi\)$`, func(in ssa.Instruction) bool { return in == ssa.Instruction(cs[0]) }, nil, "consumeSeekGas")
			r.Check(len(P.Guards(nx[0], 0)) == 0, "C16-R2", "gasIterator.Next/advances", P.InstrPos(nx[0]), "parent.Next unconditional", "parent.Next is conditional")
			// charge before advancing (the value charged is the current one)
			reach, _, _ := ReachWithout(f, nx[0], func(in ssa.Instruction) bool { return in == ssa.Instruction(cs[0]) }, nil, nil)
			r.Check(!reach, "C16-R2", "gasIterator.Next/charge-before-advance", P.InstrPos(cs[0]), "charged before parent.Next", "seek gas is charged after parent.Next")
		} else {
			r.Viol("C16-R2", "gasIterator.Next/shape", P.Pos(f.Pos()), "expected one consumeSeekGas and one parent.Next call")
		}
	}
	if f := r.fn("(*store/gaskv.Store).iterator"); f != nil {
		cs := CallsIn(f, "(*store/gaskv.gasIterator).consumeSeekGas")
		// Valid of the new iterator: through the interface, or directly on the concrete type when the constructor returns it
		validOfNew := `^(?:github\.com/tendermint/tm-db\.Iterator|\(\*store/gaskv\.gasIterator\))\.Valid\(store/gaskv\.newGasIterator\(`
		if len(cs) == 1 {
			ok, _ := HasAtom(P.Guards(cs[0], 0), validOfNew)
			r.Check(ok, "C16-R2", "gaskv.iterator/seek-charged-iff-valid", P.InstrPos(cs[0]), "first element charged only when valid", "creation charge guard: "+strings.Join(atomStrings(P.Guards(cs[0], 0)), " ; "))
			r.mustFollowEdge("C16-R2", "gaskv.iterator/valid=>charged", f, validOfNew, func(in ssa.Instruction) bool { return in == ssa.Instruction(cs[0]) }, nil, "consumeSeekGas")
		} else {
			r.Viol("C16-R2", "gaskv.iterator/seek-charged-iff-valid", P.Pos(f.Pos()), "expected one consumeSeekGas call at iterator creation")
		}
		for _, w := range []struct{ m, guard string }{{"Iterator", `^param:ascending$`}, {"ReverseIterator", `^!param:ascending$`}} {
			for _, c := range CallsIn(f, "store/types.KVStore."+w.m) {
				t := P.callTerm(c)
				ok, _ := HasAtom(P.Guards(c, 0), w.guard)
				r.Check(ok && argTerm(t, 1).String() == "param:start" && argTerm(t, 2).String() == "param:end", "C16-R2", "gaskv.iterator/parent-"+w.m, P.InstrPos(c), "parent "+w.m+"(start,end) for the matching direction", "parent iterator is "+t.String()+" under "+strings.Join(atomStrings(P.Guards(c, 0)), " ; "))
			}
		}
	}
	// every GasConfig field is consumed somewhere in gaskv
	if gc := P.NamedType("store/types", "GasConfig"); gc != nil {
		used := map[string]bool{}
		for _, fn := range P.RepoFns {
			if fn.Pkg == nil || short(fn.Pkg.Pkg.Path()) != "store/gaskv" {
				continue
			}
			for _, c := range CallsIn(fn, "store/types.GasMeter.ConsumeGas") {
				s := argTerm(P.callTerm(c), 1).String()
				for _, fld := range structFieldNames(gc) {
					if strings.Contains(s, "gasConfig."+fld) {
						used[fld] = true
					}
				}
			}
		}
		for _, fld := range structFieldNames(gc) {
			r.Check(used[fld], "C16-R2", "GasConfig."+fld+"/consumed", "-", "consumed", "GasConfig."+fld+" is never charged by the gas store")
		}
	}
	// the shipped cost table
	if f := r.fn("store/types.KVGasConfig"); f != nil {
		for _, ret := range Returns(f) {
			t := P.TermAt(ret.Results[0], ret).String()
			want := "complit:store/types.GasConfig{DeleteCost=1000, HasCost=1000, IterNextCostFlat=30, ReadCostFlat=1000, ReadCostPerByte=3, WriteCostFlat=2000, WriteCostPerByte=30}"
			r.Check(t == want, "C16-R2", "KVGasConfig/shipped-table", P.InstrPos(ret), t, "shipped cost table is "+t+" ; documented "+want)
		}
	}

	// ------------------------------------------------------------------ R3
	r.Rule("C16-R3", "gas meter: ConsumeGas adds with overflow detection and panics ErrorGasOverflow before it compares with the limit and panics ErrorOutOfGas when consumed > limit; the infinite meter keeps the overflow arm; addUint64Overflow reports overflow iff MaxUint64-a < b", 6)
	for _, w := range []struct {
		fn       string
		hasLimit bool
	}{{"(*store/types.basicGasMeter).ConsumeGas", true}, {"(*store/types.infiniteGasMeter).ConsumeGas", false}} {
		f := r.fn(w.fn)
		if f == nil {
			continue
		}
		add := r.oneCall("C16-R3", w.fn, f, "store/types.addUint64Overflow")
		if add == nil {
			continue
		}
		t := P.callTerm(add).String()
		r.Check(t == "store/types.addUint64Overflow(param:g.consumed, param:amount)", "C16-R3", w.fn+"/overflow-checked-add", P.InstrPos(add), t, "adds with "+t)
		var ovf, oog *ssa.Panic
		Instrs(f, func(in ssa.Instruction) {
			p, ok := in.(*ssa.Panic)
			if !ok {
				return
			}
			v := P.TermAt(p.X, p).String()
			if strings.Contains(v, "ErrorGasOverflow") {
				ovf = p
			}
			if strings.Contains(v, "ErrorOutOfGas") {
				oog = p
			}
		})
		if ovf == nil {
			r.Viol("C16-R3", w.fn+"/overflow-panic", P.Pos(f.Pos()), "no panic(ErrorGasOverflow): an overflowing gas total would wrap")
		} else {
			ok, _ := HasAtom(P.Guards(ovf, 0), `^store/types\.addUint64Overflow\(param:g\.consumed, param:amount\)#1$`)
			r.Check(ok, "C16-R3", w.fn+"/overflow-panic", P.InstrPos(ovf), "panics on overflow", "overflow panic guard: "+strings.Join(atomStrings(P.Guards(ovf, 0)), " ; "))
			r.mustFollowEdge("C16-R3", w.fn+"/overflow=>panic", f, `^store/types\.addUint64Overflow\(param:g\.consumed, param:amount\)#1$`, func(in ssa.Instruction) bool { return in == ssa.Instruction(ovf) }, nil, "panic(ErrorGasOverflow)")
		}
		if w.hasLimit {
			if oog == nil {
				r.Viol("C16-R3", w.fn+"/out-of-gas-panic", P.Pos(f.Pos()), "no panic(ErrorOutOfGas)")
			} else {
				gs := P.Guards(oog, 2)
				ok, _ := HasAtom(gs, `^\(param:g\.limit < (param:g\.consumed|.*addUint64Overflow\(param:g\.consumed, param:amount\)#0.*)\)$`)
				// the comparison must see the updated total: the store to g.consumed precedes the panic site
				Instrs(f, func(in ssa.Instruction) {
					if s, isSt := in.(*ssa.Store); isSt && P.TermAt(s.Addr, s).String() == "&param:g.consumed" {
						ok = ok && Precedes(s, oog)
					}
				})
				ok2, _ := HasAtom(gs, `^!store/types\.addUint64Overflow\(param:g\.consumed, param:amount\)#1$`)
				r.Check(ok && ok2, "C16-R3", w.fn+"/limit-test-after-overflow-test", P.InstrPos(oog), "out-of-gas iff consumed > limit, tested after the overflow test", "out-of-gas panic guard: "+strings.Join(atomStrings(gs), " ; ")+" ; required {!overflow, limit < consumed}")
				r.mustFollowEdge("C16-R3", w.fn+"/over-limit=>panic", f, `^\(param:g\.limit < `, func(in ssa.Instruction) bool { return in == ssa.Instruction(oog) }, nil, "panic(ErrorOutOfGas)")
			}
		}
		// consumed is updated from the checked sum
		okSt := false
		Instrs(f, func(in ssa.Instruction) {
			if s, ok := in.(*ssa.Store); ok && P.TermAt(s.Addr, s).String() == "&param:g.consumed" {
				okSt = P.TermAt(s.Val, s).String() == "store/types.addUint64Overflow(param:g.consumed, param:amount)#0"
			}
		})
		r.Check(okSt, "C16-R3", w.fn+"/records-sum", P.Pos(f.Pos()), "consumed = checked sum", "consumed is not updated from the overflow-checked sum")
	}
	if f := r.fn("store/types.addUint64Overflow"); f != nil {
		for _, ret := range Returns(f) {
			c, _ := P.retClass(ret, 1)
			gs := P.Guards(ret, 0)
			if c == "true" {
				ok, _ := HasAtom(gs, `^\(\(18446744073709551615 - param:a\) < param:b\)$`)
				r.Check(ok, "C16-R3", "addUint64Overflow/overflow-iff", P.InstrPos(ret), "overflow iff MaxUint64-a < b", "overflow reported under "+strings.Join(atomStrings(gs), " ; "))
			} else {
				t := P.TermAt(ret.Results[0], ret).String()
				r.Check(t == "(param:a + param:b)", "C16-R3", "addUint64Overflow/sum", P.InstrPos(ret), t, "non-overflow result is "+t)
			}
		}
	}
	if f := r.fn("(*store/types.basicGasMeter).IsOutOfGas"); f != nil {
		for _, ret := range Returns(f) {
			t := P.TermAt(ret.Results[0], ret).String()
			r.Check(t == "(param:g.limit <= param:g.consumed)", "C16-R3", "IsOutOfGas", P.InstrPos(ret), t, "IsOutOfGas is "+t)
		}
	}

	// ------------------------------------------------------------------ R4
	r.Rule("C16-R4", "faithful trace: Get traces readOp(key,value) after the parent read; Set traces writeOp(key,value) and Delete traces deleteOp(key) before the parent call; iterator Key/Value trace iterKeyOp/iterValueOp; each returns the parent's result unchanged with the parent's arguments", 9)
	tr := func(op, k, v string) string {
		return "store/tracekv.writeOperation(param:tkv.writer, \"" + op + "\", param:tkv.context, " + k + ", " + v + ")"
	}
	for _, w := range []struct {
		m, parent, trace string
		traceFirst       bool
	}{
		{"Get", "store/types.KVStore.Get(param:tkv.parent, param:key)", tr("read", "param:key", "store/types.KVStore.Get(param:tkv.parent, param:key)"), false},
		{"Set", "store/types.KVStore.Set(param:tkv.parent, param:key, param:value)", tr("write", "param:key", "param:value"), true},
		{"Delete", "store/types.KVStore.Delete(param:tkv.parent, param:key)", tr("delete", "param:key", "nil"), true},
	} {
		f := r.fn("(*store/tracekv.Store)." + w.m)
		if f == nil {
			continue
		}
		var pc, tc ssa.CallInstruction
		for _, c := range CallsIn(f, "store/types.KVStore."+w.m) {
			if P.callTerm(c).String() == w.parent {
				pc = c
			}
		}
		for _, c := range CallsIn(f, "store/tracekv.writeOperation") {
			if P.callTerm(c).String() == w.trace {
				tc = c
			}
		}
		if pc == nil {
			r.Viol("C16-R4", "tracekv."+w.m+"/parent-call", P.Pos(f.Pos()), "no call "+w.parent)
			continue
		}
		if tc == nil {
			got := ""
			for _, c := range CallsIn(f, "store/tracekv.writeOperation") {
				got += P.callTerm(c).String() + " ; "
			}
			r.Viol("C16-R4", "tracekv."+w.m+"/trace", P.Pos(f.Pos()), w.m+" does not record "+w.trace+" (records: "+got+")")
			continue
		}
		if w.traceFirst {
			r.Check(Precedes(tc, pc), "C16-R4", "tracekv."+w.m+"/trace-before-op", P.InstrPos(tc), "traced before the parent call", "the trace entry is written after the parent "+w.m)
		} else {
			r.Check(Precedes(pc, tc), "C16-R4", "tracekv."+w.m+"/trace-after-read", P.InstrPos(tc), "traced after the read (with its value)", "the read is traced before it happened")
		}
		r.Check(len(P.Guards(tc, 0)) == 0 && len(P.Guards(pc, 0)) == 0, "C16-R4", "tracekv."+w.m+"/unconditional", P.InstrPos(tc), "unconditional", "trace or parent call is conditional")
		if w.m == "Get" {
			for _, ret := range Returns(f) {
				rv := P.TermAt(ret.Results[0], ret).String()
				r.Check(rv == w.parent, "C16-R4", "tracekv.Get/returns-parent-result", P.InstrPos(ret), "parent result", "returns "+rv)
			}
		}
	}
	for _, w := range []struct{ m, op, k, v string }{
		{"Key", "iterKey", "github.com/tendermint/tm-db.Iterator.Key(param:ti.parent)", "nil"},
		{"Value", "iterValue", "nil", "github.com/tendermint/tm-db.Iterator.Value(param:ti.parent)"},
	} {
		f := r.fn("(*store/tracekv.traceIterator)." + w.m)
		if f == nil {
			continue
		}
		want := "store/tracekv.writeOperation(param:ti.writer, \"" + w.op + "\", param:ti.context, " + w.k + ", " + w.v + ")"
		ok := false
		for _, c := range CallsIn(f, "store/tracekv.writeOperation") {
			if P.callTerm(c).String() == want {
				ok = true
			}
		}
		r.Check(ok, "C16-R4", "traceIterator."+w.m+"/trace", P.Pos(f.Pos()), want, "traceIterator."+w.m+" does not record "+want)
	}
	if f := r.fn("(*store/tracekv.Store).Has"); f != nil {
		for _, ret := range Returns(f) {
			rv := P.TermAt(ret.Results[0], ret).String()
			r.Check(rv == "store/types.KVStore.Has(param:tkv.parent, param:key)", "C16-R4", "tracekv.Has", P.InstrPos(ret), rv, "Has returns "+rv)
		}
	}
	if f := r.fn("store/tracekv.writeOperation"); f != nil {
		w := CallsIn(f, "io.Writer.Write")
		r.Check(len(w) == 1 && len(P.Guards(w[0], 0)) <= 1, "C16-R4", "writeOperation/writes", P.Pos(f.Pos()), "every operation is written", "writeOperation no longer writes every operation")
	}

	// ------------------------------------------------------------------ R5
	r.Rule("C16-R5", "wiring: Context.KVStore wraps MultiStore().GetKVStore(key) with the context's gas meter and the shipped KV cost table; Subspace stores are prefix stores over ctx.KVStore(s.key) / ctx.TransientStore(s.tkey) with prefix name+'/'", 4)
	for _, w := range []struct{ fn, want string }{
		{"(types.Context).KVStore", "store/gaskv.NewStore(store/types.MultiStore.GetKVStore(param:c.ms, param:key), param:c.gasMeter, store/types.KVGasConfig())"},
		{"(types.Context).TransientStore", "store/gaskv.NewStore(store/types.MultiStore.GetKVStore(param:c.ms, param:key), param:c.gasMeter, store/types.TransientGasConfig())"},
		{"(types.Subspace).kvStore", "store/prefix.NewStore(types.Ctx.KVStore(param:ctx, param:s.key), append(param:s.name, list(47)))"},
		{"(types.Subspace).transientStore", "store/prefix.NewStore(types.Ctx.TransientStore(param:ctx, param:s.tkey), append(param:s.name, list(47)))"},
	} {
		if f := r.fn(w.fn); f != nil {
			for _, ret := range Returns(f) {
				t := P.TermAt(ret.Results[0], ret).String()
				r.Check(t == w.want, "C16-R5", w.fn, P.InstrPos(ret), t, w.fn+" returns "+t+" ; required "+w.want)
			}
		}
	}

	// ------------------------------------------------------------------ R6
	r.Rule("C16-R6", "the pos store-key prefixes are pairwise distinct one-byte values (no prefix of another), so module sub-stores are disjoint", 1)
	checkPosPrefixes(r, "C16-R6")
}

func checkPrefixEndBytes(r *Run, rule string) {
	P := r.P
	f := r.fn("store/types.PrefixEndBytes")
	if f == nil {
		return
	}
	// shape: empty -> nil; loop: last byte != 255 -> increment and stop; else drop the last byte; empty after dropping -> nil
	var nilRet, sawInc, sawTrunc bool
	for _, ret := range Returns(f) {
		t := P.TermAt(ret.Results[0], ret).String()
		if t == "nil" {
			ok, _ := HasAtom(P.Guards(ret, 0), `^\(0 == len\(param:prefix\)\)$`)
			nilRet = nilRet || ok
		}
	}
	Instrs(f, func(in ssa.Instruction) {
		if s, ok := in.(*ssa.Store); ok {
			a, v := P.TermAt(s.Addr, s).String(), P.TermAt(s.Val, s).String()
			if strings.HasPrefix(a, "&") && strings.HasSuffix(v, " + 1)") && strings.Contains(a, "(len(") && strings.Contains(a, " - 1)]") {
				gs := P.Guards(in, 0)
				ok2, _ := HasAtom(gs, `^!\(255 == .*\[\(len\(.*\) - 1\)\]\)$`)
				ok3, _ := HasAtom(gs, `^!\(.*\[\(len\(.*\) - 1\)\] == 255\)$`)
				if ok2 || ok3 {
					sawInc = true
				}
			}
		}
		if sl, ok := in.(*ssa.Slice); ok {
			t := P.TermAt(sl, in).String()
			if strings.Contains(t, "[_, (len(") && strings.Contains(t, " - 1), _]") {
				sawTrunc = true
			}
		}
	})
	r.Check(nilRet, rule, "PrefixEndBytes/empty=>nil", P.Pos(f.Pos()), "empty prefix yields nil (unbounded)", "PrefixEndBytes no longer returns nil for an empty prefix")
	r.Check(sawInc, rule, "PrefixEndBytes/increments-last-non-FF", P.Pos(f.Pos()), "last byte incremented only when it is not 0xFF", "PrefixEndBytes no longer increments the last byte under the guard byte != 0xFF (0xFF would wrap to 0x00)")
	r.Check(sawTrunc, rule, "PrefixEndBytes/drops-trailing-FF", P.Pos(f.Pos()), "trailing 0xFF bytes are dropped", "PrefixEndBytes no longer drops a trailing 0xFF byte before incrementing")
	if g := r.fnOpt("store/prefix.cpIncr"); g != nil {
		for _, ret := range Returns(g) {
			t := P.TermAt(ret.Results[0], ret).String()
			r.Check(t == "store/types.PrefixEndBytes(param:bz)", rule, "cpIncr", P.InstrPos(ret), t, "cpIncr is "+t)
		}
	}
}

// checkPosPrefixes: the package-level []byte prefixes of x/pos/types are one byte long and pairwise distinct.
func checkPosPrefixes(r *Run, rule string) {
	P := r.P
	pkg := P.Pkg("x/pos/types")
	if pkg == nil {
		r.Undecided(rule, "x/pos/types", "-", "package not found")
		return
	}
	sp := P.SSA.Package(pkg.Types)
	initFn := sp.Func("init")
	vals := map[string][]string{}
	// collect stores in init: Global <- slice of array alloc with constant element stores
	elems := map[*ssa.Alloc]map[int64]string{}
	Instrs(initFn, func(in ssa.Instruction) {
		if st, ok := in.(*ssa.Store); ok {
			if ia, ok := st.Addr.(*ssa.IndexAddr); ok {
				if al, ok := ia.X.(*ssa.Alloc); ok {
					if c, ok := st.Val.(*ssa.Const); ok && c.Value != nil {
						if idx, ok := ia.Index.(*ssa.Const); ok {
							if elems[al] == nil {
								elems[al] = map[int64]string{}
							}
							if c.Value.Kind() == constant.Int {
								elems[al][idx.Int64()] = c.Value.ExactString()
							}
						}
					}
				}
			}
		}
	})
	Instrs(initFn, func(in ssa.Instruction) {
		st, ok := in.(*ssa.Store)
		if !ok {
			return
		}
		g, ok := st.Addr.(*ssa.Global)
		if !ok || !strings.HasSuffix(g.Name(), "Key") {
			return
		}
		if _, isSlice := g.Type().(*types.Pointer).Elem().Underlying().(*types.Slice); !isSlice {
			return
		}
		if sl, ok := st.Val.(*ssa.Slice); ok {
			if al, ok := sl.X.(*ssa.Alloc); ok {
				var bs []string
				for i := int64(0); i < int64(len(elems[al])); i++ {
					bs = append(bs, elems[al][i])
				}
				vals[g.Name()] = bs
			}
		}
	})
	seen := map[string]string{}
	var names []string
	for n := range vals {
		names = append(names, n)
	}
	sort.Strings(names)
	ok := len(names) >= 10
	var detail []string
	for _, n := range names {
		bs := vals[n]
		detail = append(detail, n+"="+strings.Join(bs, ","))
		if len(bs) != 1 {
			ok = false
			r.Viol(rule, "prefix-length:"+n, "-", n+" is "+fmt.Sprint(bs)+": store-key prefixes must be exactly one byte (a longer or shorter prefix can be a prefix of another)")
			continue
		}
		if other, dup := seen[bs[0]]; dup {
			ok = false
			r.Viol(rule, "prefix-collision:"+n, "-", n+" and "+other+" share the prefix byte "+bs[0]+": their sub-stores overlap")
		}
		seen[bs[0]] = n
	}
	if ok {
		r.OK(rule, "pos-prefixes-distinct", "-", strings.Join(detail, " "))
	} else if len(names) < 10 {
		r.Undecided(rule, "pos-prefixes", "-", fmt.Sprintf("only %d prefix variables recognised", len(names)))
	}
}
