package main

import (
	"fmt"
	"go/types"
	"sort"
	"strings"

	"golang.org/x/tools/go/ssa"
)

// vettedInfeasible: write-then-fail paths confirmed infeasible by reading (one symbol each, with the reason).
var vettedInfeasible = map[string]string{
	"(x/auth/keeper.Keeper).SendCoins/(x/auth/keeper.Keeper).SubtractCoins": "AddCoins(to, amt) after a successful SubtractCoins(from, amt) can only fail on !amt.IsValid() (already established by SubtractCoins on the same amt) or on a negative sum of two valid coin sets (impossible); SetCoins fails only on account-creation/marshal errors of a valid amount",
}

// effectNeutral: functions whose store writes are not counted as transaction effects (one symbol each, with the reason).
var effectNeutral = map[string]string{
	"(x/auth/keeper.Keeper).GetModuleAccountAndPermissions": "lazy creation of the canonical empty module account record: its content is a function of the module name and the permission table only and it is created by the first use of the module in any case; it is not an effect of the transaction that happens to trigger it",
}

// Effects holds the interprocedural summaries of engine E5.
type Effects struct {
	P         *Prog
	mayWrite  map[*ssa.Function]bool
	canFail   map[*ssa.Function]bool
	dirtyFail map[*ssa.Function]*dirtyWitness // non-nil: some path writes and then returns failure
}

type dirtyWitness struct {
	Fn     *ssa.Function
	Write  ssa.Instruction
	Return ssa.Instruction
	Via    *dirtyWitness // failure came out of a callee that itself is dirty
	Note   string
}

func (w *dirtyWitness) String(P *Prog) string {
	s := fmt.Sprintf("%s: write at %s (%s) then failure return at %s", short(w.Fn.String()), P.InstrPos(w.Write), w.Note, P.InstrPos(w.Return))
	if w.Via != nil {
		s += " ⟵ " + w.Via.String(P)
	}
	return s
}

// Key identifies the witness by function and the write/return constructs (not by line).
func (w *dirtyWitness) Key(P *Prog) string {
	wr := "?"
	if ci, ok := w.Write.(ssa.CallInstruction); ok {
		_, wr = calleeName(ci.Common())
	}
	return short(w.Fn.String()) + "/" + wr
}

// isStoreWrite: a direct KVStore.Set/Delete invocation (any of the repo's store interfaces) or a tm-db write.
func isStoreWrite(c *ssa.CallCommon) bool {
	if !c.IsInvoke() {
		return false
	}
	m := c.Method.Name()
	if m != "Set" && m != "Delete" && m != "SetSync" && m != "DeleteSync" && m != "Write" && m != "WriteSync" {
		return false
	}
	s := typeStr(c.Value.Type())
	switch s {
	case "types.KVStore", "store/types.KVStore", "store/types.CacheKVStore", "types.CacheKVStore",
		"github.com/tendermint/tm-db.DB", "github.com/tendermint/tm-db.Batch", "types.CacheMultiStore", "store/types.CacheMultiStore", "store/types.CacheWrap":
		return true
	}
	return false
}

// errIndex returns the index of the error-like result of fn (-1 when none) and whether it is an sdk.Result.
func errIndex(sig *types.Signature) (int, bool) {
	res := sig.Results()
	for i := res.Len() - 1; i >= 0; i-- {
		s := typeStr(res.At(i).Type())
		if s == "error" || s == "types.Error" {
			return i, false
		}
		if s == "types.Result" {
			return i, true
		}
	}
	return -1, false
}

func (P *Prog) Effects() *Effects {
	E := &Effects{P: P, mayWrite: map[*ssa.Function]bool{}, canFail: map[*ssa.Function]bool{}, dirtyFail: map[*ssa.Function]*dirtyWitness{}}
	g := P.CG()
	// mayWrite: fixpoint
	for _, fn := range P.RepoFns {
		InstrsRaw(fn, func(in ssa.Instruction) {
			if ci, ok := in.(ssa.CallInstruction); ok && isStoreWrite(ci.Common()) {
				E.mayWrite[fn] = true
			}
		})
	}
	for changed := true; changed; {
		changed = false
		for _, fn := range P.RepoFns {
			if E.mayWrite[fn] {
				continue
			}
			for _, e := range g.Out[fn] {
				if e.Callee != nil && E.mayWrite[e.Callee] {
					if _, neutral := effectNeutral[short(e.Callee.String())]; neutral {
						continue
					}
					E.mayWrite[fn] = true
					changed = true
					break
				}
			}
			if !E.mayWrite[fn] {
				for _, a := range fn.AnonFuncs {
					if E.mayWrite[a] {
						E.mayWrite[fn] = true
						changed = true
						break
					}
				}
			}
		}
	}
	// canFail
	for changed := true; changed; {
		changed = false
		for _, fn := range P.RepoFns {
			if E.canFail[fn] {
				continue
			}
			idx, _ := errIndex(fn.Signature)
			if idx < 0 {
				continue
			}
			for _, ret := range Returns(fn) {
				if E.returnMayFail(ret, idx) {
					E.canFail[fn] = true
					changed = true
					break
				}
			}
		}
	}
	// dirtyFail: fixpoint (monotone: once dirty stays dirty)
	for changed := true; changed; {
		changed = false
		for _, fn := range P.RepoFns {
			if E.dirtyFail[fn] != nil {
				continue
			}
			idx, _ := errIndex(fn.Signature)
			if idx < 0 || !E.mayWrite[fn] {
				continue
			}
			if w := E.analyse(fn, idx); w != nil {
				E.dirtyFail[fn] = w
				changed = true
			}
		}
	}
	return E
}

// returnMayFail: can this return yield a failure in result idx?
func (E *Effects) returnMayFail(ret *ssa.Return, idx int) bool {
	P := E.P
	cls, t := P.retClass(ret, idx)
	switch cls {
	case "nil":
		return false
	case "nonnil":
		return true
	}
	if t == nil {
		return false
	}
	// sdk.Result composite literal without a Code: success
	if t.Op == "complit" && strings.HasSuffix(t.Name, "types.Result") && !strings.Contains(t.String(), "Code=") {
		return false
	}
	if t.Op == "const" && strings.HasPrefix(t.Name, "zero:") {
		return false
	}
	if t.Op == "call" {
		if f := P.Fn(t.Name); f != nil {
			return E.canFail[f]
		}
		return true
	}
	if t.Op == "invoke" {
		for _, f := range E.calleesOfTerm(t) {
			if E.canFail[f] {
				return true
			}
		}
		// library / unknown implementers: assume it can fail
		return len(E.calleesOfTerm(t)) == 0
	}
	if t.Op == "extract" && len(t.Args) == 1 {
		ct := t.Args[0]
		if ct.Op == "call" {
			if f := P.Fn(ct.Name); f != nil {
				return E.canFail[f]
			}
		}
		return true
	}
	return true
}

func (E *Effects) calleesOfTerm(t *Term) []*ssa.Function {
	ci, ok := t.In.(ssa.CallInstruction)
	if !ok {
		return nil
	}
	return E.callees(ci)
}

func (E *Effects) callees(ci ssa.CallInstruction) []*ssa.Function {
	var out []*ssa.Function
	for _, e := range E.P.CG().Out[ci.Parent()] {
		if e.Site == ci && e.Callee != nil && E.P.IsRepoFn(e.Callee) {
			out = append(out, e.Callee)
		}
	}
	return out
}

func (E *Effects) callWrites(ci ssa.CallInstruction) bool {
	if isStoreWrite(ci.Common()) {
		return true
	}
	for _, f := range E.callees(ci) {
		if _, neutral := effectNeutral[short(f.String())]; neutral {
			continue
		}
		if E.mayWrite[f] {
			return true
		}
	}
	return false
}

func (E *Effects) callDirtyFail(ci ssa.CallInstruction) *dirtyWitness {
	for _, f := range E.callees(ci) {
		if w := E.dirtyFail[f]; w != nil {
			return w
		}
	}
	return nil
}

// failureAtomOf returns the atom key that, when established by a branch edge, means "call ci failed".
func (E *Effects) failureKeys(ci ssa.CallInstruction) []string {
	P := E.P
	t := P.callTerm(ci)
	var sig *types.Signature
	if v := ci.Value(); v != nil {
		sig = ci.Common().Signature()
	}
	if sig == nil {
		return nil
	}
	idx, isResult := errIndex(sig)
	if idx < 0 {
		return nil
	}
	s := t.String()
	if sig.Results().Len() > 1 {
		s = fmt.Sprintf("%s#%d", s, idx)
	}
	if isResult {
		return []string{"!(types.Result).IsOK(" + s + ")"}
	}
	return []string{"!isnil(" + s + ")"}
}

// analyse searches fn for a path: write … failure return. Path-sensitive only in that the
// failure branch of a clean-failing callee discards that callee's (unperformed) write.
func (E *Effects) analyse(fn *ssa.Function, idx int) *dirtyWitness {
	P := E.P
	if len(fn.Blocks) == 0 {
		return nil
	}
	// number the writing calls
	var calls []ssa.CallInstruction
	num := map[ssa.Instruction]int{}
	InstrsRaw(fn, func(in ssa.Instruction) {
		if ci, ok := in.(ssa.CallInstruction); ok {
			if _, isDefer := in.(*ssa.Defer); isDefer {
				return
			}
			if E.callWrites(ci) && len(calls) < 60 {
				num[in] = len(calls)
				calls = append(calls, ci)
			}
		}
	})
	if len(calls) == 0 {
		return nil
	}
	fkeys := make([][]string, len(calls))
	for i, c := range calls {
		fkeys[i] = E.failureKeys(c)
	}
	type state struct {
		b    *ssa.BasicBlock
		mask uint64
	}
	seen := map[state]bool{}
	work := []state{{fn.Blocks[0], 0}}
	for len(work) > 0 {
		st := work[len(work)-1]
		work = work[:len(work)-1]
		if seen[st] {
			continue
		}
		seen[st] = true
		mask := st.mask
		for _, in := range st.b.Instrs {
			if n, ok := num[in]; ok {
				mask |= 1 << uint(n)
			}
			if ret, ok := in.(*ssa.Return); ok {
				if !E.returnMayFail(ret, idx) {
					continue
				}
				// which call (if any) is being returned directly (tail call)?
				tail := -1
				if idx < len(ret.Results) {
					t := P.TermAt(ret.Results[idx], ret)
					if t.Op == "extract" && len(t.Args) == 1 {
						t = t.Args[0]
					}
					if ci, ok := t.In.(ssa.CallInstruction); ok {
						if n, ok := num[ci]; ok {
							tail = n
						}
					}
				}
				for i := range calls {
					if mask&(1<<uint(i)) == 0 {
						continue
					}
					if i == tail {
						if w := E.callDirtyFail(calls[i]); w != nil {
							return &dirtyWitness{Fn: fn, Write: calls[i], Return: ret, Via: w, Note: "returns the result of a callee that can fail after writing"}
						}
						continue
					}
					_, nm := calleeName(calls[i].Common())
					w := &dirtyWitness{Fn: fn, Write: calls[i], Return: ret, Note: nm}
					if _, ok := vettedInfeasible[w.Key(P)]; ok {
						continue
					}
					return w
				}
			}
		}
		for si, succ := range st.b.Succs {
			m := mask
			if ifi, ok := st.b.Instrs[len(st.b.Instrs)-1].(*ssa.If); ok && len(st.b.Succs) == 2 && m != 0 {
				atoms := P.condAtoms(ifi.Cond, ifi, si == 0, 0)
				for i := range calls {
					if m&(1<<uint(i)) == 0 {
						continue
					}
					for _, a := range atoms {
						for _, fk := range fkeys[i] {
							if a.Key() == fk && E.callDirtyFail(calls[i]) == nil && !isStoreWrite(calls[i].Common()) {
								m &^= 1 << uint(i) // the callee failed cleanly: its write did not happen
							}
						}
					}
				}
			}
			work = append(work, state{succ, m})
		}
	}
	return nil
}

// sortedFns returns functions sorted by name.
func sortedFns(m map[*ssa.Function]bool) []*ssa.Function {
	var out []*ssa.Function
	for f, ok := range m {
		if ok {
			out = append(out, f)
		}
	}
	sort.Slice(out, func(i, j int) bool { return out[i].String() < out[j].String() })
	return out
}
