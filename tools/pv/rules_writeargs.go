package main

import (
	_ "embed"
	"encoding/json"
	"fmt"
	"sort"
	"strings"
)

// What is written is what was computed. pinned_write_args.json records, for every (function, store-writing callee)
// pair of the pinned tree, the normalised argument terms of each such call (`pv -dump writeargs`): the key, the value,
// the record, the amount handed to the setter. RWA1: every pinned argument list is still passed at some call site of
// that pair — a setter fed a stale copy, the other of two similar values, or an amount computed from the wrong operand
// is a changed argument term. Arguments that depend on merged or loop-carried values are compared as wildcards; new
// call sites of a pair are the business of RWG3.

//go:embed pinned_write_args.json
var pinnedWriteArgsJSON []byte

func (P *Prog) writeArgs() map[string][]string {
	m := map[string]map[string]bool{}
	for _, s := range P.writeSites() {
		k := short(s.caller.String()) + " → " + s.label
		if m[k] == nil {
			m[k] = map[string]bool{}
		}
		m[k][strings.Join(s.args, " ¦ ")] = true
	}
	out := map[string][]string{}
	for k, set := range m {
		for a := range set {
			out[k] = append(out[k], a)
		}
		sort.Strings(out[k])
	}
	return out
}

func dumpWriteArgs(P *Prog) {
	b, _ := json.MarshalIndent(P.writeArgs(), "", " ")
	fmt.Println(string(b))
}

func argsMatch(want, have string) bool {
	w, h := strings.Split(want, " ¦ "), strings.Split(have, " ¦ ")
	if len(w) != len(h) {
		return false
	}
	for i := range w {
		if w[i] != h[i] && w[i] != "_" && h[i] != "_" {
			return false
		}
	}
	return true
}

func writeArgsFrozen(r *Run, rule string) {
	P := r.P
	r.Rule(rule, "what is written is what was computed: for every (function, store-writing callee) pair in scope, each argument list passed on the pinned tree (pinned_write_args.json; normalised terms, wildcards for merged / loop-carried values) is still passed at some call site of the pair", 1)
	var pinned map[string][]string
	if err := json.Unmarshal(pinnedWriteArgsJSON, &pinned); err != nil || len(pinned) == 0 {
		r.Undecided(rule, "table", "-", "pinned_write_args.json is empty or unreadable")
		return
	}
	cur := P.writeArgs()
	var keys []string
	for k := range pinned {
		cn := strings.SplitN(k, " → ", 2)[0]
		if f := P.Fn(cn); f != nil && (r.Anchors[f] || inScope(r.Prop, f)) {
			keys = append(keys, k)
		}
	}
	sort.Strings(keys)
	changed, n := 0, 0
	for _, k := range keys {
		have := cur[k]
		if len(have) == 0 {
			continue // the pair vanished: RWG2
		}
		for _, w := range pinned[k] {
			n++
			ok := false
			for _, h := range have {
				if argsMatch(w, h) {
					ok = true
					break
				}
			}
			if !ok {
				changed++
				cn := strings.SplitN(k, " → ", 2)[0]
				r.Viol(rule, "write-args-changed:"+k+":"+k2short(w), P.Pos(P.Fn(cn).Pos()), k+": on the pinned tree this call was made with ("+oneLine(w)+") ; no call site of the pair passes that any more (now: "+oneLine(strings.Join(have, "  ||  "))+")")
			}
		}
	}
	r.OK(rule, "write-args-compared", "-", fmt.Sprintf("%d pinned argument lists in scope compared, %d changed", n, changed))
}

func init() {
	for i := 1; i <= 20; i++ {
		p := fmt.Sprintf("C%02d", i)
		extend(p, func(r *Run) { writeArgsFrozen(r, p+"-RWA1") })
	}
}
