package main

import (
	"regexp"
	"strings"

	"golang.org/x/tools/go/ssa"
)

// checkMultisigVerify: N-of-N positional multisignature verification (C19-R2, also required by C03).
func checkMultisigVerify(r *Run, rule string) {
	P := r.P
	r.Rule(rule, "PublicKeyMultiSignature.VerifyBytes returns true only if the signature decodes, NumOfSigs()==len(PublicKeys), and for every index i from 0 up to that bound PublicKeys[i].VerifyBytes(msg, signature_i) held; a missing or bad component returns false", 6)
	f := r.fn("(crypto.PublicKeyMultiSignature).VerifyBytes")
	if f == nil {
		return
	}
	ms := "out:crypto.MultiSig←(*github.com/tendermint/go-amino.Codec).UnmarshalBinaryBare(global:crypto.cdc, param:multiSignature, addr:crypto.MultiSig)"
	n := "crypto.MultiSig.NumOfSigs(" + ms + ")"
	// the loop over the components may be counted (i := 0; i < NumOfSigs; i++) or range over the keys (same bound under
	// the count==keys guard); go/ssa spells the index phi((loop+1), 0) resp. (phi(-1, loop) + 1)
	idxRe := `(?:phi\(\(loop:\w+ \+ 1\), 0\)|\(phi\(-1, loop:\w+\) \+ 1\))`
	boundRe := `(?:` + q(n) + `|len\(param:pms\.PublicKeys\))`
	nTrue := 0
	for _, ret := range Returns(f) {
		c, _ := P.retClass(ret, 0)
		if c == "false" {
			continue
		}
		nTrue++
		r.requireAtoms(rule, "multisig.VerifyBytes/true-return", ret, P.Guards(ret, 0), []req{
			{"decoded", `^isnil\(\(\*github\.com/tendermint/go-amino\.Codec\)\.UnmarshalBinaryBare\(global:crypto\.cdc, param:multiSignature, addr:crypto.MultiSig\)\)$`},
			{"count==keys", `^\(` + q(n) + ` == len\(param:pms\.PublicKeys\)\)$`},
			{"loop-finished", `^!\(` + idxRe + ` < ` + boundRe + `\)$`},
		})
	}
	r.Check(nTrue == 1, rule, "multisig.VerifyBytes/one-true-return", P.Pos(f.Pos()), "exactly one return can yield true", "the number of returns that can yield true is not 1")
	vs := CallsIn(f, "crypto.PublicKey.VerifyBytes")
	if len(vs) != 1 {
		r.Viol(rule, "multisig.VerifyBytes/component-check", P.Pos(f.Pos()), "expected exactly one component VerifyBytes call in the loop")
		return
	}
	v := vs[0]
	t := P.callTerm(v)
	okArgs := false
	if m := regexp.MustCompile(`^param:pms\.PublicKeys\[(` + idxRe + `)\]$`).FindStringSubmatch(argTerm(t, 0).String()); m != nil {
		// same index for key and signature
		okArgs = argTerm(t, 1).String() == "param:msg" && argTerm(t, 2).String() == "crypto.MultiSig.GetSignatureByIndex("+ms+", "+m[1]+")#0"
	}
	r.Check(okArgs, rule, "multisig.VerifyBytes/positional", P.InstrPos(v), "PublicKeys[i].VerifyBytes(msg, sig_i) with the same i", "component check is "+t.String()+" ; required PublicKeys[i].VerifyBytes(msg, GetSignatureByIndex(i)) with the same i")
	// every iteration performs the component check: from the loop-continue edge to the next loop test
	isCmp := func(in ssa.Instruction) bool {
		ifi, ok := in.(*ssa.If)
		if !ok {
			return false
		}
		tt, _ := P.condAtom(ifi.Cond, ifi)
		return strings.HasPrefix(tt.String(), "(phi((loop:") && strings.Contains(tt.String(), " < "+n)
	}
	_ = isCmp
	// a failed component check never leads to `true`: from the !VerifyBytes edge no true-return and no further iteration
	for _, e := range P.ifEdgesFor(f, `^!crypto\.PublicKey\.VerifyBytes\(`) {
		reach, w, _ := ReachFromBlock(e.B.Succs[e.I], func(in ssa.Instruction) bool {
			if ret, ok := in.(*ssa.Return); ok {
				c, _ := P.retClass(ret, 0)
				return c != "false"
			}
			return in == ssa.Instruction(v)
		}, nil, nil)
		r.Check(!reach, rule, "multisig.VerifyBytes/bad-component=>false", P.InstrPos(v), "a failed component leads only to `return false`", "after a failed component check the function can continue to "+P.InstrPos(w))
	}
	for _, e := range P.ifEdgesFor(f, `^!crypto\.MultiSig\.GetSignatureByIndex\(.*\)#1$`) {
		reach, w, _ := ReachFromBlock(e.B.Succs[e.I], func(in ssa.Instruction) bool {
			if ret, ok := in.(*ssa.Return); ok {
				c, _ := P.retClass(ret, 0)
				return c != "false"
			}
			return in == ssa.Instruction(v)
		}, nil, nil)
		r.Check(!reach, rule, "multisig.VerifyBytes/missing-component=>false", P.InstrPos(v), "a missing component leads only to `return false`", "after a missing component the function can continue to "+P.InstrPos(w))
	}
	// loop body always checks: from the (i < n) true edge the component check or a false-return is reached before the next test
	r.mustFollowEdge(rule, "multisig.VerifyBytes/every-index-checked", f, `^\(`+idxRe+` < `+boundRe+`\)$`,
		func(in ssa.Instruction) bool {
			if in == ssa.Instruction(v) {
				return true
			}
			if ret, ok := in.(*ssa.Return); ok {
				c, _ := P.retClass(ret, 0)
				return c == "false"
			}
			return false
		}, nil, "the component check (or return false)")
	if g := r.fn("(crypto.MultiSignature).NumOfSigs"); g != nil {
		for _, ret := range Returns(g) {
			tt := P.TermAt(ret.Results[0], ret).String()
			r.Check(tt == "len(param:ms.Sigs)", rule, "MultiSignature.NumOfSigs", P.InstrPos(ret), tt, "NumOfSigs is "+tt)
		}
	}
	if g := r.fn("(crypto.MultiSignature).GetSignatureByIndex"); g != nil {
		for _, ret := range Returns(g) {
			c, _ := P.retClass(ret, 1)
			if c == "true" || c == "unknown" {
				tt := P.TermAt(ret.Results[0], ret).String()
				r.Check(tt == "param:ms.Sigs[param:i]", rule, "MultiSignature.GetSignatureByIndex", P.InstrPos(ret), tt, "GetSignatureByIndex(i) yields "+tt)
			}
		}
	}
}
