package main

import (
	_ "embed"
	"encoding/json"
	"fmt"
	"go/types"
	"regexp"
	"sort"
	"strings"

	"golang.org/x/tools/go/ssa"
)

// Leaf definitions are frozen. A function whose body is a single basic block (no branch, no loop) is fully
// described by the normalised terms of what it returns, stores and calls for effect: parameter getters
// (`k.Paramstore.Get(ctx, KeyX, &res); return res`), key builders, comparison helpers (`i.Cmp(i2) <= 0`), arithmetic
// helpers (`new(big.Int).Quo(i, i2)`), one-line forwarders. pinned_leaf_terms.json records these terms for every such
// function of the repo (`pv -dump leafterms`); RT1 requires them unchanged: a changed operator, operand, key or callee
// in such a helper silently changes every caller. Presentation helpers (String, Format, MarshalYAML, Error, logging)
// are excluded. Functions that gain or lose control flow are not compared here (the guard-based rules see them).

//go:embed pinned_leaf_terms.json
var pinnedLeafTermsJSON []byte

func presentationName(n string) bool {
	for _, s := range []string{".String", ".Format", ".MarshalYAML", ".Error", ".GoString", "Logger", ".Name", ".Route", ".QuerierRoute", "Cmd", "CLI"} {
		if strings.HasSuffix(n, s) || strings.Contains(n, s+"$") {
			return true
		}
	}
	return false
}

// leafTerms: for every single-block repo function: sorted list of "ret#i=<term>", "store <addr>:=<term>", "call <term>".
func (P *Prog) leafTerms() map[string][]string {
	out := map[string][]string{}
	for _, f := range P.RepoFns {
		if f.Parent() != nil || len(f.Blocks) != 1 || f.Synthetic != "" || P.isNewHelper(f) {
			continue
		}
		n := short(f.String())
		if presentationName(n) {
			continue
		}
		if len(f.Blocks[0].Instrs) > 40 {
			// long straight-line code is not a leaf helper — except a function that just returns a table literal
			isTable := false
			for _, in := range f.Blocks[0].Instrs {
				if ret, ok := in.(*ssa.Return); ok {
					for _, rv := range ret.Results {
						if a := literalBase(rv); a != nil && sliceBase(a) == nil {
							isTable = true
						}
					}
				}
			}
			if !isTable || len(f.Blocks[0].Instrs) > 400 {
				continue
			}
		}
		var ts []string
		calls := false
		// byte strings assembled from parts (key builders): compared as the ordered list of their parts, so that
		// append(prefix, b...) and make+copy+copy are the same definition
		consumed := map[ssa.Value]bool{}
		retSig := map[int]string{}
		for _, in := range f.Blocks[0].Instrs {
			if ret, ok := in.(*ssa.Return); ok {
				for i, rv := range ret.Results {
					if !isByteSlice(rv.Type()) {
						continue
					}
					if sig, ok := P.byteSig(f, rv, ret, consumed, 0); ok {
						retSig[i] = "concat(" + strings.Join(sig, " | ") + ")"
					}
				}
			}
		}
		// a returned slice literal of structs (a table such as ParamSetPairs) is the set of its rows
		rows := map[*ssa.Alloc]map[string][]string{}
		for _, in := range f.Blocks[0].Instrs {
			if ret, ok := in.(*ssa.Return); ok {
				for _, rv := range ret.Results {
					if a := literalBase(rv); a != nil && sliceBase(a) == nil {
						rows[a] = map[string][]string{}
					}
				}
			}
		}
		for _, in := range f.Blocks[0].Instrs {
			st, ok := in.(*ssa.Store)
			if !ok {
				continue
			}
			if ia, ok := st.Addr.(*ssa.IndexAddr); ok {
				if a, ok := ia.X.(*ssa.Alloc); ok && rows[a] != nil {
					idx := P.TermAt(ia.Index, st).String()
					rows[a][idx] = append(rows[a][idx], canonAtom(P.TermAt(st.Val, st).String()))
				}
				continue
			}
			fa, ok := st.Addr.(*ssa.FieldAddr)
			if !ok {
				continue
			}
			ia, ok := fa.X.(*ssa.IndexAddr)
			if !ok {
				continue
			}
			a, ok := ia.X.(*ssa.Alloc)
			if !ok || rows[a] == nil {
				continue
			}
			idx := P.TermAt(ia.Index, st).String()
			rows[a][idx] = append(rows[a][idx], fieldNameAt(deref(ia.Type()), []int{fa.Field})+"="+canonAtom(P.TermAt(st.Val, st).String()))
		}
		for _, m := range rows {
			for _, fs := range m {
				sort.Strings(fs)
				ts = append(ts, "row{"+strings.Join(fs, ", ")+"}")
			}
		}
		for _, in := range f.Blocks[0].Instrs {
			switch x := in.(type) {
			case *ssa.Return:
				for i, rv := range x.Results {
					if sg, ok := retSig[i]; ok {
						ts = append(ts, fmt.Sprintf("ret#%d=%s", i, sg))
						continue
					}
					ts = append(ts, fmt.Sprintf("ret#%d=%s", i, canonAtom(P.TermAt(rv, x).String())))
				}
			case *ssa.Store:
				a := P.TermAt(x.Addr, x).String()
				if strings.HasPrefix(a, "addr:") || strings.HasPrefix(a, "&addr:") || strings.HasPrefix(a, "&&addr:") {
					continue // local bookkeeping (receiver copies, composite literals, varargs)
				}
				if ia, ok := x.Addr.(*ssa.IndexAddr); ok {
					if m := sliceBase(ia.X); m != nil && consumed[m] {
						continue
					}
				}
				ts = append(ts, "store "+canonAtom(a)+":="+canonAtom(P.TermAt(x.Val, x).String()))
			case *ssa.Call:
				calls = true
				if dst := byteWriteDst(x); dst != nil {
					if m := sliceBase(dst); m != nil && consumed[m] {
						continue
					}
				}
				if x.Referrers() != nil && len(*x.Referrers()) == 0 {
					ts = append(ts, "call "+canonAtom(P.callTerm(x).String()))
				}
			case *ssa.Defer, *ssa.Go, *ssa.Panic:
				ts = append(ts, fmt.Sprintf("%T", in))
			}
		}
		_ = calls
		if len(ts) == 0 {
			continue
		}
		sort.Strings(ts)
		out[n] = ts
	}
	return out
}

// literalBase: the array allocated for a slice literal that v is (a full window of), or nil.
func literalBase(v ssa.Value) *ssa.Alloc {
	for i := 0; i < 4; i++ {
		switch x := v.(type) {
		case *ssa.Slice:
			v = x.X
		case *ssa.ChangeType:
			v = x.X
		case *ssa.Alloc:
			if _, ok := deref(x.Type()).Underlying().(*types.Array); ok {
				return x
			}
			return nil
		default:
			return nil
		}
	}
	return nil
}

func isByteSlice(t types.Type) bool {
	sl, ok := t.Underlying().(*types.Slice)
	if !ok {
		return false
	}
	b, ok := sl.Elem().Underlying().(*types.Basic)
	return ok && b.Kind() == types.Uint8
}

// sliceBase: the make([]byte, …) buffer a slice value is (a window of), or nil.
func sliceBase(v ssa.Value) ssa.Value {
	for i := 0; i < 6; i++ {
		switch x := v.(type) {
		case *ssa.MakeSlice:
			return x
		case *ssa.Alloc: // make([]byte, <constant>) is compiled to new([n]byte)[:]
			if a, ok := deref(x.Type()).Underlying().(*types.Array); ok {
				if b, ok := a.Elem().Underlying().(*types.Basic); ok && b.Kind() == types.Uint8 {
					return x
				}
			}
			return nil
		case *ssa.Slice:
			v = x.X
		case *ssa.ChangeType:
			v = x.X
		default:
			return nil
		}
	}
	return nil
}

// byteWriteDst: the destination of copy(dst, src) / binary.*.PutUintNN(dst, v), or nil.
func byteWriteDst(c *ssa.Call) ssa.Value {
	if b, ok := c.Call.Value.(*ssa.Builtin); ok && b.Name() == "copy" && len(c.Call.Args) == 2 {
		return c.Call.Args[0]
	}
	_, name := calleeName(&c.Call)
	if strings.Contains(name, "encoding/binary.") && strings.Contains(name, ").PutUint") && len(c.Call.Args) == 3 {
		return c.Call.Args[1]
	}
	return nil
}

// byteSig: the ordered parts of a byte string assembled in a single-block function: append(a, b...) is parts(a) then
// parts(b); a make([]byte, n) buffer is the sequence of what is written into it (copy sources, PutUintNN values,
// indexed stores) in program order. ok is false when the value is not such an assembly (plain terms are compared).
func (P *Prog) byteSig(f *ssa.Function, v ssa.Value, at ssa.Instruction, consumed map[ssa.Value]bool, depth int) ([]string, bool) {
	if depth > 6 {
		return nil, false
	}
	opaque := func() []string { return []string{canonAtom(P.TermAt(v, at).String())} }
	switch x := v.(type) {
	case *ssa.ChangeType:
		return P.byteSig(f, x.X, at, consumed, depth+1)
	case *ssa.Slice:
		if x.Low == nil && x.High == nil && x.Max == nil {
			return P.byteSig(f, x.X, at, consumed, depth+1)
		}
		if _, isBuf := x.X.(*ssa.Alloc); isBuf && x.Low == nil && sliceBase(x.X) != nil {
			return P.byteSig(f, x.X, at, consumed, depth+1) // new([n]byte)[:n]
		}
	case *ssa.Alloc:
		if sliceBase(x) != nil {
			return P.bufferParts(f, x, consumed, depth)
		}
	case *ssa.Call:
		if b, ok := x.Call.Value.(*ssa.Builtin); ok && b.Name() == "append" && len(x.Call.Args) == 2 && isByteSlice(x.Call.Args[1].Type()) {
			l, ok1 := P.byteSig(f, x.Call.Args[0], x, consumed, depth+1)
			if !ok1 {
				l = []string{canonAtom(P.TermAt(x.Call.Args[0], x).String())}
			}
			r, ok2 := P.byteSig(f, x.Call.Args[1], x, consumed, depth+1)
			if !ok2 {
				r = []string{canonAtom(P.TermAt(x.Call.Args[1], x).String())}
			}
			return append(l, r...), true
		}
	case *ssa.MakeSlice:
		return P.bufferParts(f, x, consumed, depth)
	}
	_ = opaque
	return nil, false
}

// bufferParts: what is written into buffer x, in program order.
func (P *Prog) bufferParts(f *ssa.Function, x ssa.Value, consumed map[ssa.Value]bool, depth int) ([]string, bool) {
	var parts []string
	for _, in := range f.Blocks[0].Instrs {
		switch w := in.(type) {
		case *ssa.Call:
			dst := byteWriteDst(w)
			if dst == nil || sliceBase(dst) != x {
				continue
			}
			if len(w.Call.Args) == 2 { // copy
				p, ok := P.byteSig(f, w.Call.Args[1], w, consumed, depth+1)
				if !ok {
					p = []string{canonAtom(P.TermAt(w.Call.Args[1], w).String())}
				}
				parts = append(parts, p...)
			} else {
				_, name := calleeName(&w.Call)
				parts = append(parts, name[strings.LastIndex(name, "encoding/binary."):]+"("+canonAtom(P.TermAt(w.Call.Args[2], w).String())+")")
			}
		case *ssa.Store:
			if ia, ok := w.Addr.(*ssa.IndexAddr); ok && sliceBase(ia.X) == x {
				parts = append(parts, "byte@"+canonAtom(P.TermAt(ia.Index, w).String())+"="+canonAtom(P.TermAt(w.Val, w).String()))
			}
		}
	}
	if len(parts) == 0 {
		return nil, false
	}
	consumed[x] = true
	return parts, true
}

func dumpLeafTerms(P *Prog) {
	b, _ := json.MarshalIndent(P.leafTerms(), "", " ")
	fmt.Println(string(b))
}

func leafTermsFrozen(r *Run, rule string) {
	P := r.P
	r.Rule(rule, "leaf helpers mean what they meant: every branch-free function (getter, key builder, comparison or arithmetic helper, forwarder) in scope returns, stores and calls exactly the normalised terms it did on the pinned tree (pinned_leaf_terms.json); presentation helpers excluded. Scope: anchors of this property's rules and its packages", 1)
	var pinned map[string][]string
	if err := json.Unmarshal(pinnedLeafTermsJSON, &pinned); err != nil || len(pinned) == 0 {
		r.Undecided(rule, "table", "-", "pinned_leaf_terms.json is empty or unreadable")
		return
	}
	cur := P.leafTerms()
	var names []string
	for n := range pinned {
		f := P.Fn(n)
		if f == nil {
			continue
		}
		if r.Anchors[f] || inScope(r.Prop, f) {
			names = append(names, n)
		}
	}
	sort.Strings(names)
	changed, compared := 0, 0
	for _, n := range names {
		have, ok := cur[n]
		if !ok {
			// gained control flow: the value it used to return must still be one of the values it returns (a guard in
			// front of it is the business of the guard rules); a boolean helper rewritten as `if c { return true };
			// return false` is judged by those rules as well
			f := P.Fn(n)
			if f == nil || len(f.Blocks) < 2 {
				continue
			}
			for _, w := range pinned[n] {
				m := regexp.MustCompile(`^ret#(\d+)=(.*)$`).FindStringSubmatch(w)
				if m == nil || strings.HasPrefix(m[2], "concat(") {
					continue
				}
				idx := int(m[1][0] - '0')
				found, allConst, nret := false, true, 0
				for _, ret := range Returns(f) {
					if idx >= len(ret.Results) {
						continue
					}
					nret++
					t := canonAtom(P.TermAt(ret.Results[idx], ret).String())
					if t == m[2] {
						found = true
					}
					if t != "true" && t != "false" {
						allConst = false
					}
				}
				var other []string
				eidx, _ := errIndex(f.Signature)
				for _, a := range P.RetAlternatives(f, idx) {
					at := canonAtom(a.T.String())
					if at == m[2] {
						found = true
						continue
					}
					if at == "true" || at == "false" {
						continue
					}
					if eidx >= 0 && eidx != idx {
						if c, _ := P.retClass(a.Ret, eidx); c == "nonnil" {
							continue // a refusal, not an answer
						}
					}
					// `return f(x)` written out as `if err := f(x); err != nil { return err }; return nil`: nil exactly
					// when the pinned value is nil
					if at == "nil" && eidx == idx {
						same := false
						for _, g := range a.G {
							if g.Pos && canonAtom(g.Key()) == canonAtom("isnil("+m[2]+")") {
								same = true
							}
						}
						if same {
							continue
						}
					}
					other = append(other, oneLine(at)+" under {"+strings.Join(atomStrings(a.G), " ; ")+"}")
				}
				compared++
				if nret > 0 && found && len(other) > 0 && !allConst {
					changed++
					r.Viol(rule, "leaf-branched:"+n, P.Pos(f.Pos()), n+" was a branch-free helper returning "+oneLine(m[2])+" ; it now also answers "+strings.Join(other, " / ")+": callers on that branch silently get a different value")
				}
				if nret > 0 && !found && !allConst {
					changed++
					r.Viol(rule, "leaf-branched:"+n, P.Pos(f.Pos()), n+" was a branch-free helper returning "+oneLine(m[2])+" ; it now has branches and none of its returns yields that value any more: every caller silently gets the new meaning")
				}
			}
			continue
		}
		compared++
		want := pinned[n]
		if strings.Join(have, "\n") == strings.Join(want, "\n") {
			continue
		}
		hs := map[string]bool{}
		for _, t := range have {
			hs[t] = true
		}
		ws := map[string]bool{}
		for _, t := range want {
			ws[t] = true
		}
		var lost, added []string
		for _, t := range want {
			if !hs[t] {
				lost = append(lost, t)
			}
		}
		for _, t := range have {
			if !ws[t] {
				added = append(added, t)
			}
		}
		changed++
		f := P.Fn(n)
		r.Viol(rule, "leaf-changed:"+n, P.Pos(f.Pos()), n+" is a branch-free helper whose definition changed: was {"+oneLine(strings.Join(lost, " ; "))+"} now {"+oneLine(strings.Join(added, " ; "))+"}: every caller silently gets the new meaning")
	}
	r.OK(rule, "leaf-helpers-compared", "-", fmt.Sprintf("%d branch-free helpers in scope compared, %d changed", compared, changed))
}

func init() {
	for i := 1; i <= 20; i++ {
		p := fmt.Sprintf("C%02d", i)
		extend(p, func(r *Run) { leafTermsFrozen(r, p+"-RT1") })
	}
}
