package main

import (
	_ "embed"
	"encoding/json"
	"fmt"
	"sort"
	"strings"

	"golang.org/x/tools/go/ssa"
)

// Leaf definitions are frozen. A function whose body is a single basic block (no branch, no loop) is fully
// described by the normalised terms of what it returns, stores and calls for effect: parameter getters
// (`k.Paramstore.Get(ctx, KeyX, &res); return res`), key builders, comparison helpers (`i.Cmp(i2) <= 0`), arithmetic
// helpers (`new(big.Int).Quo(i, i2)`), one-line forwarders. pinned_leaf_terms.json records these terms for every such
// function of the repo (`pv -dump leafterms`); RT1 requires them unchanged: a changed operator, operand, key or callee
// in such a helper silently changes every caller. Presentation helpers (String, Format, MarshalYAML, Error, logging)
// are excluded. Functions that gain or lose control flow are not compared here (the guard-based rules see them).

//go:embed pinned_leaf_terms.json
var pinnedLeafTermsJSON []byte

func presentationName(n string) bool {
	for _, s := range []string{".String", ".Format", ".MarshalYAML", ".Error", ".GoString", "Logger", ".Name", ".Route", ".QuerierRoute", "Cmd", "CLI"} {
		if strings.HasSuffix(n, s) || strings.Contains(n, s+"$") {
			return true
		}
	}
	return false
}

// leafTerms: for every single-block repo function: sorted list of "ret#i=<term>", "store <addr>:=<term>", "call <term>".
func (P *Prog) leafTerms() map[string][]string {
	out := map[string][]string{}
	for _, f := range P.RepoFns {
		if f.Parent() != nil || len(f.Blocks) != 1 || f.Synthetic != "" || P.isNewHelper(f) {
			continue
		}
		n := short(f.String())
		if presentationName(n) || len(f.Blocks[0].Instrs) > 40 {
			continue
		}
		var ts []string
		calls := false
		for _, in := range f.Blocks[0].Instrs {
			switch x := in.(type) {
			case *ssa.Return:
				for i, rv := range x.Results {
					ts = append(ts, fmt.Sprintf("ret#%d=%s", i, canonAtom(P.TermAt(rv, x).String())))
				}
			case *ssa.Store:
				a := P.TermAt(x.Addr, x).String()
				if strings.HasPrefix(a, "addr:") || strings.HasPrefix(a, "&addr:") {
					continue // local bookkeeping (receiver copies, composite literals, varargs)
				}
				ts = append(ts, "store "+canonAtom(a)+":="+canonAtom(P.TermAt(x.Val, x).String()))
			case *ssa.Call:
				calls = true
				if x.Referrers() != nil && len(*x.Referrers()) == 0 {
					ts = append(ts, "call "+canonAtom(P.callTerm(x).String()))
				}
			case *ssa.Defer, *ssa.Go, *ssa.Panic:
				ts = append(ts, fmt.Sprintf("%T", in))
			}
		}
		_ = calls
		if len(ts) == 0 {
			continue
		}
		sort.Strings(ts)
		out[n] = ts
	}
	return out
}

func dumpLeafTerms(P *Prog) {
	b, _ := json.MarshalIndent(P.leafTerms(), "", " ")
	fmt.Println(string(b))
}

func leafTermsFrozen(r *Run, rule string) {
	P := r.P
	r.Rule(rule, "leaf helpers mean what they meant: every branch-free function (getter, key builder, comparison or arithmetic helper, forwarder) in scope returns, stores and calls exactly the normalised terms it did on the pinned tree (pinned_leaf_terms.json); presentation helpers excluded. Scope: anchors of this property's rules and its packages", 1)
	var pinned map[string][]string
	if err := json.Unmarshal(pinnedLeafTermsJSON, &pinned); err != nil || len(pinned) == 0 {
		r.Undecided(rule, "table", "-", "pinned_leaf_terms.json is empty or unreadable")
		return
	}
	cur := P.leafTerms()
	var names []string
	for n := range pinned {
		f := P.Fn(n)
		if f == nil {
			continue
		}
		if r.Anchors[f] || inScope(r.Prop, f) {
			names = append(names, n)
		}
	}
	sort.Strings(names)
	changed, compared := 0, 0
	for _, n := range names {
		have, ok := cur[n]
		if !ok {
			continue // gained control flow or vanished: other rules
		}
		compared++
		want := pinned[n]
		if strings.Join(have, "\n") == strings.Join(want, "\n") {
			continue
		}
		hs := map[string]bool{}
		for _, t := range have {
			hs[t] = true
		}
		ws := map[string]bool{}
		for _, t := range want {
			ws[t] = true
		}
		var lost, added []string
		for _, t := range want {
			if !hs[t] {
				lost = append(lost, t)
			}
		}
		for _, t := range have {
			if !ws[t] {
				added = append(added, t)
			}
		}
		changed++
		f := P.Fn(n)
		r.Viol(rule, "leaf-changed:"+n, P.Pos(f.Pos()), n+" is a branch-free helper whose definition changed: was {"+oneLine(strings.Join(lost, " ; "))+"} now {"+oneLine(strings.Join(added, " ; "))+"}: every caller silently gets the new meaning")
	}
	r.OK(rule, "leaf-helpers-compared", "-", fmt.Sprintf("%d branch-free helpers in scope compared, %d changed", compared, changed))
}

func init() {
	for i := 1; i <= 20; i++ {
		p := fmt.Sprintf("C%02d", i)
		extend(p, func(r *Run) { leafTermsFrozen(r, p+"-RT1") })
	}
}
