package main

import (
	"fmt"
	"go/types"
	"sort"
	"strings"

	"golang.org/x/tools/go/ssa"
)

func init() { register("C01", checkC01) }

// roots of consensus execution (BLOCK) and of restart (STARTUP); re-resolved on every run.
var blockRoots = []string{
	"(*baseapp.BaseApp).InitChain", "(*baseapp.BaseApp).BeginBlock", "(*baseapp.BaseApp).DeliverTx", "(*baseapp.BaseApp).EndBlock", "(*baseapp.BaseApp).Commit",
	"(*types/module.Manager).InitGenesis", "(*types/module.Manager).BeginBlock", "(*types/module.Manager).EndBlock",
	"(x/auth.AppModule).InitGenesis", "(x/auth.AppModule).BeginBlock", "(x/auth.AppModule).EndBlock",
	"(x/gov.AppModule).InitGenesis", "(x/gov.AppModule).BeginBlock", "(x/gov.AppModule).EndBlock",
	"(x/pos.AppModule).InitGenesis", "(x/pos.AppModule).BeginBlock", "(x/pos.AppModule).EndBlock",
	"x/pos.NewHandler$1", "x/gov.NewHandler$1", "x/auth.NewAnteHandler$1",
	"(*baseapp.BaseApp).LoadLatestVersion", "(*baseapp.BaseApp).LoadVersion", "(*baseapp.BaseApp).initFromMainStore", "(*store/rootmulti.Store).LoadVersion",
}

// nondeterminism sinks matched at the call site (resolved callee names)
func nondetSink(label string) string {
	switch {
	case label == "time.Now" || label == "time.Since" || label == "time.Until":
		return "wall clock"
	case strings.HasPrefix(label, "math/rand.") || strings.HasPrefix(label, "(*math/rand.Rand)."):
		return "pseudo-random numbers"
	case strings.HasPrefix(label, "crypto/rand."):
		return "randomness"
	case label == "os.Getenv" || label == "os.LookupEnv" || label == "os.Hostname" || label == "os.Getpid":
		return "process environment"
	case strings.HasPrefix(label, "net/http.") || strings.HasPrefix(label, "net."):
		return "network"
	case strings.HasPrefix(label, "github.com/tendermint/tendermint/rpc/client."):
		return "tendermint rpc"
	case strings.HasPrefix(label, "runtime.NumGoroutine") || strings.HasPrefix(label, "runtime.NumCPU"):
		return "runtime"
	}
	return ""
}

// mapRangeInfo describes one `range` over a map.
type mapRangeInfo struct {
	fn      *ssa.Function
	rng     *ssa.Range
	next    *ssa.Next
	class   string
	detail  string
	effects []string
}

// classifyMapRange decides how iteration order can influence the outcome (engine E6b).
func (P *Prog) classifyMapRange(fn *ssa.Function, rng *ssa.Range) *mapRangeInfo {
	info := &mapRangeInfo{fn: fn, rng: rng}
	// find the Next instruction
	for _, ref := range *rng.Referrers() {
		if n, ok := ref.(*ssa.Next); ok {
			info.next = n
		}
	}
	if info.next == nil {
		info.class = "unknown"
		return info
	}
	// loop body = instructions reachable from Next's block's "ok" edge until Next is reached again
	hdr := info.next.Block()
	var body []*ssa.BasicBlock
	seen := map[*ssa.BasicBlock]bool{}
	var work []*ssa.BasicBlock
	if len(hdr.Succs) == 2 {
		work = append(work, hdr.Succs[0])
	}
	for len(work) > 0 {
		b := work[len(work)-1]
		work = work[:len(work)-1]
		if seen[b] || b == hdr {
			continue
		}
		seen[b] = true
		body = append(body, b)
		for _, s := range b.Succs {
			work = append(work, s)
		}
	}
	// exit blocks reachable from hdr.Succs[1] also are in `seen` if the body can break into them; restrict to blocks that can reach hdr
	canReachHdr := func(b *ssa.BasicBlock) bool { return reachBlock(b, hdr, nil) }
	localMap := func(v ssa.Value) bool {
		switch x := v.(type) {
		case *ssa.MakeMap:
			return true
		case *ssa.UnOp:
			if al, ok := x.X.(*ssa.Alloc); ok {
				_ = al
				return true
			}
		case *ssa.Phi:
			return true
		}
		return false
	}
	var appends []ssa.Value
	onlyCopy, onlyDelete := true, true
	nEff := 0
	for _, b := range body {
		if !canReachHdr(b) {
			// leaving the loop (break/return): order decides which element triggers it
			for _, in := range b.Instrs {
				if _, ok := in.(*ssa.Return); ok {
					info.effects = append(info.effects, "early return "+P.InstrPos(in))
					onlyCopy, onlyDelete = false, false
					nEff++
				}
			}
			continue
		}
		for _, in := range b.Instrs {
			switch x := in.(type) {
			case *ssa.MapUpdate:
				nEff++
				onlyDelete = false
				if !localMap(x.Map) {
					// update of a map held in a field: still order-independent if keys are distinct (map semantics)
				}
				info.effects = append(info.effects, "mapupdate "+P.TermAt(x.Map, in).String())
			case *ssa.Store:
				// stores to locals/allocs are fine; stores through pointers to non-local memory count
				root, _ := addrPath(x.Addr)
				if _, ok := root.(*ssa.Alloc); ok {
					continue
				}
				if ia, ok := root.(*ssa.IndexAddr); ok {
					if al, isAl := ia.X.(*ssa.Alloc); isAl && (al.Comment == "varargs" || al.Comment == "slicelit") {
						continue // argument list of a variadic call
					}
					// element store into a slice: order decides positions
					nEff++
					onlyCopy, onlyDelete = false, false
					info.effects = append(info.effects, "slice-elem-store "+P.TermAt(ia.X, in).String())
					appends = append(appends, ia.X)
					continue
				}
				nEff++
				onlyCopy, onlyDelete = false, false
				info.effects = append(info.effects, "store "+P.TermAt(x.Addr, in).String())
			case ssa.CallInstruction:
				c := x.Common()
				op, nm := calleeName(c)
				if op == "builtin" {
					switch nm {
					case "append":
						nEff++
						onlyCopy, onlyDelete = false, false
						if v := x.Value(); v != nil {
							appends = append(appends, v)
						}
						info.effects = append(info.effects, "append")
					case "delete":
						nEff++
						onlyCopy = false
						info.effects = append(info.effects, "delete")
					}
					continue
				}
				if isPureCall(nm) {
					continue
				}
				nEff++
				onlyCopy, onlyDelete = false, false
				info.effects = append(info.effects, "call "+nm)
			case *ssa.Send, *ssa.Go:
				nEff++
				onlyCopy, onlyDelete = false, false
				info.effects = append(info.effects, "concurrency")
			}
		}
	}
	switch {
	case nEff == 0:
		info.class = "P0"
		info.detail = "no effect in the loop body"
	case onlyCopy:
		info.class = "P1"
		info.detail = "only map updates (copy / set membership): the resulting map does not depend on the order"
	case onlyDelete:
		info.class = "P3"
		info.detail = "only deletes"
	default:
		// P2: every effect is an append / element store into a slice that is sorted before any other use
		allAppend := true
		for _, e := range info.effects {
			if e != "append" && e != "delete" && !strings.HasPrefix(e, "slice-elem-store") && !strings.HasPrefix(e, "mapupdate") {
				allAppend = false
			}
		}
		if allAppend && P.sortedAfterLoop(fn, hdr, appends) {
			info.class = "P2"
			info.detail = "collected into a slice that is sorted before use"
		} else {
			info.class = "other"
			info.detail = strings.Join(info.effects, "; ")
		}
	}
	return info
}

func isPureCall(nm string) bool {
	for _, p := range []string{".Name", ".String", ".GetStoreType", "len", "cap", ".Key", "copy", ".Bytes", "fmt.Sprintf", "strings.", "tm-db.IsKeyInDomain"} {
		if strings.HasSuffix(nm, p) || strings.HasPrefix(nm, p) {
			return true
		}
	}
	return false
}

// sortedAfterLoop: after the loop (from the loop exit), some sort call receives a value derived from one of the
// appended slices, and it is reached before the function returns on every path.
func (P *Prog) sortedAfterLoop(fn *ssa.Function, hdr *ssa.BasicBlock, slices []ssa.Value) bool {
	if len(hdr.Succs) != 2 {
		return false
	}
	exit := hdr.Succs[1]
	isSort := func(in ssa.Instruction) bool {
		ci, ok := in.(ssa.CallInstruction)
		if !ok {
			return false
		}
		_, nm := calleeName(ci.Common())
		return nm == "sort.Strings" || nm == "sort.Slice" || nm == "sort.SliceStable" || nm == "sort.Sort" || nm == "sort.Stable" || nm == "sort.Ints"
	}
	// the sort must be applied to (a value derived from) one of the collected slices: sorting another slice
	// leaves the collected one in map order
	set := map[ssa.Value]bool{}
	for _, v := range slices {
		set[v] = true
	}
	sortsCollected := func(in ssa.Instruction) bool {
		if !isSort(in) {
			return false
		}
		args := in.(ssa.CallInstruction).Common().Args
		if len(args) == 0 {
			return false
		}
		return len(slices) == 0 || derivesFromAny(args[0], set, map[ssa.Value]bool{}, 0)
	}
	reach, _, _ := ReachFromBlock(exit, isReturn, sortsCollected, nil)
	return !reach
}

// derivesFromAny: v is one of the values in set, or is computed from one through phis, re-slicing, conversions,
// interface boxing, or a local variable that one of them was stored into.
func derivesFromAny(v ssa.Value, set, seen map[ssa.Value]bool, depth int) bool {
	if v == nil || seen[v] || depth > 12 {
		return false
	}
	seen[v] = true
	if set[v] {
		return true
	}
	switch x := v.(type) {
	case *ssa.Phi:
		for _, e := range x.Edges {
			if derivesFromAny(e, set, seen, depth+1) {
				return true
			}
		}
	case *ssa.Slice:
		return derivesFromAny(x.X, set, seen, depth+1)
	case *ssa.Convert:
		return derivesFromAny(x.X, set, seen, depth+1)
	case *ssa.ChangeType:
		return derivesFromAny(x.X, set, seen, depth+1)
	case *ssa.MakeInterface:
		return derivesFromAny(x.X, set, seen, depth+1)
	case *ssa.ChangeInterface:
		return derivesFromAny(x.X, set, seen, depth+1)
	case *ssa.Call:
		// append(s, …) keeps deriving from s
		if b, ok := x.Call.Value.(*ssa.Builtin); ok && b.Name() == "append" && len(x.Call.Args) > 0 {
			return derivesFromAny(x.Call.Args[0], set, seen, depth+1)
		}
		// the result of a helper introduced by a refactoring derives from what the helper returns
		if h := staticCallee(&x.Call); h != nil && isNewHelperFn(h) {
			for _, ret := range Returns(h) {
				for _, res := range ret.Results {
					if derivesFromAny(res, set, seen, depth+1) {
						return true
					}
				}
			}
		}
	case *ssa.Extract:
		return derivesFromAny(x.Tuple, set, seen, depth+1)
	case *ssa.UnOp:
		if al, ok := x.X.(*ssa.Alloc); ok {
			// another load of the same local variable as one of the collected slices
			for m := range set {
				if u, ok := m.(*ssa.UnOp); ok && u.X == ssa.Value(al) {
					return true
				}
			}
			for _, ref := range *al.Referrers() {
				if st, ok := ref.(*ssa.Store); ok && st.Addr == ssa.Value(al) && derivesFromAny(st.Val, set, seen, depth+1) {
					return true
				}
			}
		}
	}
	return false
}

func checkC01(r *Run) {
	P := r.P
	g := P.CG()
	r.NotDecided("determinism of the libraries (amino, IAVL, tendermint) and equality of hashes as values")
	r.NotDecided("that two instances receive the same requests (environment)")
	r.Assumption("IAVL root hashes depend on the order of writes to one tree (AVL shape); writes to different substores are independent")

	var roots []*ssa.Function
	for _, n := range blockRoots {
		if f := r.fnOpt(n); f != nil {
			roots = append(roots, f)
		} else {
			r.Undecided("anchor", n, "-", "consensus root "+n+" does not resolve")
		}
	}
	reached := g.Reach(roots, nil)
	r.Stats["C01_functions_reachable_from_consensus_roots"] = len(reached)

	// ------------------------------------------------------------------ R1
	r.Rule("C01-R1", "no unvetted source of nondeterminism is reachable from consensus execution (InitChain/BeginBlock/DeliverTx/EndBlock/Commit, handlers, restart): wall clock, random numbers, environment, network, goroutines/select, floating point", 3)
	vettedSinks := map[string]string{
		"x/auth.ValidateTransaction|tendermint rpc":          "replay protection reads the node's own tx index (C03-R1); assumption: the index content is a function of the committed chain",
		"store/iavl.newIAVLIterator|goroutine":               "producer goroutine of the IAVL iterator: strictly alternates with the consumer over an unbuffered channel; order fixed by IterateRange",
		"(*store/iavl.iavlIterator).iterateRoutine|select":   "quit/emit select of the iterator producer; the consumer decides which arm is possible",
		"(*store/iavl.iavlIterator).iterateRoutine$1|select": "quit/emit select of the iterator producer; the consumer decides which arm is possible",
		"(x/gov.AppModule).BeginBlock|select":                "select{} after os.Exit on a reached upgrade height (halt path)",
		"(x/gov.AppModule).BeginBlock|process environment":   "os.Getpid to signal the own process on a reached upgrade height (halt path, no state effect)",
		"(*baseapp.BaseApp).halt|process environment":        "os.Getpid to signal the own process at the configured halt height (halt path, no state effect)",
	}
	var fns []*ssa.Function
	for f := range reached {
		fns = append(fns, f)
	}
	sort.Slice(fns, func(i, j int) bool { return fns[i].String() < fns[j].String() })
	nSinks := 0
	for _, f := range fns {
		name := short(f.String())
		for _, e := range g.Out[f] {
			if kind := nondetSink(e.Label); kind != "" {
				nSinks++
				key := name + "|" + kind
				if why, ok := vettedSinks[key]; ok {
					r.OK("C01-R1", "source:"+key, P.InstrPos(e.Site), "vetted: "+why)
				} else {
					r.Viol("C01-R1", "source:"+key+":"+e.Label, P.InstrPos(e.Site), name+" calls "+e.Label+" ("+kind+") and is reachable from consensus execution via "+g.PathTo(reached, f)+": replicas would compute different results")
				}
			}
		}
		Instrs(f, func(in ssa.Instruction) {
			kind := ""
			switch x := in.(type) {
			case *ssa.Go:
				kind = "goroutine"
			case *ssa.Select:
				kind = "select"
			case *ssa.BinOp:
				if b, ok := x.X.Type().Underlying().(*types.Basic); ok && (b.Info()&types.IsFloat) != 0 {
					kind = "float arithmetic"
				}
			case *ssa.Convert:
				if b, ok := x.Type().Underlying().(*types.Basic); ok && (b.Info()&types.IsFloat) != 0 {
					kind = "float conversion"
				}
			}
			if kind == "" {
				return
			}
			nSinks++
			key := name + "|" + kind
			if why, ok := vettedSinks[key]; ok {
				r.OK("C01-R1", "source:"+key, P.InstrPos(in), "vetted: "+why)
			} else {
				r.Viol("C01-R1", "source:"+key, P.InstrPos(in), name+" uses "+kind+" and is reachable from consensus execution via "+g.PathTo(reached, f))
			}
		})
	}
	r.Stats["C01_nondeterminism_sinks_seen"] = nSinks

	// ------------------------------------------------------------------ R2
	r.Rule("C01-R2", "map iteration order cannot leak: every `range` over a map in a function reachable from consensus execution or restart is (P1) a pure copy/membership update, (P2) a collection that is sorted before use, (P3) deletes only, or a vetted per-entry effect on independent objects (one line of reason each). Store writes in map order are NOT accepted: the IAVL root hash depends on insertion order", 15)
	vettedRanges := map[string]string{
		"(store/cachemulti.Store).Write":                      "calls Write on each substore's own cache wrapper: different substores are different trees; within one store cachekv.Write sorts its keys",
		"store/rootmulti.commitStores":                        "commits each substore (independent trees); the resulting infos are hashed through a name-keyed map (commitInfo.Hash -> SimpleHashFromMap)",
		"(*store/rootmulti.Store).LoadVersion":                "loads each mounted substore from the DB (independent); results stored in a map",
		"(*store/rootmulti.Store).SetPruning":                 "sets the pruning option on each substore (independent, idempotent)",
		"(x/gov/types.ACL).Validate":                          "builds the list of unowned parameters only for an error message",
		"(types.KeyTable).maxKeyLength":                       "computes a maximum (commutative)",
		"(types.Subspace).WithKeyTable":                       "copies the key table into the subspace's map (P1) — flagged only because of the panic guard",
		"(x/gov/keeper.Keeper).GetAllParamNameValue":          "builds a map (query path)",
		"(*baseapp.BaseApp).MountKVStores":                    "mounts each store (registration into maps, no state)",
		"(*store/rootmulti.Store).nameToKey":                  "returns the key whose Name() equals the argument; MountStoreWithDB rejects duplicate names, so at most one entry matches and the order cannot matter",
		"(x/gov/keeper.Keeper).GetAllParamNames":              "reads every subspace's keys and fills a map (no writes)",
		"store/cachemulti.NewFromKVStore":                     "creates one cache wrapper per substore and stores it in a map (no store effects)",
		"(*baseapp.BaseApp).MountTransientStores":             "mounts each store (registration into maps, no state)",
		"(*store/rootmulti.Store).CacheMultiStoreWithVersion": "fills a fresh map with one immutable view per substore; on failure the first error met is returned (query path, no state)",
		"(*types/module.Manager).RegisterInvariants":          "lets each module register its invariants into the registry (keyed by module and route; not consensus state)",
		"(*types/module.Manager).RegisterRoutes":              "adds each module's handler and querier under the module's own route name (router tables are keyed by name)",
		"(types/module.BasicManager).DefaultGenesis":          "fills a map keyed by module name",
		"(types/module.BasicManager).RegisterCodec":           "registers each module's types with amino; prefixes derive from the registered names, not from registration order",
		"(types/module.BasicManager).ValidateGenesis":         "validates each module's genesis; the first error met is returned (no state)",
		"x/auth/keeper.NewKeeper":                             "fills the permission map keyed by module name",
	}
	nRanges := 0
	for _, f := range fns {
		f := f
		InstrsRaw(f, func(in ssa.Instruction) {
			rng, ok := in.(*ssa.Range)
			if !ok {
				return
			}
			if _, isMap := rng.X.Type().Underlying().(*types.Map); !isMap {
				return
			}
			nRanges++
			info := P.classifyMapRange(f, rng)
			name := short(P.liftToPinned(f).String())
			key := "map-range@" + short(f.String()) + ":" + P.TermAt(rng.X, rng).String()
			switch info.class {
			case "P0", "P1", "P2", "P3":
				r.OK("C01-R2", key, P.InstrPos(rng), info.class+": "+info.detail)
			default:
				if why, ok := vettedRanges[name]; ok {
					r.OK("C01-R2", key, P.InstrPos(rng), "vetted per-entry effect: "+why+" [effects: "+info.detail+"]")
				} else {
					r.Viol("C01-R2", key, P.InstrPos(rng), short(f.String())+" (reachable from consensus execution via "+g.PathTo(reached, f)+") ranges over the map "+P.TermAt(rng.X, rng).String()+" and its body has order-dependent effects {"+info.detail+"}: Go randomises map iteration order, so replicas perform these effects (store writes, appended results) in different orders")
				}
			}
		})
	}
	r.Stats["C01_map_ranges_reachable"] = nRanges
	// the rest of the repo (constructors, application wiring, query paths): what they build is what consensus
	// execution later walks (NewManager's default Order* slices, router tables), so order must not leak there either
	nWiring := 0
	for _, f := range P.RepoFns {
		if _, ok := reached[f]; ok {
			continue
		}
		f := f
		InstrsRaw(f, func(in ssa.Instruction) {
			rng, ok := in.(*ssa.Range)
			if !ok {
				return
			}
			if _, isMap := rng.X.Type().Underlying().(*types.Map); !isMap {
				return
			}
			nWiring++
			info := P.classifyMapRange(f, rng)
			name := short(P.liftToPinned(f).String())
			key := "map-range@" + short(f.String()) + ":" + P.TermAt(rng.X, rng).String()
			switch info.class {
			case "P0", "P1", "P2", "P3":
				r.OK("C01-R2", key, P.InstrPos(rng), info.class+": "+info.detail)
			default:
				if why, ok := vettedRanges[name]; ok {
					r.OK("C01-R2", key, P.InstrPos(rng), "vetted per-entry effect: "+why+" [effects: "+info.detail+"]")
				} else {
					r.Viol("C01-R2", key, P.InstrPos(rng), short(f.String())+" (construction / wiring / query code) ranges over the map "+P.TermAt(rng.X, rng).String()+" and its body has order-dependent effects {"+info.detail+"}: Go randomises map iteration order, so what this function builds differs from process to process")
				}
			}
		})
	}
	r.Stats["C01_map_ranges_elsewhere"] = nWiring

	// ------------------------------------------------------------------ R3
	r.Rule("C01-R3", "the app hash is order-independent at multistore level: commitInfo.Hash feeds merkle.SimpleHashFromMap with a map keyed by store name, and the CommitID hash returned by Commit/LoadVersion is that function's result", 3)
	if f := r.fn("(store/rootmulti.commitInfo).Hash"); f != nil {
		for _, ret := range Returns(f) {
			t := P.TermAt(ret.Results[0], ret).String()
			r.Check(strings.HasPrefix(t, "github.com/tendermint/tendermint/crypto/merkle.SimpleHashFromMap("), "C01-R3", "commitInfo.Hash/name-keyed", P.InstrPos(ret), t, "commitInfo.Hash returns "+t+" ; required merkle.SimpleHashFromMap(map[name]hash)")
		}
		Instrs(f, func(in ssa.Instruction) {
			if mu, ok := in.(*ssa.MapUpdate); ok {
				k, v := P.TermAt(mu.Key, in).String(), P.TermAt(mu.Value, in).String()
				r.Check(strings.HasSuffix(k, "].Name") && strings.HasPrefix(v, "(store/rootmulti.storeInfo).Hash("), "C01-R3", "commitInfo.Hash/entries", P.InstrPos(in), k+" -> "+v, "hash map entry is "+k+" -> "+v)
			}
		})
	}
	if f := r.fn("(*store/rootmulti.Store).Commit"); f != nil {
		for _, ret := range Returns(f) {
			t := P.TermAt(ret.Results[0], ret).String()
			r.Check(strings.Contains(t, "Hash=(store/rootmulti.commitInfo).Hash(store/rootmulti.commitStores("), "C01-R3", "Commit/hash-source", P.InstrPos(ret), "commit hash = commitInfo.Hash()", "Commit returns "+t)
		}
	}

	// ------------------------------------------------------------------ R4
	r.Rule("C01-R4", "module callbacks run in configured slice order: Manager.BeginBlock/EndBlock/InitGenesis iterate the Order* slices and index the module map only by the loop variable", 3)
	for _, w := range []struct{ fn, order string }{
		{"(*types/module.Manager).BeginBlock", "OrderBeginBlockers"}, {"(*types/module.Manager).EndBlock", "OrderEndBlockers"}, {"(*types/module.Manager).InitGenesis", "OrderInitGenesis"},
	} {
		f := r.fn(w.fn)
		if f == nil {
			continue
		}
		ok := false
		bad := false
		Instrs(f, func(in ssa.Instruction) {
			if lk, ok2 := in.(*ssa.Lookup); ok2 {
				m, k := P.TermAt(lk.X, in).String(), P.TermAt(lk.Index, in).String()
				if m == "param:m.Modules" {
					if strings.HasPrefix(k, "param:m."+w.order+"[") {
						ok = true
					} else {
						bad = true
					}
				}
			}
			if rg, ok2 := in.(*ssa.Range); ok2 {
				if _, isMap := rg.X.Type().Underlying().(*types.Map); isMap {
					bad = true
				}
			}
		})
		r.Check(ok && !bad, "C01-R4", w.fn+"/ordered", P.Pos(f.Pos()), "modules visited in "+w.order+" order", w.fn+" no longer visits the modules in "+w.order+" order (map iteration or another index)")
	}

	// ------------------------------------------------------------------ R5
	r.Rule("C01-R5", "restart re-derives everything: the only in-memory state written from consensus execution in x/… is the validator decode cache (a pure function of the encoded bytes: looked up and inserted under string(value) of the bytes that are decoded) and the gov keeper's subspace table (same value re-stored); baseapp memoizes consensus params exactly as stored", 4)
	if f := r.fn(posK + "validatorCaching"); f != nil {
		keyOK := true
		n := 0
		Instrs(f, func(in ssa.Instruction) {
			switch x := in.(type) {
			case *ssa.Lookup:
				if strings.Contains(P.TermAt(x.X, in).String(), "validatorCache") {
					n++
					if P.TermAt(x.Index, in).String() != "param:value" {
						keyOK = false
					}
				}
			case *ssa.MapUpdate:
				if strings.Contains(P.TermAt(x.Map, in).String(), "validatorCache") {
					n++
					if P.TermAt(x.Key, in).String() != "param:value" {
						keyOK = false
					}
				}
			}
		})
		r.Check(keyOK && n >= 2, "C01-R5", "validatorCaching/keyed-by-encoded-bytes", P.Pos(f.Pos()), "cache is looked up and filled under string(value)", "the validator cache is not keyed by the encoded bytes it decodes (a stale entry could change results between replicas or after restart)")
		if c := r.oneCall("C01-R5", "validatorCaching", f, "x/pos/types.MustUnmarshalValidator"); c != nil {
			r.Check(argTerm(P.callTerm(c), 1).String() == "param:value", "C01-R5", "validatorCaching/decodes-same-bytes", P.InstrPos(c), "decodes param:value", "decodes "+argTerm(P.callTerm(c), 1).String())
		}
	}
	// writers of non-local maps/fields of keeper structs from consensus code in x/
	allowedState := map[string]bool{
		posK + "validatorCaching": true,
		govK + "ModifyParam":      true,
		govK + "HandleUpgrade":    true,
		govK + "Subspace":         true,
		govK + "AddSubspaces":     true,
	}
	for _, f := range fns {
		if f.Pkg == nil || !strings.HasPrefix(short(f.Pkg.Pkg.Path()), "x/") {
			continue
		}
		name := short(enclosingTop(f).String())
		Instrs(f, func(in ssa.Instruction) {
			var what string
			switch x := in.(type) {
			case *ssa.MapUpdate:
				root := x.Map
				if u, ok := root.(*ssa.UnOp); ok {
					if fa, ok := u.X.(*ssa.FieldAddr); ok {
						if _, isParam := fa.X.(*ssa.Alloc); isParam {
							// field of a (copied) receiver struct: a map shared with the keeper
							what = "map field " + P.TermAt(x.Map, in).String()
						}
						if _, isParam := fa.X.(*ssa.Parameter); isParam {
							what = "map field " + P.TermAt(x.Map, in).String()
						}
					}
				}
				if fl, ok := root.(*ssa.Field); ok {
					_ = fl
					what = "map field " + P.TermAt(x.Map, in).String()
				}
			case *ssa.Store:
				if gl, ok := x.Addr.(*ssa.Global); ok {
					what = "global " + gl.Name()
				}
			}
			if what == "" {
				return
			}
			r.Check(allowedState[name], "C01-R5", "in-memory-state@"+name+":"+what, P.InstrPos(in), "vetted in-memory state", name+" (consensus code) writes in-memory state ("+what+") that a restarted instance would not have")
		})
	}
	if f := r.fn("(*baseapp.BaseApp).initFromMainStore"); f != nil {
		if c := r.oneCall("C01-R5", "initFromMainStore", f, "(*baseapp.BaseApp).setConsensusParams"); c != nil {
			gs := P.Guards(c, 0)
			extra := 0
			ms := q("store/types.CommitMultiStore.GetKVStore(param:app.cms, param:baseKey)")
			allowed := []string{
				`^!isnil\(` + ms + `\)$`,
				`^isnil\(param:app\.baseKey\)$`,
				`^!isnil\(store/types\.KVStore\.Get\(` + ms + `, global:baseapp\.mainConsensusParamsKey\)\)$`,
				`^isnil\(github\.com/gogo/protobuf/proto\.Unmarshal\(store/types\.KVStore\.Get\(` + ms + `, global:baseapp\.mainConsensusParamsKey\), .*\)\)$`,
			}
			for _, a := range gs {
				okA := false
				for _, re := range allowed {
					if reMatch(re, a.Key()) {
						okA = true
					}
				}
				if !okA {
					extra++
				}
			}
			r.Check(extra == 0, "C01-R5", "initFromMainStore/params-restored-as-stored", P.InstrPos(c), "stored consensus params are memoized whenever present and decodable", "on restart the stored consensus params are memoized only under {"+strings.Join(atomStrings(gs), " ; ")+"}: a restarted instance can run with different parameters than an uninterrupted one")
		}
	}

	// ------------------------------------------------------------------ R6
	r.Rule("C01-R6", "read-only traffic cannot reach consensus state: the ante cache is written only in Deliver mode (CheckTx never flushes), queries run on a loaded copy (= C11-R2/R7)", 8)
	checkRunTxAnte(r, "C01-R6")
	_ = fmt.Sprint
}
