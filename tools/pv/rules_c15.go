package main

import (
	"fmt"
	"go/types"
	"sort"
	"strings"

	"golang.org/x/tools/go/ssa"
)

func init() { register("C15", checkC15) }

const ckS = "(*store/cachekv.Store)."

// lockDiscipline (E9): every access to the guarded fields of typ happens while typ.mtx is held.
func lockDiscipline(r *Run, rule, pkg, typ, mtxField string, guarded []string, exempt []string) {
	P := r.P
	n := P.NamedType(pkg, typ)
	if n == nil {
		r.Undecided(rule, typ, "-", "type not found")
		return
	}
	st := n.Underlying().(*types.Struct)
	isGuarded := map[string]bool{}
	for _, g := range guarded {
		isGuarded[g] = true
	}
	ex := map[string]bool{}
	for _, e := range exempt {
		ex[e] = true
	}
	// methods/functions of the package
	var fns []*ssa.Function
	for _, fn := range P.RepoFns {
		if fn.Pkg != nil && short(fn.Pkg.Pkg.Path()) == pkg && !isNewHelperFn(fn) {
			fns = append(fns, fn)
		}
	}
	isMtxCall := func(in ssa.Instruction, name string) (bool, string) {
		ci, ok := in.(ssa.CallInstruction)
		if !ok {
			return false, ""
		}
		_, cn := calleeName(ci.Common())
		if cn != "(*sync.Mutex)."+name && cn != "(*sync.RWMutex)."+name {
			return false, ""
		}
		if len(ci.Common().Args) == 0 {
			return false, ""
		}
		fa, ok := ci.Common().Args[0].(*ssa.FieldAddr)
		if !ok {
			return false, ""
		}
		if !types.Identical(types.Unalias(deref(fa.X.Type())), n) || st.Field(fa.Field).Name() != mtxField {
			return false, ""
		}
		return true, P.TermAt(fa.X, in).String()
	}
	type info struct {
		lock     ssa.Instruction
		deferred bool
		accesses []ssa.Instruction
	}
	infos := map[*ssa.Function]*info{}
	for _, fn := range fns {
		inf := &info{}
		Instrs(fn, func(in ssa.Instruction) {
			if ok, _ := isMtxCall(in, "Lock"); ok {
				if _, isDefer := in.(*ssa.Defer); !isDefer && inf.lock == nil {
					inf.lock = in
				}
			}
			if ok, _ := isMtxCall(in, "Unlock"); ok {
				if _, isDefer := in.(*ssa.Defer); isDefer {
					inf.deferred = true
				}
			}
			if fa, ok := in.(*ssa.FieldAddr); ok {
				if types.Identical(types.Unalias(deref(fa.X.Type())), n) && isGuarded[st.Field(fa.Field).Name()] {
					inf.accesses = append(inf.accesses, in)
				}
			}
		})
		infos[fn] = inf
	}
	holdsAt := func(fn *ssa.Function, in ssa.Instruction) bool {
		inf := infos[fn]
		return inf != nil && inf.lock != nil && inf.deferred && Precedes(inf.lock, in)
	}
	g := P.CG()
	nAcc := 0
	for _, fn := range fns {
		inf := infos[fn]
		name := short(fn.String())
		if ex[name] || len(inf.accesses) == 0 {
			continue
		}
		for _, a := range inf.accesses {
			nAcc++
			fa := a.(*ssa.FieldAddr)
			fld := st.Field(fa.Field).Name()
			if holdsAt(fn, a) {
				continue
			}
			if inf.lock != nil {
				r.Viol(rule, name+"/access-before-lock:"+fld, P.InstrPos(a), name+" touches "+typ+"."+fld+" on a path where "+mtxField+" is not held (Lock does not dominate the access or Unlock is not deferred)")
				continue
			}
			// requires-held: every caller must hold the lock at the call site
			callers := g.In[fn]
			if len(callers) == 0 {
				r.Viol(rule, name+"/unlocked-access:"+fld, P.InstrPos(a), name+" touches "+typ+"."+fld+" without taking "+mtxField+" and has no caller that holds it")
				continue
			}
			for _, e := range callers {
				if !holdsAt(e.Caller, e.Site) {
					r.Viol(rule, name+"/caller-without-lock:"+short(e.Caller.String()), P.InstrPos(e.Site), short(e.Caller.String())+" calls "+name+" (which touches "+typ+"."+fld+" and relies on the caller holding "+mtxField+") without holding it")
				}
			}
		}
		if inf.lock != nil {
			r.OK(rule, name+"/locks-then-accesses", P.InstrPos(inf.lock), fmt.Sprintf("%d guarded accesses after Lock with deferred Unlock", len(inf.accesses)))
		} else {
			r.OK(rule, name+"/requires-held", P.Pos(fn.Pos()), "all callers hold the lock")
		}
	}
	r.Stats[rule+"_guarded_field_accesses"] = nAcc
	// no re-entrant locking: a function holding the lock must not call a locking function of the same object
	for _, fn := range fns {
		inf := infos[fn]
		if inf.lock == nil {
			continue
		}
		for _, e := range g.Out[fn] {
			if e.Callee == nil || infos[e.Callee] == nil || infos[e.Callee].lock == nil {
				continue
			}
			if !Precedes(inf.lock, e.Site) {
				continue
			}
			// same receiver?
			ct := P.callTerm(e.Site)
			recv := argTerm(ct, 0).String()
			if recv == "param:store" {
				r.Viol(rule, short(fn.String())+"/re-entrant:"+short(e.Callee.String()), P.InstrPos(e.Site), short(fn.String())+" holds "+mtxField+" and calls "+short(e.Callee.String())+" on the same store, which locks it again (deadlock)")
			}
		}
	}
}

func checkC15(r *Run) {
	P := r.P
	moreC15(r)
	r.NotDecided("merge-iterator output (order, duplicates, tombstones over arbitrary ranges) — a runtime property of cacheMergeIterator/memIterator")
	r.NotDecided("that the overlay view equals parent+writes as a map (follows from R2–R4 only together with the iterator semantics)")

	r.Rule("C15-R1", "lock discipline: the fields cache, unsortedCache and sortedCache of cachekv.Store are accessed only while store.mtx is held — by a method that locks first with a deferred unlock, or by a helper all of whose callers hold the lock; no method holding the lock calls another locking method on the same store (mutual exclusion => Get/Has/Set/Delete are race-free and atomic)", 6)
	lockDiscipline(r, "C15-R1", "store/cachekv", "Store", "mtx", []string{"cache", "unsortedCache", "sortedCache"}, []string{"store/cachekv.NewStore"})
	// Has holds nothing and goes through Get
	if f := r.fn(ckS + "Has"); f != nil {
		cs := CallsIn(f, ckS+"Get")
		r.Check(len(cs) == 1 && len(CallsIn(f, "(*sync.Mutex).Lock")) == 0, "C15-R1", "Has/via-Get", P.Pos(f.Pos()), "Has = Get != nil without its own locking", "Has no longer delegates to the locked Get (or locks itself and then calls Get)")
	}

	r.Rule("C15-R2", "the parent is unchanged until Write: parent.Set/Delete are called only from Write; parent reads only from Get (miss path) and iterator", 4)
	type use struct {
		fn string
		in ssa.Instruction
	}
	uses := map[string][]use{}
	for _, fn := range P.RepoFns {
		if fn.Pkg == nil || short(fn.Pkg.Pkg.Path()) != "store/cachekv" {
			continue
		}
		InstrsRaw(fn, func(in ssa.Instruction) {
			ci, ok := in.(ssa.CallInstruction)
			if !ok || !ci.Common().IsInvoke() {
				return
			}
			t := P.callTerm(ci)
			if argTerm(t, 0).String() == "param:store.parent" {
				uses[ci.Common().Method.Name()] = append(uses[ci.Common().Method.Name()], use{short(enclosingTop(fn).String()), in})
			}
		})
	}
	allowed := map[string][]string{
		"Set": {ckS + "Write"}, "Delete": {ckS + "Write"}, "Get": {ckS + "Get"},
		"Iterator": {ckS + "iterator"}, "ReverseIterator": {ckS + "iterator"}, "GetStoreType": {ckS + "GetStoreType"},
	}
	var ms []string
	for m := range uses {
		ms = append(ms, m)
	}
	sort.Strings(ms)
	for _, m := range ms {
		for _, u := range uses[m] {
			ok := false
			for _, a := range allowed[m] {
				if a == u.fn {
					ok = true
				}
			}
			r.Check(ok, "C15-R2", "parent."+m+"@"+u.fn, P.InstrPos(u.in), "vetted use of the parent", u.fn+" calls parent."+m+": the parent must be touched only by "+strings.Join(allowed[m], ", "))
		}
	}
	for _, m := range []string{"Set", "Delete"} {
		if len(uses[m]) == 0 {
			r.Viol("C15-R2", "parent."+m+"/in-Write", "-", "Write no longer applies "+m+" to the parent")
		}
	}

	r.Rule("C15-R3", "Write applies exactly the dirty entries, in sorted key order: keys collected under `dirty`, sort.Strings before the apply loop; per key: deleted -> parent.Delete, nil value -> skip, else parent.Set(key, value); afterwards all three containers are re-allocated on every path", 8)
	if f := r.fn(ckS + "Write"); f != nil {
		srt := CallsIn(f, "sort.Strings")
		if len(srt) == 0 {
			r.Viol("C15-R3", "Write/sorted", P.Pos(f.Pos()), "Write no longer sorts the dirty keys before applying them (map order would decide the write order)")
		}
		var del, set ssa.CallInstruction
		for _, c := range CallsIn(f, "store/types.KVStore.Delete") {
			del = c
		}
		for _, c := range CallsIn(f, "store/types.KVStore.Set") {
			set = c
		}
		if len(srt) > 0 {
			for _, c := range []ssa.CallInstruction{del, set} {
				if c != nil {
					r.Check(Precedes(srt[0], c), "C15-R3", "Write/sorted-before-apply:"+c.Common().Method.Name(), P.InstrPos(c), "applied after sorting", "a parent write can happen before the keys are sorted")
				}
			}
			// the applied keys come from the sorted slice
		}
		// collection under dirty
		Instrs(f, func(in ssa.Instruction) {
			ci, ok := in.(ssa.CallInstruction)
			if !ok {
				return
			}
			if op, nm := calleeName(ci.Common()); op == "builtin" && nm == "append" {
				gs := P.Guards(in, 0)
				ok2, _ := HasAtom(gs, `^.*\.dirty$`)
				r.Check(ok2, "C15-R3", "Write/collects-dirty-only", P.InstrPos(in), "keys are collected only for dirty entries", "keys are collected under "+strings.Join(atomStrings(gs), " ; "))
			}
		})
		if del != nil {
			ok, _ := HasAtom(P.Guards(del, 0), `^store/cachekv\.cValue.*\.deleted$|^.*\.deleted$`)
			r.Check(ok, "C15-R3", "Write/delete-arm", P.InstrPos(del), "parent.Delete under cacheValue.deleted", "parent.Delete is guarded by "+strings.Join(atomStrings(P.Guards(del, 0)), " ; "))
		}
		if set != nil {
			gs := P.Guards(set, 0)
			okD, _ := HasAtom(gs, `^!.*\.deleted$`)
			okN, _ := HasAtom(gs, `^!isnil\(.*\.value\)$`)
			r.Check(okD && okN, "C15-R3", "Write/set-arm", P.InstrPos(set), "parent.Set under !deleted and value != nil", "parent.Set is guarded by "+strings.Join(atomStrings(gs), " ; "))
			t := P.callTerm(set)
			k, v := argTerm(t, 1).String(), argTerm(t, 2).String()
			r.Check(strings.Contains(v, "param:store.cache["+k+"]") || strings.Contains(v, ".value"), "C15-R3", "Write/set-value-of-key", P.InstrPos(set), "sets the cached value of the same key", "parent.Set("+k+", "+v+")")
		}
		// containers re-allocated on every path
		for _, fld := range []string{"cache", "unsortedCache", "sortedCache"} {
			isReset := func(in ssa.Instruction) bool {
				s, ok := in.(*ssa.Store)
				if !ok || P.TermAt(s.Addr, s).String() != "&param:store."+fld {
					return false
				}
				v := P.TermAt(s.Val, s).String()
				return v == "other:makemap" || v == "container/list.New()"
			}
			reach, _, path := ReachWithout(f, nil, isReturn, isReset, nil)
			r.Check(!reach, "C15-R3", "Write/clears:"+fld, P.Pos(f.Pos()), fld+" is re-allocated on every path", "a path returns from Write without re-allocating "+fld+" (the wrapper would not be clean): "+P.blockPathString(path))
		}
	}

	r.Rule("C15-R4", "setCacheValue is the only writer of cache entries and records dirty keys in unsortedCache; Set -> (value,false,true), Delete -> (nil,true,true), Get miss -> (parent value,false,false)", 6)
	for _, fn := range P.RepoFns {
		if fn.Pkg == nil || short(fn.Pkg.Pkg.Path()) != "store/cachekv" {
			continue
		}
		InstrsRaw(fn, func(in ssa.Instruction) {
			mu, ok := in.(*ssa.MapUpdate)
			if !ok {
				return
			}
			m := P.TermAt(mu.Map, in).String()
			n := short(enclosingTop(fn).String())
			if m == "param:store.cache" || m == "param:store.unsortedCache" {
				r.Check(n == ckS+"setCacheValue", "C15-R4", "map-update:"+m+"@"+n, P.InstrPos(in), "only setCacheValue inserts", n+" writes "+m+" directly; setCacheValue must be the only writer")
			}
		})
	}
	if f := r.fn(ckS + "setCacheValue"); f != nil {
		nUpd := 0
		Instrs(f, func(in ssa.Instruction) {
			mu, ok := in.(*ssa.MapUpdate)
			if !ok {
				return
			}
			nUpd++
			m := P.TermAt(mu.Map, in).String()
			if m == "param:store.unsortedCache" {
				ok2, _ := HasAtom(P.Guards(in, 0), `^param:dirty$`)
				r.Check(ok2, "C15-R4", "setCacheValue/dirty-keys-recorded", P.InstrPos(in), "recorded iff dirty", "unsortedCache insert is guarded by "+strings.Join(atomStrings(P.Guards(in, 0)), " ; "))
			} else {
				v := P.TermAt(mu.Value, in).String()
				ok2 := strings.Contains(v, "value=param:value") && strings.Contains(v, "deleted=param:deleted") && strings.Contains(v, "dirty=param:dirty")
				r.Check(ok2 && len(P.Guards(in, 0)) == 0, "C15-R4", "setCacheValue/entry", P.InstrPos(in), v, "cache entry written is "+v)
			}
		})
		r.Check(nUpd == 2, "C15-R4", "setCacheValue/two-updates", P.Pos(f.Pos()), "cache + unsortedCache", fmt.Sprintf("%d map updates", nUpd))
	}
	for _, w := range []struct{ fn, want string }{
		{"Set", ckS + "setCacheValue(param:store, param:key, param:value, false, true)"},
		{"Delete", ckS + "setCacheValue(param:store, param:key, nil, true, true)"},
		{"Get", ckS + "setCacheValue(param:store, param:key, store/types.KVStore.Get(param:store.parent, param:key), false, false)"},
	} {
		if f := r.fn(ckS + w.fn); f != nil {
			if c := r.oneCall("C15-R4", w.fn, f, ckS+"setCacheValue"); c != nil {
				got := P.callTerm(c).String()
				r.Check(got == w.want, "C15-R4", w.fn+"/setCacheValue-args", P.InstrPos(c), got, w.fn+" records "+got+" ; required "+w.want)
			}
		}
	}
	if f := r.fn(ckS + "Get"); f != nil {
		// cached value returned on hit, parent consulted only on miss
		for _, c := range CallsIn(f, "store/types.KVStore.Get") {
			ok, _ := HasAtom(P.Guards(c, 0), `^!param:store\.cache\[.*\]#1$`)
			r.Check(ok, "C15-R4", "Get/parent-only-on-miss", P.InstrPos(c), "parent read only on a cache miss", "parent.Get is guarded by "+strings.Join(atomStrings(P.Guards(c, 0)), " ; "))
		}
	}

	r.Rule("C15-R5", "cachemulti.Store.Write writes its db wrapper and every substore wrapper; CacheMultiStore wraps every substore", 3)
	if f := r.fn("(store/cachemulti.Store).Write"); f != nil {
		cs := append(CallsIn(f, "store/types.CacheWrap.Write"), CallsIn(f, "store/types.CacheKVStore.Write")...)
		r.Check(len(cs) == 2, "C15-R5", "cachemulti.Write/db-and-stores", P.Pos(f.Pos()), "db.Write and store.Write for each store", fmt.Sprintf("%d Write calls (expected db + loop)", len(cs)))
		for _, c := range cs {
			recv := argTerm(P.callTerm(c), 0).String()
			if recv == "param:cms.db" {
				r.Check(len(P.Guards(c, 0)) == 0, "C15-R5", "cachemulti.Write/db-unconditional", P.InstrPos(c), "unconditional", "db.Write is conditional")
			} else {
				extra := 0
				for _, a := range P.Guards(c, 0) {
					if !strings.Contains(a.Key(), "next(range(") {
						extra++
					}
				}
				r.Check(extra == 0 && strings.Contains(recv, "range(param:cms.stores)"), "C15-R5", "cachemulti.Write/every-store", P.InstrPos(c), "every substore is written", "substore Write is "+recv+" under "+strings.Join(atomStrings(P.Guards(c, 0)), " ; "))
			}
		}
	}
	if f := r.fn("store/cachemulti.NewFromKVStore"); f != nil {
		cs := append(CallsIn(f, "store/types.CacheWrapper.CacheWrap"), CallsIn(f, "store/types.CacheWrapper.CacheWrapWithTrace")...)
		r.Check(len(cs) >= 1, "C15-R5", "cachemulti.NewFromKVStore/wraps-substores", P.Pos(f.Pos()), "substores are cache-wrapped", "substores are no longer cache-wrapped")
	}

	r.Rule("C15-R6", "iterator: the parent iterator and the in-memory iterator cover the same (start, end) in the same direction, and dirty items of that range are moved into the sorted list first", 4)
	if f := r.fn(ckS + "iterator"); f != nil {
		for _, w := range []struct{ m, guard string }{{"Iterator", `^param:ascending$`}, {"ReverseIterator", `^!param:ascending$`}} {
			for _, c := range CallsIn(f, "store/types.KVStore."+w.m) {
				t := P.callTerm(c)
				r.Check(argTerm(t, 1).String() == "param:start" && argTerm(t, 2).String() == "param:end", "C15-R6", "iterator/parent-"+w.m+"-range", P.InstrPos(c), "(start, end)", "parent "+w.m+" over "+t.String())
				ok, _ := HasAtom(P.Guards(c, 0), w.guard)
				r.Check(ok, "C15-R6", "iterator/parent-"+w.m+"-direction", P.InstrPos(c), "direction matches `ascending`", "parent "+w.m+" chosen under "+strings.Join(atomStrings(P.Guards(c, 0)), " ; "))
			}
		}
		if c := r.oneCall("C15-R6", "iterator", f, "store/cachekv.newMemIterator"); c != nil {
			got := P.callTerm(c).String()
			r.Check(got == "store/cachekv.newMemIterator(param:start, param:end, param:store.sortedCache, param:ascending)", "C15-R6", "iterator/mem-iterator", P.InstrPos(c), got, "memory iterator is "+got)
			if d := r.oneCall("C15-R6", "iterator", f, ckS+"dirtyItems"); d != nil {
				r.Check(Precedes(d, c) && P.callTerm(d).String() == ckS+"dirtyItems(param:store, param:start, param:end)", "C15-R6", "iterator/dirty-items-first", P.InstrPos(d), "dirtyItems(start,end) before the memory iterator", "dirtyItems is "+P.callTerm(d).String()+" or does not precede the memory iterator")
			}
		}
		if c := r.oneCall("C15-R6", "iterator", f, "store/cachekv.newCacheMergeIterator"); c != nil {
			t := P.callTerm(c)
			r.Check(argTerm(t, 2).String() == "param:ascending", "C15-R6", "iterator/merge-direction", P.InstrPos(c), "ascending forwarded", "merge iterator direction is "+argTerm(t, 2).String())
		}
	}
	if f := r.fn(ckS + "dirtyItems"); f != nil {
		cs := append(CallsIn(f, "sort.Slice"), CallsIn(f, "sort.SliceStable")...)
		r.Check(len(cs) == 1, "C15-R6", "dirtyItems/sorted", P.Pos(f.Pos()), "unsorted items are sorted before merging", "dirtyItems no longer sorts the collected items (map order would leak into the iterator)")
	}
}
