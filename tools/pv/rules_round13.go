package main

import (
	"fmt"
	"go/types"
	"reflect"
	"regexp"
	"sort"
	"strings"

	"golang.org/x/tools/go/ssa"
)

// Rules added after the eighth seeding round.

// lostLocalWrites (RG3): an assignment to a field of a local struct copy (a range variable, a value fetched from a
// slice or map) that is never read again is lost: the element it was copied from keeps its old value.
var vettedLostLocalWrites = map[string]string{}

func lostLocalWrites(r *Run, rule string) {
	P := r.P
	r.Rule(rule, "effects reach the object they are meant for: no function assigns a field of a local struct copy (a range variable, an element fetched by value) without that copy being read again (stored back, returned, passed on, field read) — the element it was copied from would keep its old value", 0)
	n := 0
	for _, f := range P.RepoFns {
		if len(f.Blocks) == 0 || f.Synthetic != "" || !inScope(r.Prop, f) && !r.Anchors[enclosingTop(f)] {
			continue
		}
		for _, b := range f.Blocks {
			for _, in := range b.Instrs {
				al, ok := in.(*ssa.Alloc)
				if !ok || al.Referrers() == nil {
					continue
				}
				if _, isStruct := deref(al.Type()).Underlying().(*types.Struct); !isStruct {
					continue
				}
				if al.Comment == "complit" {
					continue
				}
				written := map[int]ssa.Instruction{}
				read := map[int]bool{}
				whole, fromParam := false, false
				for _, u := range *al.Referrers() {
					switch x := u.(type) {
					case *ssa.Store:
						if x.Addr != ssa.Value(al) {
							whole = true // the address itself is stored somewhere
						} else if _, isP := x.Val.(*ssa.Parameter); isP {
							fromParam = true // receiver / argument copies: RG1 and the field-write tables
						}
					case *ssa.FieldAddr:
						for _, fu := range *x.Referrers() {
							if fs, isSt := fu.(*ssa.Store); isSt && fs.Addr == ssa.Value(x) {
								written[x.Field] = fs
							} else if _, isDbg := fu.(*ssa.DebugRef); !isDbg {
								read[x.Field] = true
							}
						}
					case *ssa.DebugRef:
					default:
						whole = true
					}
				}
				if whole || fromParam || len(written) == 0 {
					continue
				}
				st := deref(al.Type()).Underlying().(*types.Struct)
				var fields []int
				for i := range written {
					fields = append(fields, i)
				}
				sort.Ints(fields)
				for _, i := range fields {
					if read[i] {
						continue
					}
					n++
					key := short(enclosingTop(f).String()) + "." + al.Comment + "." + st.Field(i).Name()
					if _, ok := vettedLostLocalWrites[key]; ok {
						r.OK(rule, "lost-local-write@"+key, P.InstrPos(written[i]), "vetted")
						continue
					}
					r.Viol(rule, "lost-local-write@"+key, P.InstrPos(written[i]), short(f.String())+" assigns "+st.Field(i).Name()+" of its local copy `"+al.Comment+"` and never reads the copy again: the assignment is lost (the element the copy was taken from keeps its old value)")
				}
			}
		}
	}
	r.OK(rule, "local-copies-scanned", "-", fmt.Sprintf("%d lost writes to local copies", n))
}

// builderResultsUsed (RG4): the result of a value-receiver builder (ctx.WithX(...), validator.UpdateStatus(...)) is
// the only effect it has; discarding it loses the update.
var vettedDiscardedBuilders = map[string]string{}

func builderResultsUsed(r *Run, rule string) {
	P := r.P
	r.Rule(rule, "updates made by value-receiver builders are kept: a call to a method with a by-value receiver whose (first) result has the receiver's type — ctx.WithBlockHeader(h), validator.UpdateStatus(s), coins.Add(c) — is not made for its result to be thrown away", 0)
	n := 0
	for _, f := range P.RepoFns {
		if len(f.Blocks) == 0 || f.Synthetic != "" {
			continue
		}
		InstrsRaw(f, func(in ssa.Instruction) {
			c, ok := in.(*ssa.Call)
			if !ok || c.Referrers() == nil || len(*c.Referrers()) != 0 {
				return
			}
			g := staticCallee(&c.Call)
			if g == nil || !P.IsRepoFn(g) || g.Signature.Recv() == nil || g.Signature.Results().Len() == 0 {
				return
			}
			rt := g.Signature.Recv().Type()
			if _, isPtr := rt.(*types.Pointer); isPtr {
				return
			}
			if !types.Identical(rt, g.Signature.Results().At(0).Type()) {
				return
			}
			if _, isStruct := rt.Underlying().(*types.Struct); !isStruct {
				return // a slice receiver (Coins.Sort) shares its elements with the caller's slice
			}
			n++
			key := short(enclosingTop(f).String()) + "→" + short(g.String())
			if _, ok := vettedDiscardedBuilders[key]; ok {
				r.OK(rule, "builder-result-discarded@"+key, P.InstrPos(c), "vetted")
				return
			}
			r.Viol(rule, "builder-result-discarded@"+key, P.InstrPos(c), short(f.String())+" calls "+short(g.String())+" and throws the result away: the method has a by-value receiver and returns the updated copy, so the update is lost")
		})
	}
	r.OK(rule, "builder-calls-scanned", "-", fmt.Sprintf("%d discarded builder results", n))
}

// jsonNamesDistinct (C20): two fields of one struct do not share a JSON name (amino JSON would write the key twice and
// every reader keeps only the last one).
func jsonNamesDistinct(r *Run, rule string) {
	P := r.P
	r.Rule(rule, "JSON encodings keep every field: no struct type of the repository has two fields with the same JSON name (a duplicated key is written twice and read once — the round trip loses a field, and sign bytes of different messages coincide)", 50)
	n := 0
	for _, pkg := range P.Pkgs {
		scope := pkg.Types.Scope()
		for _, name := range scope.Names() {
			tn, ok := scope.Lookup(name).(*types.TypeName)
			if !ok {
				continue
			}
			st, ok := tn.Type().Underlying().(*types.Struct)
			if !ok {
				continue
			}
			n++
			seen := map[string]string{}
			dup := ""
			for i := 0; i < st.NumFields(); i++ {
				fld := st.Field(i)
				if !fld.Exported() && !fld.Embedded() {
					continue
				}
				jn := fld.Name()
				if tag, ok := reflect.StructTag(st.Tag(i)).Lookup("json"); ok {
					if p := strings.Split(tag, ",")[0]; p == "-" {
						continue
					} else if p != "" {
						jn = p
					}
				}
				if other, ok := seen[jn]; ok {
					dup = fmt.Sprintf("fields %s and %s are both written as %q", other, fld.Name(), jn)
				}
				seen[jn] = fld.Name()
			}
			key := short(pkg.PkgPath) + "." + name
			r.Check(dup == "", rule, "json-names:"+key, P.Pos(tn.Pos()), "distinct", key+": "+dup)
		}
	}
	_ = n
}

// signingInfoWrittenLast: handleValidatorSignature writes the signing info back after its last update (C08/C09).
func signingInfoWrittenLast(r *Run, rule string) {
	P := r.P
	r.Rule(rule, "the signing info is written back after its last update: in handleValidatorSignature no assignment to a field of signInfo can follow the SetValidatorSigningInfo call (jailed-until and the counter reset of a downtime jailing would otherwise never be stored)", 1)
	f := r.fn(posK + "handleValidatorSignature")
	if f == nil {
		return
	}
	c := r.oneCall(rule, "handleValidatorSignature", f, posK+"SetValidatorSigningInfo")
	if c == nil {
		return
	}
	reach, w, _ := ReachFromBlock(c.Block(), func(in ssa.Instruction) bool {
		st, ok := in.(*ssa.Store)
		if !ok || in.Block() == c.Block() && !Precedes(c, in) {
			return false
		}
		return strings.HasPrefix(P.TermAt(st.Addr, st).String(), "&addr:x/pos/types.ValidatorSigningInfo.")
	}, nil, nil)
	r.Check(!reach, rule, "handleValidatorSignature/written-after-last-update", P.InstrPos(c), "no later update", "signInfo is updated at "+P.InstrPos(w)+" after it was written back: the update is never stored")
}

// miscRound13: small shape rules.
func prevStateIterationHandsOutKeyBytes(r *Run, rule string) {
	P := r.P
	r.Rule(rule, "the previous-state walk hands every callback the address of its own entry: the address passed to the handler of IterateAndExecuteOverPrevStateValsByPower is the tail of the current iterator key (not a buffer shared between iterations, which a caller that keeps it — genesis export — would see overwritten)", 1)
	f := r.fn(posK + "IterateAndExecuteOverPrevStateValsByPower")
	if f == nil {
		return
	}
	n := 0
	Instrs(f, func(in ssa.Instruction) {
		c, ok := in.(*ssa.Call)
		if !ok || c.Call.IsInvoke() || staticCallee(&c.Call) != nil {
			return
		}
		if _, isParam := c.Call.Value.(*ssa.Parameter); !isParam || len(c.Call.Args) < 1 {
			return
		}
		n++
		t := P.TermAt(c.Call.Args[0], c).String()
		r.Check(strings.HasPrefix(t, "github.com/tendermint/tm-db.Iterator.Key("), rule, "IterateAndExecuteOverPrevStateValsByPower/address-from-key", P.InstrPos(c), t, "the handler receives "+oneLine(t)+" ; required a slice of iter.Key() of the current entry")
	})
	if n == 0 {
		r.Viol(rule, "IterateAndExecuteOverPrevStateValsByPower/address-from-key", P.Pos(f.Pos()), "the handler call was not found")
	}
}

func queueRewriteUsesFilteredList(r *Run, rule string) {
	P := r.P
	r.Rule(rule, "removing a validator from an unstaking-queue slot writes back the filtered list: in deleteUnstakingValidator the list given to setUnstakingValidators is built in the filtering loop, not the list that was read", 1)
	f := r.fn(posK + "deleteUnstakingValidator")
	if f == nil {
		return
	}
	if c := r.oneCall(rule, "deleteUnstakingValidator", f, posK+"setUnstakingValidators"); c != nil {
		t := argTerm(P.callTerm(c), 3).String()
		r.Check(strings.Contains(t, "append(") && !strings.HasPrefix(t, posK+"getUnstakingValidators("), rule, "deleteUnstakingValidator/writes-filtered-list", P.InstrPos(c), "filtered list", "the slot is rewritten with "+oneLine(t)+" ; required the list built by the filtering loop (the removed validator would stay queued)")
	}
}

func iavlStoreForwardsUnconditionally(r *Run, rule string) {
	P := r.P
	r.Rule(rule, "the tree store passes every write on: iavl.Store.Set / Delete call tree.Set / tree.Remove unconditionally with their own arguments, and the iterator copies its bounds (Cp) so that it does not follow later writes to the caller's slices", 4)
	for _, w := range []struct{ fn, callee string }{{"(*store/iavl.Store).Set", "store/iavl.Tree.Set"}, {"(*store/iavl.Store).Delete", "store/iavl.Tree.Remove"}} {
		f := r.fn(w.fn)
		if f == nil {
			continue
		}
		if c := r.oneCall(rule, short(w.fn), f, w.callee); c != nil {
			gs := P.nonLoopGuards(c)
			r.Check(len(gs) == 0, rule, short(w.fn)+"/unconditional", P.InstrPos(c), "unconditional", short(w.fn)+" reaches the tree only under {"+strings.Join(atomStrings(gs), " ; ")+"}: a write the caller made is silently dropped")
			r.Check(argTerm(P.callTerm(c), 1).String() == "param:key", rule, short(w.fn)+"/key", P.InstrPos(c), "param:key", "key passed on is "+argTerm(P.callTerm(c), 1).String())
		}
	}
	if f := r.fn("store/iavl.newIAVLIterator"); f != nil {
		n := 0
		Instrs(f, func(in ssa.Instruction) {
			st, ok := in.(*ssa.Store)
			if !ok {
				return
			}
			a := P.TermAt(st.Addr, st).String()
			for _, b := range []string{"start", "end"} {
				if strings.HasSuffix(a, "."+b) && strings.Contains(a, "complit") {
					n++
					v := P.TermAt(st.Val, st).String()
					r.Check(v == "store/types.Cp(param:"+b+")", rule, "newIAVLIterator/"+b+"-copied", P.InstrPos(st), v, "the iterator keeps "+v+" as its "+b+" bound ; required a copy (store/types.Cp): the lazily walking iterator would follow later writes to the caller's slice")
				}
			}
		})
		if n < 2 {
			r.Viol(rule, "newIAVLIterator/bounds", P.Pos(f.Pos()), "the iterator's start/end bounds are no longer set from the arguments")
		}
	}
}

func mergeIteratorPrefersCache(r *Run, rule string) {
	P := r.P
	r.Rule(rule, "an overwritten key shows its new value: when parent and cache iterators stand on the same key, cacheMergeIterator.Value returns the cache's value (and the parent's only when the parent key comes first)", 2)
	f := r.fn("(*store/cachekv.cacheMergeIterator).Value")
	if f == nil {
		return
	}
	// which of the comparison outcomes -1 / 0 / 1 an alternative's guards leave possible (cases may be merged:
	// `case 0, 1:` is reached under !(cmp == -1))
	isCompare := func(t *Term) bool { return t.Op == "call" && strings.HasSuffix(t.Name, ".compare") }
	outcomes := func(g []Atom) (set [3]bool, mentioned bool) {
		set = [3]bool{true, true, true}
		keep := func(pos bool, sel [3]bool) {
			for k := range set {
				if sel[k] != pos {
					set[k] = false
				}
			}
		}
		for _, a := range g {
			if a.T.Op != "binop" || len(a.T.Args) != 2 {
				continue
			}
			l, rr := a.T.Args[0], a.T.Args[1]
			switch {
			case a.T.Name == "==" && (isCompare(l) && rr.Op == "const" || isCompare(rr) && l.Op == "const"):
				c := rr.Name
				if isCompare(rr) {
					c = l.Name
				}
				mentioned = true
				keep(a.Pos, [3]bool{c == "-1", c == "0", c == "1"})
			case a.T.Name == "<" && isCompare(l) && rr.Op == "const":
				mentioned = true
				keep(a.Pos, [3]bool{true, rr.Name == "1", false})
			case a.T.Name == "<" && isCompare(rr) && l.Op == "const":
				mentioned = true
				keep(a.Pos, [3]bool{false, l.Name == "-1", true})
			}
		}
		return
	}
	seenEq, seenLt := false, false
	for i, a := range P.RetAlternatives(f, 0) {
		t := a.T.String()
		isParent := strings.Contains(t, "Iterator.Value(param:iter.parent)")
		isCache := strings.Contains(t, "Iterator.Value(param:iter.cache)")
		if !isParent && !isCache {
			continue
		}
		set, mentioned := outcomes(a.G)
		if !mentioned {
			continue
		}
		if set[1] {
			seenEq = true
			r.Check(isCache, rule, fmt.Sprintf("mergeIterator.Value/alternative#%d/equal-keys=>cache", i), P.InstrPos(a.Ret), "cache value on equal keys", "on equal keys Value() returns "+oneLine(t)+" ; required the cache's value (the overwrite)")
		}
		if set[0] {
			seenLt = true
			r.Check(isParent, rule, fmt.Sprintf("mergeIterator.Value/alternative#%d/parent-first=>parent", i), P.InstrPos(a.Ret), "parent value when the parent key is first", "when the parent key comes first Value() returns "+oneLine(t))
		}
	}
	if !seenEq || !seenLt {
		r.Viol(rule, "mergeIterator.Value/alternatives", P.Pos(f.Pos()), fmt.Sprintf("the comparison outcomes of Value() could not be identified (equal keys: %v, parent first: %v)", seenEq, seenLt))
	}
}

func decodersDoNotIndexTheirInput(r *Run, rule string) {
	P := r.P
	r.Rule(rule, "number decoders cannot crash on short input: the amino / text decoders of Int, Uint and Dec never index into their text argument (an empty field would panic outside runTx's recover, in CheckTx / DeliverTx)", 3)
	re := regexp.MustCompile(`^param:text(\[|$)`)
	for _, n := range []string{"types.unmarshalAmino", "types.unmarshalText", "(*types.Dec).UnmarshalAmino", "types.unmarshalJSON"} {
		f := r.fnOpt(n)
		if f == nil {
			continue
		}
		bad := ""
		Instrs(f, func(in ssa.Instruction) {
			switch x := in.(type) {
			case *ssa.Lookup:
				if re.MatchString(P.TermAt(x.X, x).String()) {
					bad = P.InstrPos(x)
				}
			case *ssa.IndexAddr:
				if re.MatchString(P.TermAt(x.X, x).String()) {
					bad = P.InstrPos(x)
				}
			case *ssa.Index:
				if re.MatchString(P.TermAt(x.X, x).String()) {
					bad = P.InstrPos(x)
				}
			case *ssa.Slice:
				if (x.Low != nil || x.High != nil) && re.MatchString(P.TermAt(x.X, x).String()) {
					bad = P.InstrPos(x)
				}
			}
		})
		r.Check(bad == "", rule, n+"/no-indexing", P.Pos(f.Pos()), "no index expression on the input", n+" indexes its text argument at "+bad+": empty input panics instead of being refused")
	}
}

func indexSettersDoNotPanic(r *Run, rule string) {
	P := r.P
	r.Rule(rule, "the power-index setters refuse quietly: SetStakedValidator / deleteValidatorFromStakingSet contain no panic (StakeValidator calls them after the coins have moved; handler writes are not rolled back)", 2)
	for _, n := range []string{posK + "SetStakedValidator", posK + "deleteValidatorFromStakingSet"} {
		f := r.fn(n)
		if f == nil {
			continue
		}
		bad := ""
		Instrs(f, func(in ssa.Instruction) {
			if _, ok := in.(*ssa.Panic); ok {
				bad = P.InstrPos(in)
			}
		})
		r.Check(bad == "", rule, short(n)+"/no-panic", P.Pos(f.Pos()), "no panic", short(n)+" panics at "+bad+": reached after the stake was moved, the transaction fails half-applied")
	}
}

func sdkGasMeterForwards(r *Run, rule string) {
	P := r.P
	r.Rule(rule, "the re-exported gas meter constructor is the store's: types.NewGasMeter(limit) is store/types.NewGasMeter(limit) for every limit (0 is a limit, not `none`)", 1)
	if f := r.fn("types.NewGasMeter"); f != nil {
		for i, a := range P.RetAlternatives(f, 0) {
			r.Check(a.T.String() == "store/types.NewGasMeter(param:limit)", rule, fmt.Sprintf("types.NewGasMeter/return#%d", i), P.InstrPos(a.Ret), "forwards", "types.NewGasMeter returns "+oneLine(a.T.String())+" under {"+strings.Join(atomStrings(a.G), " ; ")+"}")
		}
	}
}

func init() {
	for i := 1; i <= 20; i++ {
		p := fmt.Sprintf("C%02d", i)
		extend(p, func(r *Run) {
			lostLocalWrites(r, p+"-RG3")
			builderResultsUsed(r, p+"-RG4")
		})
	}
	extend("C20", func(r *Run) { jsonNamesDistinct(r, "C20-R13") })
	extend("C08", func(r *Run) { signingInfoWrittenLast(r, "C08-R12") })
	extend("C09", func(r *Run) {
		signingInfoWrittenLast(r, "C09-R13")
		managerKeepsValidatorUpdates(r, "C09-R14")
	})
	extend("C05", func(r *Run) { prevStateIterationHandsOutKeyBytes(r, "C05-R14") })
	extend("C06", func(r *Run) { queueRewriteUsesFilteredList(r, "C06-R19") })
	extend("C15", func(r *Run) {
		iavlStoreForwardsUnconditionally(r, "C15-R18")
		mergeIteratorPrefersCache(r, "C15-R19")
		assertValidShape(r, "C15-R20")
	})
	extend("C16", func(r *Run) {
		mergeIteratorPrefersCache(r, "C16-R14")
		sdkGasMeterForwards(r, "C16-R15")
	})
	extend("C11", func(r *Run) {
		decodersDoNotIndexTheirInput(r, "C11-R24")
		indexSettersDoNotPanic(r, "C11-R25")
	})
	extend("C20", func(r *Run) { decodersDoNotIndexTheirInput(r, "C20-R14") })
	extend("C01", func(r *Run) { r.borrow("C12", "C12-R6", "C01-R14") })
	extend("C13", func(r *Run) { nameToKeyShape(r, "C13-R11") })
	extend("C17", func(r *Run) { checkMultisigVerify(r, "C17-R17") })
	extend("C10", func(r *Run) { sendCoinsShape(r, "C10-R11") })
	extend("C02", func(r *Run) { r.borrow("C01", "C01-R4", "C02-R21") })
	extend("C20", func(r *Run) { r.borrow("C17", "C17-R4", "C20-R15") })
	pkgScope["C02"] = append(pkgScope["C02"], "x/pos/keeper", "x/pos")
	pkgScope["C20"] = append(pkgScope["C20"], "types")
}

// substoreNamespaces: every substore has its own key space (C12/C13/C14).
func substoreNamespaces(r *Run, rule string) {
	P := r.P
	r.Rule(rule, "every substore has its own key space: loadCommitStoreFromParams opens a store mounted with its own database on that database (prefix s/_/), and every other store on the root database under s/k:<its name>/", 2)
	f := r.fn("(*store/rootmulti.Store).loadCommitStoreFromParams")
	if f == nil {
		return
	}
	n := 0
	for _, c := range CallsIn(f, "github.com/tendermint/tm-db.NewPrefixDB") {
		n++
		t := P.callTerm(c)
		db, pfx := argTerm(t, 0).String(), argTerm(t, 1).String()
		own, _ := HasAtom(P.LocalGuards(c), `^!isnil\(param:params\.db\)$`)
		shared, _ := HasAtom(P.LocalGuards(c), `^isnil\(param:params\.db\)$`)
		ok := (own && db == "param:params.db" && pfx == `"s/_/"`) ||
			(shared && db == "param:rs.DB" && pfx == `(("s/k:" + store/types.StoreKey.Name(param:params.key)) + "/")`)
		r.Check(ok, rule, fmt.Sprintf("loadCommitStoreFromParams/namespace#%d", n), P.InstrPos(c), "own db + s/_/ or root db + s/k:name/", "a substore is opened on "+db+" with prefix "+oneLine(pfx)+" under {"+strings.Join(atomStrings(P.LocalGuards(c)), " ; ")+"}: two stores would share one key space, and after a reopen one silently reads the other's tree")
	}
	if n < 2 {
		r.Viol(rule, "loadCommitStoreFromParams/namespaces", P.Pos(f.Pos()), fmt.Sprintf("%d of the 2 namespace constructions found", n))
	}
}

// decCoinsArithmeticTable: the set operations apply the operation their name says to every coin (C18).
func decCoinsArithmeticTable(r *Run, rule string) {
	P := r.P
	r.Rule(rule, "DecCoins arithmetic rounds the way its name says: MulDec uses Dec.Mul, MulDecTruncate Dec.MulTruncate, QuoDec Dec.Quo, QuoDecTruncate Dec.QuoTruncate on every coin amount (and no other Dec multiplication or division)", 4)
	ops := []string{"(types.Dec).Mul", "(types.Dec).MulTruncate", "(types.Dec).Quo", "(types.Dec).QuoTruncate", "(types.Dec).QuoRoundUp"}
	for _, w := range []struct{ fn, op string }{
		{"(types.DecCoins).MulDec", "(types.Dec).Mul"}, {"(types.DecCoins).MulDecTruncate", "(types.Dec).MulTruncate"},
		{"(types.DecCoins).QuoDec", "(types.Dec).Quo"}, {"(types.DecCoins).QuoDecTruncate", "(types.Dec).QuoTruncate"},
	} {
		f := r.fn(w.fn)
		if f == nil {
			continue
		}
		var used []string
		Instrs(f, func(in ssa.Instruction) {
			if ci, ok := in.(ssa.CallInstruction); ok {
				_, n := calleeName(ci.Common())
				for _, o := range ops {
					if n == o {
						used = append(used, n)
					}
				}
			}
		})
		r.Check(len(used) == 1 && used[0] == w.op, rule, short(w.fn)+"/operation", P.Pos(f.Pos()), w.op, short(w.fn)+" applies {"+strings.Join(used, ", ")+"} to the amounts ; required exactly "+w.op)
	}
}

// anchorOnly: make functions anchors of a property so that the table-driven rules cover them.
func anchorOnly(names ...string) func(r *Run) {
	return func(r *Run) {
		for _, n := range names {
			r.fnOpt(n)
		}
	}
}

func init() {
	extend("C12", func(r *Run) {
		substoreNamespaces(r, "C12-R15")
		r.borrow("C16", "C16-R4", "C12-R16")
	})
	extend("C13", func(r *Run) { substoreNamespaces(r, "C13-R12") })
	extend("C14", func(r *Run) {
		substoreNamespaces(r, "C14-R17")
		pruningConfig(r, "C14-R18")
		r.borrow("C12", "C12-R3", "C14-R19")
		r.borrow("C12", "C12-R6", "C14-R20")
	})
	extend("C18", func(r *Run) { decCoinsArithmeticTable(r, "C18-R15") })
	// anchors first, so that the generic rules that follow see them
	extensions["C12"] = append([]checkFn{anchorOnly("(types.Context).PrevCtx")}, extensions["C12"]...)
	extensions["C14"] = append([]checkFn{anchorOnly("(types.Context).PrevCtx")}, extensions["C14"]...)
	extensions["C03"] = append([]checkFn{anchorOnly("(types.Int).GT", "(types.Int).GTE", "(types.Int).LT", "(types.Int).LTE", "(types.Coins).IsAllGTE", "(types.Coins).IsAllGT")}, extensions["C03"]...)
}
