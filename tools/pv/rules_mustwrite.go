package main

import (
	_ "embed"
	"encoding/json"
	"fmt"
	"sort"
	"strings"

	"golang.org/x/tools/go/ssa"
)

// Writes that every normal completion made are still made by every normal completion. RWG1/RWG4 see a new condition
// in front of a store-writing call only when it is a single test (one CFG edge that every path to the site crosses); a
// compound test (`if v, found := get(); found && v.IsJailed() { return }` in front of a delete) leaves no such edge.
// pinned_must_write.json (`pv -dump mustwrite`) lists the (function, store-writing callee) pairs for which, on the
// pinned tree, no path from the function's entry reaches a normal return — no panic, no process exit, no non-nil error
// result — without making the call. RWG5: that is still so. Keyed by pair, never by position; sites moved into a
// helper introduced by a refactoring count for the function that calls the helper.

//go:embed pinned_must_write.json
var pinnedMustWriteJSON []byte

func (P *Prog) silentReturnOf(fn *ssa.Function) func(ssa.Instruction) bool {
	idx, _ := errIndex(fn.Signature)
	return func(in ssa.Instruction) bool {
		ret, ok := in.(*ssa.Return)
		if !ok || ret.Parent() != fn {
			return false
		}
		if idx < 0 || idx >= len(ret.Results) {
			return true // nothing to report a failure with
		}
		c, _ := P.retClass(ret, idx)
		return c == "nil"
	}
}

func loudInstr(in ssa.Instruction) bool {
	if _, ok := in.(*ssa.Panic); ok {
		return true
	}
	if ci, ok := in.(ssa.CallInstruction); ok {
		_, n := calleeName(ci.Common())
		if n == "os.Exit" || strings.HasSuffix(n, "common.Exit") || strings.HasPrefix(n, "log.Fatal") {
			return true
		}
	}
	return false
}

// writeBypass: a normal return of caller reachable from its entry without executing any of the sites.
func (P *Prog) writeBypass(caller *ssa.Function, sites []writeSite) (bool, ssa.Instruction) {
	is := map[ssa.Instruction]bool{}
	for _, s := range sites {
		is[s.site.(ssa.Instruction)] = true
	}
	avoid := func(in ssa.Instruction) bool { return is[in] || loudInstr(in) }
	reach, w, _ := ReachWithout(caller, nil, P.silentReturnOf(caller), avoid, nil)
	return reach, w
}

// mustWriteSites groups the current write sites by pair, keeping the pairs all of whose sites lie in the caller's own
// body (or in helpers introduced by a refactoring), not in closures.
func (P *Prog) mustWriteSites() map[string][]writeSite {
	by := map[string][]writeSite{}
	bad := map[string]bool{}
	for _, s := range P.writeSites() {
		k := short(s.caller.String()) + " → " + s.label
		if s.from != s.caller && !P.isNewHelper(enclosingTop(s.from)) || s.from.Parent() != nil {
			bad[k] = true
		}
		if _, isCall := s.site.(ssa.Instruction); !isCall {
			bad[k] = true
		}
		by[k] = append(by[k], s)
	}
	for k := range bad {
		delete(by, k)
	}
	return by
}

func dumpMustWrite(P *Prog) {
	var out []string
	for k, sites := range P.mustWriteSites() {
		if len(sites[0].caller.Blocks) == 0 {
			continue
		}
		if by, _ := P.writeBypass(sites[0].caller, sites); !by {
			out = append(out, k)
		}
	}
	sort.Strings(out)
	b, _ := json.MarshalIndent(out, "", " ")
	fmt.Println(string(b))
}

func mustWritesKept(r *Run, rule string) {
	P := r.P
	r.Rule(rule, "a state change every normal completion made is not skipped on some path: for each (function, store-writing callee) pair that no path to a normal return avoided on the pinned tree (pinned_must_write.json), no path from the function's entry reaches a normal return — no panic, exit or non-nil error — without making the call (a compound condition with an early `return` in front of a write leaves no single guard for RWG4 to see)", 1)
	var pinned []string
	if err := json.Unmarshal(pinnedMustWriteJSON, &pinned); err != nil || len(pinned) == 0 {
		r.Undecided(rule, "table", "-", "pinned_must_write.json is empty or unreadable")
		return
	}
	cur := P.mustWriteSites()
	n, bypassed := 0, 0
	for _, k := range pinned {
		sites := cur[k]
		if len(sites) == 0 {
			continue // the pair is gone (RWG2) or now lives in a closure
		}
		caller := sites[0].caller
		rel := r.Anchors[caller] || inScope(r.Prop, caller)
		for _, s := range sites {
			if s.callee != nil && (r.Anchors[s.callee] || r.Anchors[enclosingTop(s.callee)] || inScope(r.Prop, s.callee)) {
				rel = true
			}
		}
		if !rel {
			continue
		}
		n++
		if by, w := P.writeBypass(caller, sites); by {
			bypassed++
			r.Viol(rule, "write-bypassed:"+k, P.InstrPos(w), k+": on the pinned tree every path of this function to a normal return made this store-writing call; now the return at "+P.InstrPos(w)+" is reachable without it and without a panic or an error — the state change is silently skipped on that path")
		}
	}
	r.OK(rule, "must-write-pairs-compared", "-", fmt.Sprintf("%d pinned always-made store-writing calls in scope, %d can now be bypassed", n, bypassed))
}

func init() {
	for i := 1; i <= 20; i++ {
		p := fmt.Sprintf("C%02d", i)
		extend(p, func(r *Run) { mustWritesKept(r, p+"-RWG5") })
	}
}
