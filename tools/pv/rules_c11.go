package main

import (
	"fmt"
	"go/types"
	"sort"
	"strings"

	"golang.org/x/tools/go/ssa"
)

func init() { register("C11", checkC11) }

// exit sinks (process termination) matched at the call site
func isExitSink(label string) bool {
	switch label {
	case "os.Exit", "log.Fatal", "log.Fatalf", "log.Fatalln", "github.com/tendermint/tendermint/libs/common.Exit", "syscall.Exit":
		return true
	}
	return false
}

func checkC11(r *Run) {
	P := r.P
	g := P.CG()
	r.NotDecided("byte-for-byte state equality before/after a rejected transaction (decided: the structural conditions below)")
	r.NotDecided("a message handler that panics AFTER a store write: this snapshot runs handlers directly on the root stores (no rollback), so such a write would stay — no handler has a write before a failure return (R1), panics are not path-enumerated")
	r.Assumption("handlers installed by the application are exactly pos.NewHandler / gov.NewHandler closures and the ante handler is auth.NewAnteHandler's (slot table)")

	// ------------------------------------------------------------------ R1
	r.Rule("C11-R1", "no write-then-fail: in every message handler (the closures returned by pos.NewHandler and gov.NewHandler and everything they call) no path performs a store write and afterwards returns a failure result; a callee's failure branch is taken to be write-free only if the callee itself has no such path (interprocedural fixpoint over the repo call graph); vetted infeasible instances are listed one by one", 2)
	E := P.effectsCached()
	r.Stats["E5_functions_may_write"] = len(sortedFns(E.mayWrite))
	r.Stats["E5_functions_can_fail"] = len(sortedFns(E.canFail))
	for _, hn := range []string{"x/pos.NewHandler$1", "x/gov.NewHandler$1"} {
		h := r.fn(hn)
		if h == nil {
			continue
		}
		reached := g.Reach([]*ssa.Function{h}, nil)
		var fns []*ssa.Function
		for f := range reached {
			fns = append(fns, f)
		}
		sort.Slice(fns, func(i, j int) bool { return fns[i].String() < fns[j].String() })
		r.Stats["C11_functions_reachable_from_"+hn] = len(fns)
		bad := 0
		for _, f := range fns {
			w := E.dirtyFail[f]
			if w == nil {
				continue
			}
			// only paths that can surface as a failure of the handler matter: f must be able to fail and be on a call path
			// whose failure is propagated; conservatively report every dirty function reachable from the handler
			bad++
			r.Viol("C11-R1", hn+"/write-then-fail:"+w.Key(P), P.InstrPos(w.Write), "reachable from "+hn+" via "+g.PathTo(reached, f)+": "+w.String(P)+" — the write is not rolled back when the message is rejected")
		}
		if bad == 0 {
			r.OK("C11-R1", hn+"/no-write-then-fail", P.Pos(h.Pos()), fmt.Sprintf("%d functions reachable from the handler, none has a store write followed by a failure return", len(fns)))
		}
	}
	var vetted []string
	for k, why := range vettedInfeasible {
		vetted = append(vetted, k+": "+why)
	}
	for k, why := range effectNeutral {
		vetted = append(vetted, "effect-neutral "+k+": "+why)
	}
	sort.Strings(vetted)
	r.Assume = append(r.Assume, vetted...)

	// ------------------------------------------------------------------ R2
	checkRunTxAnte(r, "C11-R2")
	r.Rule("C11-R2b", "mode discipline: CheckTx/DeliverTx/Simulate call runTx with their own mode constant and only after the tx decoded; runMsg calls the routed handler only when the route exists and mode != Check", 8)
	for _, w := range []struct{ fn, mode, via string }{
		{"(*baseapp.BaseApp).CheckTx", "0", ""}, {"(*baseapp.BaseApp).DeliverTx", "2", ""},
		{"(*baseapp.BaseApp).Simulate", "1", ""}, {"(*baseapp.BaseApp).Check", "0", ""}, {"(*baseapp.BaseApp).Deliver", "2", ""},
	} {
		f := r.fnOpt(w.fn)
		if f == nil {
			continue
		}
		for _, c := range CallsIn(f, "(*baseapp.BaseApp).runTx") {
			t := P.callTerm(c)
			r.Check(argTerm(t, 1).String() == w.mode, "C11-R2b", w.fn+"/mode", P.InstrPos(c), "mode "+w.mode, w.fn+" runs runTx in mode "+argTerm(t, 1).String()+" ; required "+w.mode)
			if strings.HasSuffix(w.fn, "Tx") {
				r.requireAtoms("C11-R2b", w.fn+"/decoded", c, P.Guards(c, 0), []req{{"decode-ok", `^isnil\(dyn\[param:app\.txDecoder\]\(param:req\.Tx\)#1\)$`}})
				ok := argTerm(t, 2).String() == "param:req.Tx" && argTerm(t, 3).String() == "dyn[param:app.txDecoder](param:req.Tx)#0"
				r.Check(ok, "C11-R2b", w.fn+"/args", P.InstrPos(c), "runTx(mode, req.Tx, decoded tx)", "runTx receives "+t.String())
			}
		}
	}
	if f := r.fn("(*baseapp.BaseApp).runMsg"); f != nil {
		var hcall ssa.CallInstruction
		Instrs(f, func(in ssa.Instruction) {
			if ci, ok := in.(ssa.CallInstruction); ok && strings.HasPrefix(P.callTerm(ci).String(), "dyn[types.Router.Route(") {
				hcall = ci
			}
		})
		if hcall == nil {
			r.Viol("C11-R2b", "runMsg/handler-call", P.Pos(f.Pos()), "runMsg no longer calls the routed handler")
		} else {
			t := P.callTerm(hcall).String()
			want := "dyn[types.Router.Route(param:app.router, types.Msg.Route(param:msg))](param:ctx, param:msg)"
			r.Check(t == want, "C11-R2b", "runMsg/handler-call", P.InstrPos(hcall), t, "handler call is "+t+" ; required "+want)
			r.requireAtoms("C11-R2b", "runMsg/handler-call", hcall, P.Guards(hcall, 0), []req{
				{"route-exists", `^!isnil\(types\.Router\.Route\(param:app\.router, types\.Msg\.Route\(param:msg\)\)\)$`},
				{"mode!=Check", `^!\(0 == param:mode\)$`},
			})
		}
	}

	// ------------------------------------------------------------------ R3
	r.Rule("C11-R3", "read-only modes never hand a message handler a store whose writes reach the committed trees: the multistore of the context given to runMsg must be a CacheMultiStore (never written) unless the mode is Deliver", 1)
	if f := r.fn("(*baseapp.BaseApp).runTx"); f != nil {
		if c := r.oneCall("C11-R3", "runTx", f, "(*baseapp.BaseApp).runMsg"); c != nil {
			ctxArg := argTerm(P.callTerm(c), 1)
			guards := P.Guards(c, 0)
			deliverOnly, _ := HasAtom(guards, `^\(2 == param:mode\)$`)
			// provenance of the handler context's multistore
			prov := "unknown"
			if ctxArg.HasCall("(*baseapp.BaseApp).txContext") {
				if tc := r.fnOpt("(*baseapp.BaseApp).txContext"); tc != nil {
					for _, ret := range Returns(tc) {
						s := P.TermAt(ret.Results[0], ret).String()
						switch {
						case strings.Contains(s, "CopyStore(") && !strings.Contains(s, ".CacheMultiStore("):
							prov = "RootCopy"
						case strings.Contains(s, ".CacheMultiStore("):
							prov = "Cached"
						}
					}
				}
			} else if ctxArg.HasCall("(*baseapp.BaseApp).cacheTxContext") {
				prov = "Cached"
			}
			ok := prov == "Cached" || deliverOnly
			r.Check(ok, "C11-R3", "runTx/handler-store-in-simulate", P.InstrPos(c),
				"handler context store provenance: "+prov,
				"runTx hands runMsg a context whose multistore is "+prov+" (txContext replaces the multistore by app.cms.CopyStore(), which shares the live substores) and this is not restricted to mode==Deliver: in Simulate mode (Query /app/simulate) message handlers write the live IAVL working trees, which the next Commit persists")
		}
	}

	// ------------------------------------------------------------------ R4
	r.Rule("C11-R4", "panic containment: runTx installs, before the ante handler and the message handler can run, a deferred closure that calls recover() and turns the panic into an error result", 3)
	if f := r.fn("(*baseapp.BaseApp).runTx"); f != nil {
		var rec *ssa.Defer
		Instrs(f, func(in ssa.Instruction) {
			d, ok := in.(*ssa.Defer)
			if !ok {
				return
			}
			mc, ok := d.Call.Value.(*ssa.MakeClosure)
			if !ok {
				return
			}
			cl := mc.Fn.(*ssa.Function)
			hasRecover := false
			// recover() stops a panic only when called directly by the deferred function: a helper does not count
			InstrsRaw(cl, func(i2 ssa.Instruction) {
				if c, ok := i2.(*ssa.Call); ok {
					if b, ok := c.Call.Value.(*ssa.Builtin); ok && b.Name() == "recover" {
						hasRecover = true
					}
				}
			})
			if hasRecover {
				rec = d
			}
		})
		if rec == nil {
			r.Viol("C11-R4", "runTx/recover-installed", P.Pos(f.Pos()), "runTx has no deferred closure calling recover(): a panicking handler would crash the process")
		} else {
			r.OK("C11-R4", "runTx/recover-installed", P.InstrPos(rec), "deferred recover closure")
			for _, n := range []string{"(*baseapp.BaseApp).runMsg", "baseapp.validateBasicTxMsgs"} {
				for _, c := range CallsIn(f, n) {
					r.Check(Precedes(rec, c), "C11-R4", "runTx/recover-before:"+n, P.InstrPos(c), "recover installed first", n+" can run before the recover closure is installed")
				}
			}
			Instrs(f, func(in ssa.Instruction) {
				if ci, ok := in.(ssa.CallInstruction); ok && strings.HasPrefix(P.callTerm(ci).String(), "dyn[param:app.anteHandler](") {
					r.Check(Precedes(rec, in), "C11-R4", "runTx/recover-before:anteHandler", P.InstrPos(in), "recover installed first", "the ante handler can run before the recover closure is installed")
				}
			})
			// the closure assigns the named result on the recovered path
			cl := rec.Call.Value.(*ssa.MakeClosure).Fn.(*ssa.Function)
			n := 0
			Instrs(cl, func(in ssa.Instruction) {
				if st, ok := in.(*ssa.Store); ok {
					if root, _ := addrPath(st.Addr); root != nil {
						if fv, ok := root.(*ssa.FreeVar); ok && fv.Name() == "result" {
							if len(P.Guards(st, 0)) > 0 && strings.Contains(P.TermAt(st.Val, st).String(), "types.Error.Result(") {
								n++
							}
						}
					}
				}
			})
			r.Check(n >= 2, "C11-R4", "runTx/recover-sets-error-result", P.Pos(cl.Pos()), "both recover arms assign an error result", "the recover closure no longer assigns an error result on every arm")
		}
	}

	// ------------------------------------------------------------------ R5
	r.Rule("C11-R5", "the process keeps running: process-terminating calls (os.Exit, log.Fatal*, common.Exit) reachable from CheckTx/DeliverTx/Simulate/Query through the ante handler, the message handlers and the queriers are exactly the vetted mis-configuration paths", 4)
	vettedExit := map[string]string{
		"x/auth.NewAnteHandler$1":                               "fee-collector module account missing from the permission table (application wiring error)",
		"(x/auth/keeper.Keeper).SetAccount":                     "amino cannot marshal the account (unregistered concrete type: wiring error)",
		"(x/gov/keeper.Keeper).ModifyParam":                     "ACL names a subspace that is not registered with the gov keeper (wiring error)",
		"(x/gov/keeper.Keeper).HandleUpgrade":                   "ACL names a subspace that is not registered with the gov keeper (wiring error)",
		"(*baseapp.BaseApp).runTx$2":                            "block gas meter overflow after summation (uint64 wrap)",
		"(x/gov/keeper.Keeper).Subspace":                        "duplicate/empty subspace registration (init-time wiring)",
		"(x/gov/keeper.Keeper).AddSubspaces":                    "duplicate/empty subspace registration (init-time wiring)",
		"(x/auth/keeper.Keeper).GetParams":                      "",
		"(x/pos/keeper.Keeper).GetParams":                       "",
		"x/auth/types.NewTestTx":                                "test helper",
		"(x/auth/keeper.Keeper).GetModuleAccountAndPermissions": "",
	}
	var roots []*ssa.Function
	for _, n := range []string{"(*baseapp.BaseApp).CheckTx", "(*baseapp.BaseApp).DeliverTx", "(*baseapp.BaseApp).Simulate", "(*baseapp.BaseApp).Query", "(*baseapp.BaseApp).runTx", "x/pos.NewHandler$1", "x/gov.NewHandler$1", "x/auth.NewAnteHandler$1", "x/pos/keeper.NewQuerier$1", "x/gov/keeper.NewQuerier$1", "x/auth.NewQuerier$1"} {
		if f := r.fnOpt(n); f != nil {
			roots = append(roots, f)
		}
	}
	reached := g.Reach(roots, nil)
	r.Stats["C11_functions_reachable_from_tx_and_query_roots"] = len(reached)
	var exitFns []string
	exitSite := map[string]*Edge{}
	for f := range reached {
		for _, e := range g.Out[f] {
			if isExitSink(e.Label) {
				// a helper introduced by a refactoring stands for the pinned functions that call it
				for _, pf := range P.pinnedCallersOf(f) {
					n := short(pf.String())
					if _, ok := exitSite[n]; !ok {
						exitSite[n] = e
						exitFns = append(exitFns, n)
					}
				}
			}
		}
	}
	sort.Strings(exitFns)
	for _, n := range exitFns {
		e := exitSite[n]
		why, ok := vettedExit[n]
		var caller *ssa.Function = e.Caller
		if ok {
			r.OK("C11-R5", "exit@"+n, P.InstrPos(e.Site), "vetted halt path: "+why)
		} else {
			r.Viol("C11-R5", "exit@"+n, P.InstrPos(e.Site), n+" calls "+e.Label+" and is reachable from transaction/query processing via "+g.PathTo(reached, caller)+": a transaction or query could terminate the process")
		}
	}

	// ------------------------------------------------------------------ R6
	r.Rule("C11-R6", "every message type routed to a module has a case in that module's handler type switch, and the default arm returns an error result", 9)
	msgIface, _ := P.LookupObj("types", "Msg").Type().Underlying().(*types.Interface)
	if msgIface == nil {
		r.Undecided("C11-R6", "types.Msg", "-", "sdk.Msg interface not found")
	} else {
		for _, mod := range []struct{ pkg, handler string }{{"x/pos/types", "x/pos.NewHandler$1"}, {"x/gov/types", "x/gov.NewHandler$1"}} {
			h := r.fn(mod.handler)
			if h == nil {
				continue
			}
			cases := map[string]bool{}
			Instrs(h, func(in ssa.Instruction) {
				if ta, ok := in.(*ssa.TypeAssert); ok && ta.CommaOk {
					cases[typeStr(ta.AssertedType)] = true
				}
			})
			sc := P.Pkg(mod.pkg).Types.Scope()
			for _, name := range sc.Names() {
				tn, ok := sc.Lookup(name).(*types.TypeName)
				if !ok || tn.IsAlias() {
					continue
				}
				if _, isIface := tn.Type().Underlying().(*types.Interface); isIface {
					continue
				}
				if !types.Implements(tn.Type(), msgIface) {
					continue
				}
				ts := typeStr(tn.Type())
				r.Check(cases[ts], "C11-R6", mod.handler+"/case:"+ts, P.Pos(h.Pos()), "handled", "message type "+ts+" implements sdk.Msg but "+mod.handler+" has no case for it (it would fall into the default arm)")
			}
			// default arm returns an error result: some return has class nonnil with ErrUnknownRequest
			okDefault := false
			for _, ret := range Returns(h) {
				t := P.TermAt(ret.Results[0], ret).String()
				if strings.HasPrefix(t, "types.Error.Result(types.ErrUnknownRequest(") {
					gs := P.Guards(ret, 0)
					neg := 0
					for _, a := range gs {
						if !a.Pos && strings.Contains(a.Key(), ".(") {
							neg++
						}
					}
					if neg >= len(cases) {
						okDefault = true
					}
				}
			}
			r.Check(okDefault, "C11-R6", mod.handler+"/default-arm-errors", P.Pos(h.Pos()), "unknown message types get an error result", "the default arm of "+mod.handler+" does not return ErrUnknownRequest(...).Result() for unhandled message types")
		}
	}

	// ------------------------------------------------------------------ R7b / R8
	loadVersionRules(r, "C11-R7b")
	r.Rule("C11-R8", "no write-then-panic in the stake handlers: StakeValidator (whose pool transfer panics on insufficient funds, after RegisterValidator already wrote) is reached only after ValidateValidatorStaking succeeded on the same validator and amount, including HasCoins(validator.Address, coins(amount))", 6)
	stakeGuards(r, "C11-R8")

	// ------------------------------------------------------------------ R7
	r.Rule("C11-R7", "custom queries run on a freshly loaded historical copy: handleQueryCustom loads the requested version into a CopyStore of the root multistore, returns on a load error, and only then calls the querier with a context over that copy", 3)
	if f := r.fn("baseapp.handleQueryCustom"); f != nil {
		lv := r.oneCall("C11-R7", "handleQueryCustom", f, "(*store/rootmulti.Store).LoadVersion")
		var q1 ssa.CallInstruction
		Instrs(f, func(in ssa.Instruction) {
			if ci, ok := in.(ssa.CallInstruction); ok && strings.HasPrefix(P.callTerm(ci).String(), "dyn[types.QueryRouter.Route(") {
				q1 = ci
			}
		})
		if lv != nil && q1 != nil {
			lt := P.callTerm(lv)
			r.Check(strings.Contains(argTerm(lt, 0).String(), "CopyStore(") && strings.HasSuffix(argTerm(lt, 1).String(), ".Height") || strings.Contains(argTerm(lt, 1).String(), "Height"), "C11-R7", "handleQueryCustom/loads-requested-height-into-copy", P.InstrPos(lv), lt.String(), "LoadVersion call is "+lt.String())
			r.requireAtoms("C11-R7", "handleQueryCustom/querier-call", q1, P.Guards(q1, 0), []req{{"version-loaded", `^isnil\(\(\*store/rootmulti\.Store\)\.LoadVersion\(`}})
			ctxArg := argTerm(P.callTerm(q1), 1).String()
			r.Check(strings.Contains(ctxArg, "types.NewContext(") && strings.Contains(ctxArg, "CopyStore("), "C11-R7", "handleQueryCustom/querier-context", P.InstrPos(q1), "querier context is built over the loaded copy", "querier context is "+ctxArg)
		} else if q1 == nil {
			r.Viol("C11-R7", "handleQueryCustom/querier-call", P.Pos(f.Pos()), "querier call not found")
		}
	}
}
