package main

import (
	"fmt"
	"regexp"
	"strings"

	"golang.org/x/tools/go/ssa"
)

// phiSelectedWhen: phi has one alternative matching valueRe; that alternative must be the one chosen on
// every path that crosses a branch edge establishing atomRe (the selecting condition is exactly that atom,
// not something narrower).
func (r *Run) phiSelectedWhen(rule, key string, phi *ssa.Phi, valueRe, atomRe string) bool {
	P := r.P
	rx := regexp.MustCompile(valueRe)
	want := -1
	for i, e := range phi.Edges {
		if rx.MatchString(P.TermAt(e, phi).String()) {
			want = i
		}
	}
	if want < 0 {
		var alts []string
		for _, e := range phi.Edges {
			alts = append(alts, P.TermAt(e, phi).String())
		}
		r.Viol(rule, key, P.InstrPos(phi), "no alternative of the merged value matches "+valueRe+" (alternatives: "+strings.Join(alts, " | ")+")")
		return false
	}
	fn := phi.Parent()
	edges := P.ifEdgesFor(fn, atomRe)
	if len(edges) == 0 {
		r.Viol(rule, key, P.InstrPos(phi), "no branch establishing "+atomRe+" selects the value")
		return false
	}
	pb := phi.Block()
	wantPred := pb.Preds[want]
	ok := true
	for _, e := range edges {
		// explore from the edge's successor; reaching pb through a predecessor other than wantPred is a violation
		start := e.B.Succs[e.I]
		seen := map[*ssa.BasicBlock]bool{}
		work := []*ssa.BasicBlock{start}
		if start == pb && e.B != wantPred {
			ok = false
		}
		for len(work) > 0 && ok {
			b := work[len(work)-1]
			work = work[:len(work)-1]
			if seen[b] || b == pb {
				continue
			}
			seen[b] = true
			for _, s := range b.Succs {
				if s == pb {
					if b != wantPred {
						ok = false
					}
					continue
				}
				work = append(work, s)
			}
		}
	}
	if ok {
		r.OK(rule, key, P.InstrPos(phi), "the value "+valueRe+" is selected on every path after "+atomRe)
	} else {
		r.Viol(rule, key, P.InstrPos(phi), "after the branch «"+atomRe+"» a path still merges a different alternative: the value is selected under a narrower condition than required")
	}
	return ok
}

func moreC12(r *Run) {
	pruningWiring(r, "C12-R8")

	loadVersionRules(r, "C12-R9")
}

// loadVersionRules: reload pins substores to their recorded ids; copies are isolated (C12-R9, C13-R5, C11-R7b).
func loadVersionRules(r *Run, rule string) {
	P := r.P
	// ---- substore pinned to its recorded CommitID (seeds C12_b, C13_c)
	r.Rule(rule, "LoadVersion pins every substore to the CommitID recorded for it in the commit info of the requested version, whenever such a record exists (and to the zero id only when it has none); it installs a freshly built store map; CopyStore gives the copy its own maps", 4)
	if f := r.fn(rmS + "LoadVersion"); f != nil {
		for _, c := range CallsIn(f, rmS+"loadCommitStoreFromParams") {
			t := P.callTerm(c)
			id := argTerm(t, 2).String()
			if id == "zero:store/types.CommitID" {
				ok, _ := HasAtom(P.Guards(c, 0), `^\(0 == param:ver\)$`)
				r.Check(ok, rule, "LoadVersion/zero-id-only-for-version-0", P.InstrPos(c), "zero id only on the ver==0 path", "a substore is loaded at the zero CommitID outside the ver==0 path")
				continue
			}
			want := "phi(other:makemap[next(range(param:rs.storesParams))#1]#0.Core.CommitID, zero:store/types.CommitID)"
			r.Check(id == want, rule, "LoadVersion/substore-id", P.InstrPos(c), id, "substore is loaded at "+id+" ; required the whole CommitID recorded for it: "+want)
			if phi, ok := c.Common().Args[2].(*ssa.Phi); ok {
				r.phiSelectedWhen(rule, "LoadVersion/recorded-id-used-whenever-present", phi, `^other:makemap\[.*\]#0\.Core\.CommitID$`, `^other:makemap\[next\(range\(param:rs\.storesParams\)\)#1\]#1$`)
			} else if id == want {
				// the id is a local assigned under `found`: from the found edge the assignment always precedes the load call
				var asg ssa.Instruction
				Instrs(f, func(in ssa.Instruction) {
					if st, ok := in.(*ssa.Store); ok && strings.HasSuffix(P.TermAt(st.Val, st).String(), "]#0.Core.CommitID") && strings.HasPrefix(P.TermAt(st.Addr, st).String(), "addr:store/types.CommitID") {
						asg = in
					}
				})
				if asg == nil {
					r.Viol(rule, "LoadVersion/recorded-id-used-whenever-present", P.InstrPos(c), "the recorded CommitID is never assigned to the id used for loading")
				} else {
					r.mustFollowEdge(rule, "LoadVersion/recorded-id-used-whenever-present", f, `^other:makemap\[next\(range\(param:rs\.storesParams\)\)#1\]#1$`,
						func(in ssa.Instruction) bool { return in == asg }, func(in ssa.Instruction) bool { return in == ssa.Instruction(c) }, "the assignment id = info.Core.CommitID")
				}
			}
			// the key used for the lookup is the store being loaded
			r.Check(argTerm(t, 1).String() == "next(range(param:rs.storesParams))#1" && argTerm(t, 3).String() == "next(range(param:rs.storesParams))#2", rule, "LoadVersion/same-key", P.InstrPos(c), "store key and params of the same map entry", "loads "+t.String())
		}
		// infos map is filled from the requested commit info, keyed by nameToKey(name)
		okFill := false
		Instrs(f, func(in ssa.Instruction) {
			if mu, ok := in.(*ssa.MapUpdate); ok {
				k, v := P.TermAt(mu.Key, in).String(), P.TermAt(mu.Value, in).String()
				if strings.HasPrefix(k, rmS+"nameToKey(param:rs, store/rootmulti.getCommitInfo(param:rs.DB, param:ver)#0.StoreInfos[") && strings.HasSuffix(k, "].Name)") &&
					strings.HasPrefix(v, "store/rootmulti.getCommitInfo(param:rs.DB, param:ver)#0.StoreInfos[") {
					okFill = true
				}
				// in-place update of the live map on the non-zero path is forbidden
				if P.TermAt(mu.Map, in).String() == "param:rs.stores" {
					g, _ := HasAtom(P.Guards(in, 0), `^\(0 == param:ver\)$`)
					r.Check(g, rule, "LoadVersion/no-in-place-store-map-update", P.InstrPos(in), "rs.stores is updated in place only on the ver==0 path", "LoadVersion(ver != 0) overwrites entries of rs.stores in place instead of installing a fresh map: a copy sharing the map would rewind the live store")
				}
			}
		})
		r.Check(okFill, rule, "LoadVersion/infos-from-requested-commit-info", P.Pos(f.Pos()), "infos[nameToKey(name)] = storeInfo of the requested version", "the per-store CommitID table is no longer filled from the commit info of the requested version")
		okSwap := false
		Instrs(f, func(in ssa.Instruction) {
			if s, ok := in.(*ssa.Store); ok && P.TermAt(s.Addr, s).String() == "&param:rs.stores" {
				okSwap = P.TermAt(s.Val, s).String() == "other:makemap"
			}
		})
		r.Check(okSwap, rule, "LoadVersion/installs-fresh-map", P.Pos(f.Pos()), "rs.stores = freshly built map", "LoadVersion does not install a freshly built store map")
	}
	if f := r.fn(rmS + "CopyStore"); f != nil {
		for _, ret := range Returns(f) {
			t := P.PointeeAt(ret.Results[0], ret).String()
			for _, fld := range []string{"storesParams", "stores", "keysByName", "traceContext"} {
				r.Check(strings.Contains(t, fld+"=other:makemap"), rule, "CopyStore/own-map:"+fld, P.InstrPos(ret), "fresh map", "CopyStore shares the map "+fld+" with the live store: LoadVersion on the copy (historical queries, PrevCtx) would alter the live store")
			}
			r.Check(strings.Contains(t, "DB=param:rs.DB") && strings.Contains(t, "lastCommitID=param:rs.lastCommitID") && strings.Contains(t, "pruningOpts=param:rs.pruningOpts"), rule, "CopyStore/scalars", P.InstrPos(ret), "DB, lastCommitID, pruningOpts copied", "CopyStore builds "+t)
		}
	}
}

func moreC13(r *Run) {
	P := r.P
	loadVersionRules(r, "C13-R5")
	r.Rule("C13-R4", "re-execution after a crash is tolerated: a DeleteVersion error whose cause is ErrVersionDoesNotExist (already pruned before the crash) is ignored, any other cause panics — the comparison is made on errors.Cause(err)", 1)
	if f := r.fn("(*store/iavl.Store).Commit"); f != nil {
		del := CallsIn(f, "store/iavl.Tree.DeleteVersion")
		if len(del) == 1 {
			cause := "github.com/pkg/errors.Cause(" + P.callTerm(del[0]).String() + ")"
			var pn *ssa.Panic
			Instrs(f, func(in ssa.Instruction) {
				if p, ok := in.(*ssa.Panic); ok && strings.Contains(P.TermAt(p.X, p).String(), "DeleteVersion(") {
					pn = p
				}
			})
			if pn == nil {
				r.Viol("C13-R4", "iavl.Commit/delete-error-handling", P.InstrPos(del[0]), "no panic on unexpected DeleteVersion errors")
			} else {
				gs := P.Guards(pn, 0)
				ok1, _ := HasAtom(gs, `^!isnil\(`+q(cause)+`\)$`)
				ok2, _ := HasAtom(gs, `^!\(`+q(cause)+` == global:github\.com/tendermint/iavl\.ErrVersionDoesNotExist\)$`)
				ok3, _ := HasAtom(gs, `^!\(global:github\.com/tendermint/iavl\.ErrVersionDoesNotExist == `+q(cause)+`\)$`)
				r.Check(ok1 && (ok2 || ok3), "C13-R4", "iavl.Commit/already-pruned-tolerated", P.InstrPos(pn), "panics only for a non-nil cause other than ErrVersionDoesNotExist",
					"the DeleteVersion error is handled under {"+strings.Join(atomStrings(gs), " ; ")+"} ; required: panic iff errors.Cause(err) is non-nil and differs from ErrVersionDoesNotExist (IAVL wraps the error, so comparing err itself never matches and re-pruning after a crash panics)")
			}
		} else {
			r.Viol("C13-R4", "iavl.Commit/delete-error-handling", P.Pos(f.Pos()), fmt.Sprintf("%d DeleteVersion calls", len(del)))
		}
	}
}

func moreC14(r *Run) {
	P := r.P
	r.Rule("C14-R6", "an explicit query height is never replaced: getHeight substitutes latest-1/latest only under req.Height == 0, so pruned or future heights reach the VersionExists test unchanged", 2)
	if f := r.fn("store/iavl.getHeight"); f != nil {
		cs := CallsIn(f, "store/iavl.Tree.Version")
		if len(cs) == 0 {
			r.Viol("C14-R6", "getHeight/default", P.Pos(f.Pos()), "getHeight no longer derives a default from tree.Version()")
		}
		for _, c := range cs {
			ok, _ := HasAtom(P.Guards(c, 0), `^\(0 == param:req\.Height\)$`)
			r.Check(ok, "C14-R6", "getHeight/default-only-when-unset", P.InstrPos(c), "the latest version is consulted only when req.Height == 0", "getHeight consults the latest version under {"+strings.Join(atomStrings(P.Guards(c, 0)), " ; ")+"}: a non-zero requested height can be replaced")
		}
		kept := false
		for _, a := range P.RetAlternatives(f, 0) {
			t := a.T.String()
			if t == "param:req.Height" {
				kept = true
				continue
			}
			ok, _ := HasAtom(a.G, `^\(0 == param:req\.Height\)$`)
			r.Check(ok, "C14-R6", "getHeight/explicit-height-kept", P.InstrPos(a.Ret), t+" only when req.Height == 0", "getHeight returns "+t+" under {"+strings.Join(atomStrings(a.G), " ; ")+"}: an explicit height can be replaced")
		}
		r.Check(kept, "C14-R6", "getHeight/explicit-height-returned", P.Pos(f.Pos()), "req.Height is one of the returned alternatives", "getHeight never returns req.Height")
	}
}

func moreC15(r *Run) {
	P := r.P
	r.Rule("C15-R7", "dirtyItems moves a dirty key out of the unsorted set only together with inserting it into the sorted list: the delete(unsortedCache, key) and the append to the batch happen under the same in-range test", 2)
	if f := r.fn(ckS + "dirtyItems"); f != nil {
		var del, app ssa.Instruction
		Instrs(f, func(in ssa.Instruction) {
			ci, ok := in.(ssa.CallInstruction)
			if !ok {
				return
			}
			op, nm := calleeName(ci.Common())
			if op != "builtin" {
				return
			}
			t := P.callTerm(ci)
			if nm == "delete" && argTerm(t, 0).String() == "param:store.unsortedCache" {
				del = in
			}
			if nm == "append" && strings.Contains(t.String(), "libs/common.KVPair") && app == nil {
				app = in
			}
		})
		if del == nil || app == nil {
			r.Viol("C15-R7", "dirtyItems/shape", P.Pos(f.Pos()), "dirtyItems no longer has the collect-and-remove pair")
		} else {
			inDom := `^github\.com/tendermint/tm-db\.IsKeyInDomain\(.*, param:start, param:end\)$`
			ok, _ := HasAtom(P.Guards(del, 0), inDom)
			ok2, _ := HasAtom(P.Guards(app, 0), inDom)
			r.Check(ok && ok2, "C15-R7", "dirtyItems/removed-iff-collected", P.InstrPos(del), "a key leaves the unsorted set only when it is in range and collected", "delete(unsortedCache,key) is guarded by {"+strings.Join(atomStrings(P.Guards(del, 0)), " ; ")+"} while the collection is guarded by {"+strings.Join(atomStrings(P.Guards(app, 0)), " ; ")+"}: out-of-range dirty keys would vanish from later iterations")
			r.Check(sameGuards(P, del, app), "C15-R7", "dirtyItems/same-condition", P.InstrPos(del), "same condition", "the removal and the collection are not under the same condition")
		}
	}
}

func moreC16(r *Run) {
	P := r.P
	// iterator seek gas is unconditional inside consumeSeekGas (seed C16_b)
	r.Rule("C16-R7", "consumeSeekGas charges both the per-byte and the flat iteration cost on every path (no early return); wrappers cache-wrap themselves: CacheWrap = cachekv.NewStore(self) and CacheWrapWithTrace = cachekv.NewStore(tracekv.NewStore(self, w, tc)) for every store type that supports it", 6)
	if f := r.fn("(*store/gaskv.gasIterator).consumeSeekGas"); f != nil {
		for _, c := range CallsIn(f, "store/types.GasMeter.ConsumeGas") {
			desc := argTerm(P.callTerm(c), 2).String()
			r.Check(len(P.Guards(c, 0)) == 0, "C16-R7", "consumeSeekGas/unconditional:"+desc, P.InstrPos(c), "unconditional", "the charge "+desc+" is conditional: "+strings.Join(atomStrings(P.Guards(c, 0)), " ; "))
			reach, _, path := ReachWithout(f, nil, isReturn, func(in ssa.Instruction) bool { return in == ssa.Instruction(c) }, nil)
			r.Check(!reach, "C16-R7", "consumeSeekGas/always:"+desc, P.InstrPos(c), "charged on every path", "a path returns without charging "+desc+": "+P.blockPathString(path))
		}
	}
	for _, w := range []struct{ typ, recv string }{
		{"(store/prefix.Store)", "param:s"}, {"(*store/iavl.Store)", "param:st"}, {"(*store/cachekv.Store)", "param:store"},
		{"(store/dbadapter.Store)", "param:dsa"}, {"(*store/transient.Store)", ""},
	} {
		cw := r.fnOpt(w.typ + ".CacheWrap")
		if cw != nil && w.recv != "" {
			for _, ret := range Returns(cw) {
				t := P.TermAt(ret.Results[0], ret).String()
				r.Check(t == "store/cachekv.NewStore("+w.recv+")", "C16-R7", w.typ+".CacheWrap/wraps-self", P.InstrPos(ret), t, w.typ+".CacheWrap returns "+t+" ; required cachekv.NewStore(self)")
			}
		}
		cwt := r.fnOpt(w.typ + ".CacheWrapWithTrace")
		if cwt != nil && w.recv != "" {
			for _, ret := range Returns(cwt) {
				t := P.TermAt(ret.Results[0], ret).String()
				r.Check(t == "store/cachekv.NewStore(store/tracekv.NewStore("+w.recv+", param:w, param:tc))", "C16-R7", w.typ+".CacheWrapWithTrace/wraps-self", P.InstrPos(ret), t, w.typ+".CacheWrapWithTrace returns "+t+" ; required cachekv.NewStore(tracekv.NewStore(self, w, tc)) — tracing the parent instead of the store itself bypasses the wrapper")
			}
		}
	}
	// constructors keep their arguments
	for _, w := range []struct{ fn, want string }{
		{"store/prefix.NewStore", "parent=param:parent, prefix=param:prefix"},
		{"store/gaskv.NewStore", "gasConfig=param:gasConfig, gasMeter=param:gasMeter, parent=param:parent"},
		{"store/tracekv.NewStore", "context=param:tc, parent=param:parent, writer=param:writer"},
		{"store/cachekv.NewStore", "parent=param:parent"},
	} {
		if f := r.fn(w.fn); f != nil {
			for _, ret := range Returns(f) {
				t := P.TermAt(ret.Results[0], ret).String()
				r.Check(strings.Contains(t, w.want), "C16-R7", w.fn+"/fields", P.InstrPos(ret), t, w.fn+" builds "+t+" ; required "+w.want)
			}
		}
	}
}

// pruningWiring: the retention options reach the tree store unswapped (C12-R8, C13-R6): a store that prunes more
// than configured deletes the version the on-disk marker still names.
func pruningWiring(r *Run, rule string) {
	P := r.P
	r.Rule(rule, "pruning options reach the tree store unswapped: SetPruning assigns numRecent = KeepRecent() and storeEvery = KeepEvery(); LoadStore builds the store and applies the given pruning options through SetPruning (or passes KeepRecent, KeepEvery in that order); UnsafeNewStore stores its parameters in the same-named fields; PruningOptions getters return their own field", 6)
	if f := r.fn("(*store/iavl.Store).SetPruning"); f != nil {
		got := map[string]string{}
		Instrs(f, func(in ssa.Instruction) {
			if s, ok := in.(*ssa.Store); ok {
				got[P.TermAt(s.Addr, s).String()] = P.TermAt(s.Val, s).String()
			}
		})
		r.Check(got["&param:st.numRecent"] == "param:opt.keepRecent", rule, "SetPruning/numRecent", P.Pos(f.Pos()), got["&param:st.numRecent"], "numRecent := "+got["&param:st.numRecent"])
		r.Check(got["&param:st.storeEvery"] == "param:opt.keepEvery", rule, "SetPruning/storeEvery", P.Pos(f.Pos()), got["&param:st.storeEvery"], "storeEvery := "+got["&param:st.storeEvery"])
	}
	if f := r.fn("store/iavl.UnsafeNewStore"); f != nil {
		for _, ret := range Returns(f) {
			t := P.TermAt(ret.Results[0], ret).String()
			r.Check(strings.Contains(t, "numRecent=param:numRecent") && strings.Contains(t, "storeEvery=param:storeEvery") && strings.Contains(t, "tree=param:tree"), rule, "UnsafeNewStore/fields", P.InstrPos(ret), t, "UnsafeNewStore builds "+t)
		}
	}
	if f := r.fn("store/iavl.LoadStore"); f != nil {
		okWire := false
		for _, c := range CallsIn(f, "(*store/iavl.Store).SetPruning") {
			if argTerm(P.callTerm(c), 1).String() == "param:pruning" {
				okWire = true
				for _, ret := range P.successReturns(f, 1, "nil") {
					r.Check(Precedes(c, ret), rule, "LoadStore/pruning-applied-before-return", P.InstrPos(ret), "applied", "LoadStore can return a store without the pruning options applied")
				}
			}
		}
		for _, c := range CallsIn(f, "store/iavl.UnsafeNewStore") {
			t := P.callTerm(c)
			a1, a2 := argTerm(t, 1).String(), argTerm(t, 2).String()
			if a1 == "param:pruning.keepRecent" && a2 == "param:pruning.keepEvery" {
				okWire = true
			} else if !(a1 == "0" && a2 == "0") {
				okWire = false
				r.Viol(rule, "LoadStore/UnsafeNewStore-args", P.InstrPos(c), "UnsafeNewStore(tree, "+a1+", "+a2+") ; required (numRecent = KeepRecent, storeEvery = KeepEvery) or (0, 0) followed by SetPruning")
			}
		}
		r.Check(okWire, rule, "LoadStore/pruning-wired", P.Pos(f.Pos()), "the loaded store receives the caller's pruning options", "LoadStore does not hand the pruning options to the store in the right positions")
		// loads the requested version
		n := 0
		for _, nm := range []string{"(*github.com/tendermint/iavl.MutableTree).LoadVersion", "(*github.com/tendermint/iavl.MutableTree).LazyLoadVersion"} {
			for _, c := range CallsIn(f, nm) {
				n++
				r.Check(argTerm(P.callTerm(c), 1).String() == "param:id.Version", rule, "LoadStore/"+nm[strings.LastIndex(nm, ".")+1:], P.InstrPos(c), "loads id.Version", "loads "+argTerm(P.callTerm(c), 1).String())
			}
		}
		r.Check(n == 2, rule, "LoadStore/loads-tree", P.Pos(f.Pos()), "tree loaded at the requested version", "LoadStore no longer loads the tree at id.Version")
	}
	for _, w := range []struct{ m, fld string }{{"KeepRecent", "keepRecent"}, {"KeepEvery", "keepEvery"}} {
		if f := r.fn("(store/types.PruningOptions)." + w.m); f != nil {
			for _, ret := range Returns(f) {
				t := P.TermAt(ret.Results[0], ret).String()
				r.Check(t == "param:po."+w.fld, rule, "PruningOptions."+w.m, P.InstrPos(ret), t, w.m+" returns "+t)
			}
		}
	}
	if f := r.fn(rmS + "loadCommitStoreFromParams"); f != nil {
		for _, c := range CallsIn(f, "store/iavl.LoadStore") {
			t := P.callTerm(c)
			r.Check(argTerm(t, 1).String() == "param:id" && argTerm(t, 2).String() == "param:rs.pruningOpts", rule, "loadCommitStoreFromParams/iavl", P.InstrPos(c), t.String(), "IAVL substore is loaded as "+t.String()+" ; required (db, id, rs.pruningOpts, lazy)")
		}
	}
}
