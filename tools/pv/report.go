package main

import (
	"encoding/json"
	"fmt"
	"golang.org/x/tools/go/ssa"
	"os"
	"path/filepath"
	"sort"
	"strings"
	"time"
	"unicode/utf8"
)

// Obligation is one decided rule instance.
type Obligation struct {
	Rule    string `json:"rule"`     // e.g. C03-R1
	Key     string `json:"instance"` // rule + function + construct, never a line number
	Site    string `json:"site"`     // file:line (diagnostic only)
	Verdict string `json:"verdict"`  // ok | violated | undecided
	Detail  string `json:"detail"`
}

// KnownFinding is one entry of /verif/known_findings.json.
type KnownFinding struct {
	Property  string `json:"property"`
	Rule      string `json:"rule"`
	Instance  string `json:"instance"`
	WhatFails string `json:"what_fails"`
	Status    string `json:"status"` // known | fixed
	Commit    string `json:"commit,omitempty"`
}

// Run collects the obligations of one property check.
type Run struct {
	P        *Prog
	Prop     string
	Tier     string
	Deep     bool // thorough tier
	Obls     []Obligation
	RuleText map[string]string
	floors   map[string]int
	counts   map[string]int
	Stats    map[string]int
	Assume   []string
	NotDec   []string
	Extra    map[string]interface{}
	Anchors  map[*ssa.Function]bool // functions the property's rules resolved by name
}

func NewRun(P *Prog, prop, tier string) *Run {
	r := &Run{P: P, Prop: prop, Tier: tier, Deep: tier == "thorough", RuleText: map[string]string{},
		floors: map[string]int{}, counts: map[string]int{}, Stats: map[string]int{}, Extra: map[string]interface{}{}, Anchors: map[*ssa.Function]bool{}}
	if len(P.Renamed) > 0 {
		r.Extra["renamed_functions"] = P.Renamed // current name -> name on the pinned tree (analysed under the pinned name)
	}
	return r
}

// Rule declares a rule: its text (goes to the evidence) and the number of
// instances confirmed by hand on the pinned tree (matching fewer is UNDECIDED).
func (r *Run) Rule(id, text string, floor int) {
	r.RuleText[id] = text
	r.floors[id] = floor
	if _, ok := r.counts[id]; !ok {
		r.counts[id] = 0
	}
}

func (r *Run) add(rule, key, site, verdict, detail string) {
	r.Obls = append(r.Obls, Obligation{Rule: rule, Key: rule + "/" + key, Site: site, Verdict: verdict, Detail: detail})
	r.counts[rule]++
}

func (r *Run) OK(rule, key, site, detail string)   { r.add(rule, key, site, "ok", detail) }
func (r *Run) Viol(rule, key, site, detail string) { r.add(rule, key, site, "violated", detail) }
func (r *Run) Undecided(rule, key, site, detail string) {
	r.add(rule, key, site, "undecided", detail)
}

// Check records ok or violated.
func (r *Run) Check(cond bool, rule, key, site, okDetail, badDetail string) bool {
	if cond {
		r.OK(rule, key, site, okDetail)
	} else {
		r.Viol(rule, key, site, badDetail)
	}
	return cond
}

func (r *Run) Assumption(s string) { r.Assume = append(r.Assume, s) }
func (r *Run) NotDecided(s string) { r.NotDec = append(r.NotDec, s) }

func loadKnown(path string) ([]KnownFinding, error) {
	b, err := os.ReadFile(path)
	if err != nil {
		if os.IsNotExist(err) {
			return nil, nil
		}
		return nil, err
	}
	var k struct {
		Findings []KnownFinding `json:"findings"`
	}
	if err := json.Unmarshal(b, &k); err != nil {
		return nil, err
	}
	return k.Findings, nil
}

// Finish applies floors and known findings, writes the evidence and returns the exit code.
func (r *Run) Finish(verifDir string, start time.Time) int {
	// floors
	var rules []string
	for id := range r.floors {
		rules = append(rules, id)
	}
	sort.Strings(rules)
	for _, id := range rules {
		if r.counts[id] < r.floors[id] {
			r.Obls = append(r.Obls, Obligation{Rule: id, Key: id + "/floor", Site: "-", Verdict: "undecided",
				Detail: fmt.Sprintf("rule matched %d instances, %d were confirmed by hand on the pinned tree: the rule would pass vacuously", r.counts[id], r.floors[id])})
		}
	}
	known, err := loadKnown(filepath.Join(verifDir, "known_findings.json"))
	if err != nil {
		fmt.Printf("UNDECIDED property=%s cannot read known_findings.json: %v\n", r.Prop, err)
		return 2
	}
	knownSet := map[string]KnownFinding{}
	for _, k := range known {
		if k.Status == "known" && k.Property == r.Prop {
			knownSet[k.Instance] = k
		}
	}
	var viol, undec, knownHit []Obligation
	nOK := 0
	for _, o := range r.Obls {
		switch o.Verdict {
		case "ok":
			nOK++
		case "violated":
			if _, ok := knownSet[o.Key]; ok {
				knownHit = append(knownHit, o)
			} else {
				viol = append(viol, o)
			}
		default:
			undec = append(undec, o)
		}
	}
	for _, o := range knownHit {
		fmt.Printf("KNOWN-FINDING: property=%s %s at %s: %s\n", r.Prop, o.Key, o.Site, oneLine(knownSet[o.Key].WhatFails))
	}
	evDir := filepath.Join(verifDir, "evidence")
	os.MkdirAll(evDir, 0o755)
	violPath := filepath.Join(evDir, r.Prop+".violations.json")
	os.Remove(violPath)

	// evidence
	samples := []Obligation{}
	perRule := map[string]int{}
	for _, o := range r.Obls {
		if perRule[o.Rule] < 4 || o.Verdict != "ok" {
			samples = append(samples, o)
			perRule[o.Rule]++
		}
	}
	ruleCounts := map[string]int{}
	for id, c := range r.counts {
		ruleCounts[id] = c
	}
	expl := fmt.Sprintf("Static analysis of /repo's current working tree (go/packages type-checked program, go/ssa SSA form, per-function CFG cuts, repo call graph). "+
		"Each obligation is one rule instance decided on all paths of the current source; no repository code is executed. Rules applied: %s. NOT decided: %s",
		strings.Join(rules, ", "), strings.Join(r.NotDec, "; "))
	ev := map[string]interface{}{
		"property_id": r.Prop,
		"tier":        r.Tier,
		"seed":        0,
		"level":       "other",
		"coverage": map[string]interface{}{
			"explanation":        expl,
			"obligations":        len(r.Obls),
			"discharged":         nOK,
			"known_findings":     len(knownHit),
			"violated":           len(viol),
			"undecided":          len(undec),
			"rules":              r.RuleText,
			"instances_per_rule": ruleCounts,
			"floors":             r.floors,
			"analysed":           r.Stats,
			"samples":            samples,
			"exhaustive":         true,
			"checker_cmd":        fmt.Sprintf("/verif/bin/pv -prop %s -tier %s", r.Prop, r.Tier),
			"trusted_base":       []string{"go/types, go/ssa (x/tools v0.29.0)", "library packages (tendermint, iavl, amino, tm-db, stdlib) are leaves matched at the call site", "frozen slot table and vetted-instance tables in /verif/tools/pv"},
		},
		"assumptions": append([]string{}, r.Assume...),
		"wall_s":      time.Since(start).Seconds(),
		"violations":  len(viol),
	}
	for k, v := range r.Extra {
		ev["coverage"].(map[string]interface{})[k] = v
	}
	b, _ := json.MarshalIndent(ev, "", " ")
	if err := os.WriteFile(filepath.Join(evDir, r.Prop+".json"), b, 0o644); err != nil {
		fmt.Printf("UNDECIDED property=%s cannot write evidence: %v\n", r.Prop, err)
		return 2
	}
	fmt.Printf("property=%s tier=%s obligations=%d ok=%d known=%d violated=%d undecided=%d wall=%.1fs\n",
		r.Prop, r.Tier, len(r.Obls), nOK, len(knownHit), len(viol), len(undec), time.Since(start).Seconds())
	for _, id := range rules {
		fmt.Printf("  rule %-8s instances=%-3d floor=%-3d\n", id, r.counts[id], r.floors[id])
	}
	if len(viol) > 0 {
		vb, _ := json.MarshalIndent(map[string]interface{}{"property": r.Prop, "violations": viol, "rules": r.RuleText}, "", " ")
		os.WriteFile(violPath, vb, 0o644)
		for _, o := range viol {
			fmt.Printf("  violated %s at %s: %s\n", o.Key, o.Site, oneLine(o.Detail))
		}
		fmt.Printf("VIOLATION property=%s replay=%s\n", r.Prop, violPath)
		return 1
	}
	if len(undec) > 0 {
		for _, o := range undec {
			fmt.Printf("  undecided %s at %s: %s\n", o.Key, o.Site, oneLine(o.Detail))
		}
		fmt.Printf("UNDECIDED property=%s (an anchor did not resolve or a rule matched too few instances; the tables in /verif/tools/pv must be re-confirmed)\n", r.Prop)
		return 2
	}
	return 0
}

func oneLine(s string) string {
	s = strings.ReplaceAll(s, "\n", " ")
	if len(s) > 600 {
		cut := 600
		for cut > 0 && !utf8.RuneStart(s[cut]) {
			cut--
		}
		s = s[:cut] + "…"
	}
	return s
}
