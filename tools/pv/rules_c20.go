package main

import (
	"fmt"
	"go/types"
	"sort"
	"strings"

	"golang.org/x/tools/go/ssa"
)

func init() { register("C20", checkC20) }

func checkC20(r *Run) {
	P := r.P
	r.NotDecided("round-trip equality of amino / JSON encodings over values (library behaviour and value-level equality)")
	r.NotDecided("that decoders never panic on arbitrary bytes inside amino (library)")

	// ------------------------------------------------------------------ R1
	r.Rule("C20-R1", "registries are complete: every concrete repo type implementing sdk.Msg, exported.Account, exported.SupplyI, crypto.PublicKey, crypto.PrivateKey, crypto.MultiSig is RegisterConcrete'd (by value or pointer) under a name that no other type uses; each module codec that carries keys also registers the crypto types", 14)
	type reg struct {
		typ  string
		name string
		site ssa.Instruction
		fn   string
	}
	var regs []reg
	for _, fn := range P.RepoFns {
		fn := fn
		for _, c := range CallsIn(fn, "(*github.com/tendermint/go-amino.Codec).RegisterConcrete") {
			args := c.Common().Args
			if len(args) < 3 {
				continue
			}
			var T types.Type
			if mi, ok := args[1].(*ssa.MakeInterface); ok {
				T = mi.X.Type()
			}
			if T == nil {
				continue
			}
			if p, ok := T.(*types.Pointer); ok {
				T = p.Elem()
			}
			nm := P.TermAt(args[2], c).String()
			regs = append(regs, reg{typeStr(T), nm, c, short(enclosingTop(fn).String())})
		}
	}
	registered := map[string][]reg{}
	byName := map[string][]reg{}
	for _, g := range regs {
		registered[g.typ] = append(registered[g.typ], g)
		byName[g.fn+"|"+g.name] = append(byName[g.fn+"|"+g.name], g)
	}
	r.Stats["C20_RegisterConcrete_sites"] = len(regs)
	ifaces := []struct{ pkg, name string }{
		{"types", "Msg"}, {"x/auth/exported", "Account"}, {"x/auth/exported", "SupplyI"},
		{"crypto", "PublicKey"}, {"crypto", "PrivateKey"}, {"crypto", "MultiSig"},
	}
	for _, ifc := range ifaces {
		obj := P.LookupObj(ifc.pkg, ifc.name)
		if obj == nil {
			r.Undecided("C20-R1", ifc.pkg+"."+ifc.name, "-", "interface not found")
			continue
		}
		iface, _ := obj.Type().Underlying().(*types.Interface)
		if iface == nil {
			continue
		}
		for _, p := range P.Pkgs {
			sc := p.Types.Scope()
			for _, n := range sc.Names() {
				tn, ok := sc.Lookup(n).(*types.TypeName)
				if !ok || tn.IsAlias() {
					continue
				}
				if _, isI := tn.Type().Underlying().(*types.Interface); isI {
					continue
				}
				if !types.Implements(tn.Type(), iface) && !types.Implements(types.NewPointer(tn.Type()), iface) {
					continue
				}
				ts := typeStr(tn.Type())
				if why, ok := map[string]string{
					"types.TestMsg":             "test scaffolding message declared in the types package (never routed)",
					"x/auth/types.StdSignature": "embeds a crypto.PublicKey (implements the interface by embedding); it is a field of StdTx, not a key type stored behind the interface",
					"x/auth/keeper.testMsg":     "test scaffolding",
				}[ts]; ok {
					r.OK("C20-R1", "registered:"+ts+"∈"+ifc.name, P.Pos(tn.Pos()), "exempt: "+why)
					continue
				}
				r.Check(len(registered[ts]) >= 1, "C20-R1", "registered:"+ts+"∈"+ifc.name, P.Pos(tn.Pos()), "RegisterConcrete'd",
					ts+" implements "+ifc.pkg+"."+ifc.name+" but is never RegisterConcrete'd: amino cannot encode it (SetAccount would exit the process on the marshal error)")
			}
		}
	}
	var keys []string
	for k := range byName {
		keys = append(keys, k)
	}
	sort.Strings(keys)
	for _, k := range keys {
		gs := byName[k]
		if len(gs) > 1 {
			r.Viol("C20-R1", "duplicate-amino-name:"+k, P.InstrPos(gs[1].site), fmt.Sprintf("the amino name %s is registered for %d types in %s", gs[0].name, len(gs), gs[0].fn))
		}
	}
	for _, m := range []string{"x/auth/types.init#1", "x/pos/types.init#1", "codec.init#1"} {
		if f := r.fnOpt(m); f != nil {
			ok := len(CallsIn(f, "codec.RegisterCrypto")) >= 1
			r.Check(ok, "C20-R1", m+"/registers-crypto", P.Pos(f.Pos()), "RegisterCrypto", m+" no longer registers the crypto types with its codec")
		}
	}

	// ------------------------------------------------------------------ R2
	r.Rule("C20-R2", "custom JSON pairs cover every field: Validator.MarshalJSON reads and UnmarshalJSON writes all six fields through hexValidator, each from its namesake", 2)
	vfields := []string{"Address", "PublicKey", "Jailed", "Status", "StakedTokens", "UnstakingCompletionTime"}
	if vt := P.NamedType("x/pos/types", "Validator"); vt != nil {
		got := structFieldNames(vt)
		r.Check(strings.Join(got, ",") == strings.Join(vfields, ","), "C20-R2", "Validator/fields", "-", "six vetted fields", "Validator now has fields "+strings.Join(got, ",")+" ; the JSON coverage table must be re-confirmed")
	}
	if f := r.fn(vT + "MarshalJSON"); f != nil {
		if c := r.oneCall("C20-R2", "Validator.MarshalJSON", f, "(*github.com/tendermint/go-amino.Codec).MarshalJSON"); c != nil {
			t := argTerm(P.callTerm(c), 1).String()
			ok := true
			for _, fl := range vfields {
				src := "param:v." + fl
				if fl == "PublicKey" {
					src = "crypto.PublicKey.RawString(param:v.PublicKey)"
				}
				if !strings.Contains(t, fl+"="+src) {
					ok = false
				}
			}
			r.Check(ok, "C20-R2", "Validator.MarshalJSON/all-fields", P.InstrPos(c), t, "MarshalJSON encodes "+t+" ; every field must come from its namesake")
		}
	}
	validatorUnmarshalJSON(r, "C20-R2")

	// ------------------------------------------------------------------ R3
	r.Rule("C20-R3", "ordered and parsable keys: time keys are UTC fixed-width; the power-rank key builder and parser agree; AddressFromKey / GetValidatorSigningInfoAddress strip exactly the one-byte prefix the builders prepend; every key builder appends to a one-byte prefix (len==cap==1 literal); addresses are accepted only at exactly AddrLen bytes", 14)
	if f := r.fn("types.FormatTimeBytes"); f != nil {
		for _, ret := range Returns(f) {
			t := P.TermAt(ret.Results[0], ret).String()
			want := `(time.Time).Format((time.Time).Round((time.Time).UTC(param:t), 0), "2006-01-02T15:04:05.000000000")`
			r.Check(t == want, "C20-R3", "FormatTimeBytes/utc-fixed-width", P.InstrPos(ret), t, "FormatTimeBytes is "+t+" ; required "+want+" (without UTC normalisation equal instants get different, mis-ordered keys)")
		}
	}
	if f := r.fn("types.ParseTimeBytes"); f != nil {
		if c := r.oneCall("C20-R3", "ParseTimeBytes", f, "time.Parse"); c != nil {
			t := P.callTerm(c).String()
			r.Check(strings.HasPrefix(t, `time.Parse("2006-01-02T15:04:05.000000000", `), "C20-R3", "ParseTimeBytes/same-layout", P.InstrPos(c), t, "ParseTimeBytes parses with "+t)
		}
	}
	checkPowerRankKey2(r, "C20-R3")
	for _, w := range []struct{ fn, want string }{
		{"x/pos/types.AddressFromKey", "param:key[1, _, _]"},
		{"x/pos/types.GetValidatorSigningInfoAddress", "param:key[1, _, _]"},
	} {
		if f := r.fn(w.fn); f != nil {
			for _, ret := range Returns(f) {
				t := P.TermAt(ret.Results[0], ret).String()
				r.Check(t == w.want, "C20-R3", w.fn+"/strips-one-byte", P.InstrPos(ret), t, w.fn+" returns "+t+" ; required "+w.want)
			}
		}
	}
	for _, w := range []struct{ fn, prefix string }{
		{"x/pos/types.KeyForValByAllVals", "AllValidatorsKey"}, {"x/pos/types.KeyForValidatorPrevStateStateByPower", "PrevStateValidatorsPowerKey"},
		{"x/pos/types.KeyForValidatorAward", "AwardValidatorKey"}, {"x/pos/types.KeyForValidatorBurn", "BurnValidatorKey"},
		{"x/pos/types.GetValidatorSigningInfoKey", "ValidatorSigningInfoKey"}, {"x/pos/types.GetAddrPubkeyRelationKey", "AddrPubkeyRelationKey"},
		{"x/pos/types.GetValMissedBlockPrefixKey", "ValidatorMissedBlockBitArrayKey"}, {"x/pos/types.KeyForUnstakingValidators", "UnstakingValidatorsKey"},
	} {
		if f := r.fn(w.fn); f != nil {
			for _, ret := range Returns(f) {
				t := P.TermAt(ret.Results[0], ret).String()
				r.Check(strings.HasPrefix(t, "append(global:x/pos/types."+w.prefix+", "), "C20-R3", w.fn+"/prefix", P.InstrPos(ret), t, w.fn+" builds "+t+" ; required append("+w.prefix+", …)")
			}
		}
	}
	checkPosPrefixes(r, "C20-R3")
	if f := r.fn("types.VerifyAddressFormat"); f != nil {
		n := 0
		for _, ret := range P.successReturns(f, 0, "nil") {
			t := P.TermAt(ret.Results[0], ret).String()
			if t != "nil" {
				continue // delegated to a custom verifier
			}
			n++
			ok, _ := HasAtom(P.Guards(ret, 0), `^\(20 == len\(param:bz\)\)$`)
			r.Check(ok, "C20-R3", "VerifyAddressFormat/exact-length", P.InstrPos(ret), "accepted only at exactly 20 bytes", "an address is accepted under "+strings.Join(atomStrings(P.Guards(ret, 0)), " ; ")+" ; required len == AddrLen (a longer address would be truncated inside fixed-width keys)")
		}
		r.Check(n == 1, "C20-R3", "VerifyAddressFormat/one-default-accept", P.Pos(f.Pos()), "one accepting return", fmt.Sprintf("%d accepting returns", n))
	}
	if f := r.fn("types.AddressFromHex"); f != nil {
		for i, ret := range P.successReturns(f, 1, "nil") {
			t := P.TermAt(ret.Results[0], ret).String()
			if strings.Contains(t, "hex.DecodeString") {
				ok, _ := HasAtom(P.Guards(ret, 0), `^isnil\(types\.VerifyAddressFormat\(encoding/hex\.DecodeString\(param:address\)#0\)\)$`)
				r.Check(ok, "C20-R3", fmt.Sprintf("AddressFromHex/verified#%d", i), P.InstrPos(ret), "decoded bytes pass VerifyAddressFormat", "AddressFromHex returns decoded bytes without VerifyAddressFormat")
			}
		}
	}

	// ------------------------------------------------------------------ R4
	r.Rule("C20-R4", "malformed transactions are refused, not fatal: DefaultTxDecoder rejects empty input, decodes with the non-panicking UnmarshalBinaryLengthPrefixed and turns a decode error into an ErrTxDecode result; CheckTx/DeliverTx reach only that decoder with the request bytes", 3)
	if f := r.fn("x/auth/types.DefaultTxDecoder$1"); f != nil {
		if c := r.oneCall("C20-R4", "DefaultTxDecoder", f, "(*github.com/tendermint/go-amino.Codec).UnmarshalBinaryLengthPrefixed"); c != nil {
			t := P.callTerm(c).String()
			r.Check(strings.Contains(t, "free:cdc, param:txBytes, "), "C20-R4", "DefaultTxDecoder/decodes-request-bytes", P.InstrPos(c), t, "decodes "+t)
			r.requireAtoms("C20-R4", "DefaultTxDecoder/decode", c, P.Guards(c, 0), []req{{"non-empty", `^!\(0 == len\(param:txBytes\)\)$`}})
		}
		for i, ret := range P.successReturns(f, 1, "nil") {
			ok, _ := HasAtom(P.Guards(ret, 0), `^isnil\(\(\*github\.com/tendermint/go-amino\.Codec\)\.UnmarshalBinaryLengthPrefixed\(`)
			r.Check(ok, "C20-R4", fmt.Sprintf("DefaultTxDecoder/success-only-if-decoded#%d", i), P.InstrPos(ret), "success only after a successful decode", "the decoder can return success without a successful decode")
		}
		for _, c := range CallsIn(f, "MustUnmarshal") {
			r.Viol("C20-R4", "DefaultTxDecoder/no-Must-decoder", P.InstrPos(c), "the tx decoder uses a panicking Must* decoder on request bytes")
		}
		Instrs(f, func(in ssa.Instruction) {
			if ci, ok := in.(ssa.CallInstruction); ok {
				if _, nm := calleeName(ci.Common()); strings.Contains(nm, ".MustUnmarshal") {
					r.Viol("C20-R4", "DefaultTxDecoder/no-Must-decoder", P.InstrPos(in), "the tx decoder uses the panicking "+nm+" on request bytes")
				}
			}
		})
	}

	// ------------------------------------------------------------------ R5
	r.Rule("C20-R5", "canonical sign bytes: every message's GetSignBytes is MustSortJSON(ModuleCdc.MustMarshalJSON(msg)) of the whole message; StdSignBytes sorts the amino-JSON of the sign doc (amino JSON encodes 64-bit integers as strings, so entropy survives the float64 round trip inside MustSortJSON)", 8)
	for _, m := range []string{"x/pos/types.MsgStake", "x/pos/types.MsgBeginUnstake", "x/pos/types.MsgUnjail", "x/pos/types.MsgSend", "x/gov/types.MsgChangeParam", "x/gov/types.MsgDAOTransfer", "x/gov/types.MsgUpgrade"} {
		f := r.fn("(" + m + ").GetSignBytes")
		if f == nil {
			continue
		}
		mod := m[:strings.LastIndex(m, ".")]
		for _, ret := range Returns(f) {
			t := P.TermAt(ret.Results[0], ret).String()
			want := "types.MustSortJSON((*github.com/tendermint/go-amino.Codec).MarshalJSON(global:" + mod + ".ModuleCdc, param:msg)#0)"
			r.Check(t == want, "C20-R5", m+".GetSignBytes", P.InstrPos(ret), t, m+".GetSignBytes is "+t+" ; required "+want)
		}
	}
	if ssb := r.fn("x/auth/types.StdSignBytes"); ssb != nil {
		for i, ret := range P.successReturns(ssb, 1, "nil") {
			t := P.TermAt(ret.Results[0], ret).String()
			ok := strings.HasPrefix(t, "types.MustSortJSON((*github.com/tendermint/go-amino.Codec).MarshalJSON(global:x/auth/types.ModuleCdc, complit:x/auth/types.StdSignDoc{")
			r.Check(ok, "C20-R5", fmt.Sprintf("StdSignBytes/amino-json-then-sorted#%d", i), P.InstrPos(ret), t, "sign bytes are "+t+" ; required MustSortJSON(ModuleCdc.MarshalJSON(StdSignDoc{…}))")
		}
	}
	if f := r.fn("types.SortJSON"); f != nil {
		u := CallsIn(f, "encoding/json.Unmarshal")
		m := CallsIn(f, "encoding/json.Marshal")
		r.Check(len(u) == 1 && len(m) == 1, "C20-R5", "SortJSON/shape", P.Pos(f.Pos()), "decode into interface{} and re-encode (keys sorted by encoding/json)", "SortJSON no longer round-trips through encoding/json")
	}
}

// checkPowerRankKey2 re-uses the C05-R3 key-layout checks under another rule id.
func checkPowerRankKey2(r *Run, rule string) {
	P := r.P
	if f := r.fn("x/pos/types.getStakedValPowerRankKey"); f != nil {
		if c := r.oneCall(rule, "rankKey", f, "(encoding/binary.bigEndian).PutUint64"); c != nil {
			t := P.callTerm(c)
			r.Check(argTerm(t, 2).String() == "types.TokensToConsensusPower(param:validator.StakedTokens)", rule, "rankKey/big-endian-power", P.InstrPos(c), t.String(), "power bytes are "+t.String())
		}
		inv := false
		Instrs(f, func(in ssa.Instruction) {
			if st, ok := in.(*ssa.Store); ok {
				a, v := P.TermAt(st.Addr, st).String(), P.TermAt(st.Val, st).String()
				if strings.HasPrefix(v, "^types.CopyBytes(param:validator.Address)[") && a[1:] == v[1:] {
					inv = true
				}
			}
		})
		r.Check(inv, rule, "rankKey/address-inverted", P.Pos(f.Pos()), "address bytes inverted", "builder does not invert the address bytes")
	}
	if g := r.fn("x/pos/types.ParseValidatorPowerRankKey"); g != nil {
		ok := false
		Instrs(g, func(in ssa.Instruction) {
			if st, ok2 := in.(*ssa.Store); ok2 {
				a, v := P.TermAt(st.Addr, st).String(), P.TermAt(st.Val, st).String()
				if strings.HasPrefix(v, "^types.CopyBytes(param:key[9, _, _])[") && a[1:] == v[1:] {
					ok = true
				}
			}
		})
		r.Check(ok, rule, "parseRankKey/inverts-same-bytes", P.Pos(g.Pos()), "parser inverts key[9:]", "parser does not invert key[9:] (builder and parser disagree)")
		for _, ret := range Returns(g) {
			gs := P.Guards(ret, 0)
			ok2, _ := HasAtom(gs, `^\(len\(param:key\) == \(\(1 \+ 8\) \+ 20\)\)$|^\(\(\(1 \+ 8\) \+ 20\) == len\(param:key\)\)$|^\(29 == len\(param:key\)\)$`)
			r.Check(ok2, rule, "parseRankKey/length-checked", P.InstrPos(ret), "key length checked", "parser accepts keys under "+strings.Join(atomStrings(gs), " ; "))
		}
	}
}

// validatorUnmarshalJSON: the JSON decoder of Validator (genesis import) restores every field from its namesake
// (C20-R2, C06-R10, C09-R7).
func validatorUnmarshalJSON(r *Run, rule string) {
	P := r.P
	vfields := []string{"Address", "PublicKey", "Jailed", "Status", "StakedTokens", "UnstakingCompletionTime"}
	if f := r.fn("(*x/pos/types.Validator).UnmarshalJSON"); f != nil {
		got := map[string]string{}
		Instrs(f, func(in ssa.Instruction) {
			if s, ok2 := in.(*ssa.Store); ok2 {
				a := P.TermAt(s.Addr, s).String()
				if strings.HasPrefix(a, "&param:v.") {
					got[strings.TrimPrefix(a, "&param:v.")] = P.TermAt(s.Val, s).String()
				}
			}
		})
		for _, fl := range vfields {
			v := got[fl]
			ok := strings.HasSuffix(v, "x/pos/types.hexValidator{})."+fl)
			if fl == "PublicKey" {
				ok = strings.HasPrefix(v, "crypto.NewPublicKey(") && strings.HasSuffix(v, "x/pos/types.hexValidator{}).PublicKey)#0")
			}
			r.Check(ok, rule, "Validator.UnmarshalJSON/field:"+fl, P.Pos(f.Pos()), v, "UnmarshalJSON restores "+fl+" from "+v+" ; required the decoded hexValidator's "+fl)
		}
	}
}
