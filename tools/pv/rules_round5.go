package main

import (
	"strings"

	"golang.org/x/tools/go/ssa"
)

// Rules added after the third round of seeded changes.

// finishUnstakingBounds: the maturity preconditions use strict comparisons (C06-R11).
func unstakingBounds(r *Run, rule string) {
	P := r.P
	r.Rule(rule, "a validator holding exactly the minimum stake can begin and finish unstaking: ValidateValidatorFinishUnstaking rejects only under !IsUnstaking or StakedTokens.LT(NewInt(MinimumStake)) — the strict comparison", 2)
	f := r.fn(posK + "ValidateValidatorFinishUnstaking")
	if f == nil {
		return
	}
	lt := `^\(types\.Int\)\.LT\(param:validator\.StakedTokens, types\.NewInt\(` + q(posK+"MinimumStake(param:k, param:ctx)") + `\)\)$`
	for i, a := range P.RetAlternatives(f, 0) {
		t := a.T.String()
		if t == "nil" {
			continue
		}
		// a failure return: caused by one of the two vetted tests
		s1, _ := HasAtom(a.G, `^!\(x/pos/types\.Validator\)\.IsUnstaking\(param:validator\)$`)
		s2, _ := HasAtom(a.G, lt)
		r.Check(s1 || s2, rule, "ValidateValidatorFinishUnstaking/failure#"+itoa(i)+"/vetted-cause", P.InstrPos(a.Ret), "status or strictly-below-minimum", "ValidateValidatorFinishUnstaking fails under {"+strings.Join(atomStrings(a.G), " ; ")+"} ; the vetted causes are !IsUnstaking and StakedTokens < MinimumStake (strict): a validator at exactly the minimum would never be released")
	}
	for i, ret := range P.successReturns(f, 0, "nil") {
		gs := P.Guards(ret, 0)
		o1, _ := HasAtom(gs, `^\(x/pos/types\.Validator\)\.IsUnstaking\(param:validator\)$`)
		o2, _ := HasAtom(gs, `^!`+lt[1:])
		r.Check(o1 && o2, rule, "ValidateValidatorFinishUnstaking/success#"+itoa(i), P.InstrPos(ret), "unstaking and not below minimum", "success under {"+strings.Join(atomStrings(gs), " ; ")+"}")
	}
}

func itoa(i int) string {
	if i == 0 {
		return "0"
	}
	s := ""
	for i > 0 {
		s = string(rune('0'+i%10)) + s
		i /= 10
	}
	return s
}

// evidenceArgs: BeginBlocker hands each piece of evidence to handleDoubleSign unchanged (C07-R11).
func evidenceArgs(r *Run, rule string) {
	P := r.P
	r.Rule(rule, "evidence is judged on its own data: BeginBlocker passes the evidence's validator address, height, time and power (not the block's) to handleDoubleSign; each vote's validator address, power and signed flag to handleValidatorSignature", 2)
	f := r.fn("x/pos/keeper.BeginBlocker")
	if f == nil {
		return
	}
	if c := r.oneCall(rule, "BeginBlocker", f, posK+"handleDoubleSign"); c != nil {
		t := P.callTerm(c)
		want := []string{"Validator.Address", "Height", "Time", "Validator.Power"}
		ok := true
		for i, w := range want {
			a := argTerm(t, 2+i).String()
			if !(strings.HasPrefix(a, "param:req.ByzantineValidators[") && strings.HasSuffix(a, "]."+w)) {
				ok = false
			}
		}
		r.Check(ok, rule, "BeginBlocker/handleDoubleSign-args", P.InstrPos(c), "evidence.{Validator.Address, Height, Time, Validator.Power}", "handleDoubleSign receives "+oneLine(t.String())+" ; required the four fields of the iterated evidence (the evidence age test compares the evidence time with the block time)")
	}
	if c := r.oneCall(rule, "BeginBlocker", f, posK+"handleValidatorSignature"); c != nil {
		t := P.callTerm(c)
		a2, a3, a4 := argTerm(t, 2).String(), argTerm(t, 3).String(), argTerm(t, 4).String()
		ok := strings.Contains(a2, "RequestBeginBlock.LastCommitInfo") && strings.HasSuffix(a2, "].Validator.Address") &&
			strings.HasSuffix(a3, "].Validator.Power") && strings.HasSuffix(a4, "].SignedLastBlock")
		r.Check(ok, rule, "BeginBlocker/handleValidatorSignature-args", P.InstrPos(c), "vote.{Validator.Address, Validator.Power, SignedLastBlock}", "handleValidatorSignature receives "+oneLine(t.String()))
	}
}

// authExportShape: the auth genesis export leaves the supply to be recomputed on import (C02-R11).
func authExportShape(r *Run, rule string) {
	P := r.P
	r.Rule(rule, "export and import of the supply compose: auth.ExportGenesis returns NewGenesisState(params, exported accounts) with no supply of its own (the exported account list omits module accounts, so a carried-over total would not match the imported balances); InitGenesis recomputes the supply from the accounts when none is given and stores it with SetSupply", 2)
	if f := r.fn("x/auth.ExportGenesis"); f != nil {
		for _, ret := range Returns(f) {
			t := P.TermAt(ret.Results[0], ret).String()
			want := "x/auth/types.NewGenesisState((x/auth/keeper.Keeper).GetParams(param:ak, param:ctx), (x/auth/keeper.Keeper).GetAllAccountsExport(param:ak, param:ctx))"
			r.Check(t == want, rule, "ExportGenesis/shape", P.InstrPos(ret), t, "ExportGenesis returns "+oneLine(t)+" ; required "+want)
		}
	}
	if f := r.fn("x/auth.InitGenesis"); f != nil {
		if c := r.oneCall(rule, "InitGenesis", f, "(x/auth/keeper.Keeper).SetSupply"); c != nil {
			t := argTerm(P.callTerm(c), 2).String()
			r.Check(strings.HasPrefix(t, "x/auth/types.NewSupply("), rule, "InitGenesis/stores-supply", P.InstrPos(c), oneLine(t), "SetSupply receives "+oneLine(t))
			reach, _, path := ReachWithout(f, nil, isReturn, func(in ssa.Instruction) bool { return in == ssa.Instruction(c) }, nil)
			r.Check(!reach, rule, "InitGenesis/stores-supply-always", P.InstrPos(c), "on every path", "a path returns from InitGenesis without SetSupply: "+P.blockPathString(path))
		}
	}
}

func init() {
	for _, p := range []string{"C05", "C07", "C08", "C09", "C10"} {
		pkgScope[p] = append(pkgScope[p], "x/pos/keeper", "x/pos")
	}
	extend("C02", func(r *Run) {
		forceUnstakeRules(r, "C02-R10")
		authExportShape(r, "C02-R11")
	})
	extend("C05", func(r *Run) { stakeGuards(r, "C05-R7") })
	extend("C06", func(r *Run) {
		validatorUnmarshalJSON(r, "C06-R10")
		unstakingBounds(r, "C06-R11")
	})
	extend("C07", func(r *Run) {
		forceUnstakeRules(r, "C07-R9")
		removeTokensPersists(r, "C07-R10")
		evidenceArgs(r, "C07-R11")
	})
	extend("C09", func(r *Run) { validatorUnmarshalJSON(r, "C09-R7") })
	extend("C10", func(r *Run) { accountSettersStore(r, "C10-R7") })
}
