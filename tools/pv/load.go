package main

import (
	"fmt"
	"go/ast"
	"go/token"
	"go/types"
	"os"
	"regexp"
	"sort"
	"strings"

	"golang.org/x/tools/go/packages"
	"golang.org/x/tools/go/ssa"
	"golang.org/x/tools/go/ssa/ssautil"
)

// ModPath is the import-path prefix of every package that belongs to the
// repository under analysis. Everything else is "library" and is trusted.
const ModPath = "github.com/pokt-network/posmint"

// MinPackages is the number of repo packages confirmed by hand on the pinned
// tree; loading fewer means the build was not covered and is UNDECIDED.
const MinPackages = 35

// Prog is the loaded, type-checked, SSA-built program plus indexes.
type Prog struct {
	RepoDir     string
	Fset        *token.FileSet
	Pkgs        []*packages.Package // repo packages only (sorted by path)
	AllPkgs     map[string]*packages.Package
	SSA         *ssa.Program
	RepoFns     []*ssa.Function // every function (incl. anonymous) whose source is in the repo
	TestHelpers []*ssa.Function // functions of non-_test files that import "testing" (test scaffolding, not application code)
	testFiles   map[string]bool
	fnByName    map[string]*ssa.Function // short qualified name -> function
	fileOf      map[*ast.File]*packages.Package
	cg          *CallGraph
	domCache    map[*ssa.Function]*domInfo
	helperSites map[*ssa.Function][]*ssa.Call
	memW        map[*ssa.Function]bool
	renames     []renameEntry     // functions renamed since the pinned tree: current short name -> pinned short name
	Renamed     map[string]string // the same, for the evidence
}

type renameEntry struct {
	re  *regexp.Regexp
	old string
}

// short strips the module prefix from a qualified name.
func short(s string) string {
	s = short0(s)
	if theProg != nil {
		for _, e := range theProg.renames {
			s = e.re.ReplaceAllLiteralString(s, e.old)
		}
	}
	return s
}

func short0(s string) string {
	s = strings.ReplaceAll(s, ModPath+"/", "")
	s = strings.ReplaceAll(s, ModPath, "posmint")
	return s
}

// detectRenames: a pinned top-level function that no longer exists, and exactly one function unknown to the pinned
// tree in the same package / on the same receiver with the same number of parameters (the same parameter names if
// several have that number): the function was renamed. It keeps its pinned name in every term, table key and anchor,
// so a rename is transparent to the rules (a rename together with a change is judged as the change).
func (P *Prog) detectRenames() {
	loadPinned()
	if len(pinnedParams) == 0 {
		return
	}
	prefixOf := func(n string) string { return n[:strings.LastIndex(n, ".")+1] }
	cur := map[string]*ssa.Function{}
	for _, f := range P.RepoFns {
		if f.Parent() == nil && f.Synthetic == "" {
			cur[short0(f.String())] = f
		}
	}
	var vanished, fresh []string
	for n := range pinnedParams {
		if strings.Contains(n, "$") || strings.HasPrefix(n, "free|") || !strings.Contains(n, ".") {
			continue
		}
		if _, ok := cur[n]; !ok {
			vanished = append(vanished, n)
		}
	}
	for n := range cur {
		if _, ok := pinnedParams[n]; !ok && strings.Contains(n, ".") {
			fresh = append(fresh, n)
		}
	}
	sort.Strings(vanished)
	sort.Strings(fresh)
	names := func(f *ssa.Function) []string {
		var ns []string
		for _, p := range f.Params {
			ns = append(ns, p.Name())
		}
		return ns
	}
	// candidates: unknown functions of the same PACKAGE with the same number of parameters (a function turned into a
	// method of its first parameter's type, or back, keeps both); the best one by name and by the functions it calls
	pkgOf := func(n string) string {
		n = strings.TrimPrefix(strings.TrimPrefix(n, "("), "*")
		if i := strings.Index(n, ")"); i >= 0 {
			n = n[:i]
		}
		if i := strings.LastIndex(n, "."); i >= 0 {
			return n[:i]
		}
		return n
	}
	baseOf := func(n string) string { return n[strings.LastIndex(n, ".")+1:] }
	loadPinnedCallEdges()
	curCallees := map[string]map[string]bool{}
	for f, gs := range P.staticCallees() {
		m := map[string]bool{}
		for g := range gs {
			m[short0(g.String())] = true
		}
		curCallees[short0(f.String())] = m
	}
	similarity := func(v, n string) float64 {
		a, b := pinnedCallEdges[v], curCallees[n]
		if len(a) == 0 && len(b) == 0 {
			return 0.5
		}
		inter := 0
		for x := range a {
			if b[x] {
				inter++
			}
		}
		union := len(a) + len(b) - inter
		if union == 0 {
			return 0
		}
		return float64(inter) / float64(union)
	}
	match := map[string][]string{} // fresh -> vanished that chose it
	choice := map[string]string{}
	for _, v := range vanished {
		best, bestScore, tie := "", -1.0, false
		for _, n := range fresh {
			if pkgOf(n) != pkgOf(v) || len(cur[n].Params) != len(pinnedParams[v]) {
				continue
			}
			score := similarity(v, n)
			if baseOf(n) == baseOf(v) {
				score += 2
			}
			if prefixOf(n) == prefixOf(v) {
				score += 0.25
			}
			if strings.Join(names(cur[n]), ",") == strings.Join(pinnedParams[v], ",") {
				score += 0.25
			}
			if score > bestScore+1e-9 {
				best, bestScore, tie = n, score, false
			} else if score > bestScore-1e-9 {
				tie = true
			}
		}
		if best != "" && !tie && bestScore >= 0.5 {
			choice[v] = best
			match[best] = append(match[best], v)
		}
	}
	P.Renamed = map[string]string{}
	for v, n := range choice {
		if len(match[n]) != 1 {
			continue
		}
		P.renames = append(P.renames, renameEntry{regexp.MustCompile(regexp.QuoteMeta(n) + `\b`), v})
		P.Renamed[n] = v
	}
	sort.Slice(P.renames, func(i, j int) bool { return P.renames[i].old < P.renames[j].old })
}

func isRepoPkgPath(p string) bool {
	return p == ModPath || strings.HasPrefix(p, ModPath+"/")
}

func isRepoPkg(p *types.Package) bool {
	return p != nil && isRepoPkgPath(p.Path())
}

// Load loads /repo's current working tree. extraEnv and buildFlags allow the
// thorough tier to cover other build configurations.
func Load(dir string, extraEnv []string, buildFlags []string) (*Prog, error) {
	env := []string{}
	for _, e := range os.Environ() {
		if strings.HasPrefix(e, "GOWORK=") || strings.HasPrefix(e, "GOFLAGS=") ||
			strings.HasPrefix(e, "GOPROXY=") || strings.HasPrefix(e, "GOSUMDB=") ||
			strings.HasPrefix(e, "GOTOOLCHAIN=") {
			continue
		}
		env = append(env, e)
	}
	env = append(env, "GOWORK=off", "GOFLAGS=-mod=mod", "GOPROXY=off", "GOSUMDB=off", "GOTOOLCHAIN=local")
	env = append(env, extraEnv...)
	cfg := &packages.Config{
		Mode:       packages.LoadAllSyntax,
		Dir:        dir,
		Tests:      false,
		Env:        env,
		BuildFlags: buildFlags,
	}
	pkgs, err := packages.Load(cfg, "./...")
	if err != nil {
		return nil, fmt.Errorf("packages.Load: %v", err)
	}
	var errs []string
	all := map[string]*packages.Package{}
	packages.Visit(pkgs, nil, func(p *packages.Package) {
		all[p.PkgPath] = p
		if isRepoPkgPath(p.PkgPath) {
			for _, e := range p.Errors {
				errs = append(errs, e.Error())
			}
		}
	})
	if len(errs) > 0 {
		return nil, fmt.Errorf("type/load errors in repo packages: %s", strings.Join(errs, "; "))
	}
	var repo []*packages.Package
	for _, p := range pkgs {
		if isRepoPkgPath(p.PkgPath) {
			repo = append(repo, p)
		}
	}
	sort.Slice(repo, func(i, j int) bool { return repo[i].PkgPath < repo[j].PkgPath })
	if len(repo) < MinPackages {
		return nil, fmt.Errorf("only %d repo packages loaded, expected >= %d", len(repo), MinPackages)
	}
	prog, _ := ssautil.AllPackages(pkgs, ssa.InstantiateGenerics)
	prog.Build()
	P := &Prog{RepoDir: dir, Pkgs: repo, AllPkgs: all, SSA: prog, fnByName: map[string]*ssa.Function{},
		fileOf: map[*ast.File]*packages.Package{}, domCache: map[*ssa.Function]*domInfo{}}
	theProg = P
	helperCtx = map[*ssa.Function]*ssa.Call{}
	if len(repo) > 0 {
		P.Fset = repo[0].Fset
	}
	for _, p := range repo {
		for _, f := range p.Syntax {
			P.fileOf[f] = p
		}
	}
	for fn := range ssautil.AllFunctions(prog) {
		if fn.Pkg == nil && fn.Parent() == nil && fn.Synthetic == "" {
			// methods of instantiated/generic types etc. — fall through to the package test below
		}
		pkg := fn.Package()
		if pkg == nil || pkg.Pkg == nil || !isRepoPkg(pkg.Pkg) {
			continue
		}
		if fn.Synthetic != "" && fn.Parent() == nil {
			// wrappers/thunks/init: keep package init (has source statements), skip pure wrappers
			if !strings.HasPrefix(fn.Synthetic, "package initializer") {
				continue
			}
		}
		if P.inTestSupportFile(fn) {
			P.TestHelpers = append(P.TestHelpers, fn)
			continue
		}
		P.RepoFns = append(P.RepoFns, fn)
	}
	sort.Slice(P.RepoFns, func(i, j int) bool { return P.RepoFns[i].String() < P.RepoFns[j].String() })
	P.detectRenames()
	for _, fn := range P.RepoFns {
		P.fnByName[short(fn.String())] = fn
	}
	P.buildFuncAliases()
	return P, nil
}

// inTestSupportFile: the function is test scaffolding compiled into a non-test package: it is declared in a
// file whose name contains "test" (x/*/keeper/test_common.go) or it (or its enclosing function) takes a
// *testing.T / testing.TB parameter (types.IntEq, types.DecEq).
func (P *Prog) inTestSupportFile(fn *ssa.Function) bool {
	top := fn
	for top.Parent() != nil {
		top = top.Parent()
	}
	if top.Signature != nil {
		ps := top.Signature.Params()
		for i := 0; i < ps.Len(); i++ {
			ts := ps.At(i).Type().String()
			if ts == "*testing.T" || ts == "testing.TB" || ts == "*testing.B" {
				return true
			}
		}
	}
	if top.Pos().IsValid() {
		name := P.Fset.Position(top.Pos()).Filename
		base := name[strings.LastIndex(name, "/")+1:]
		if strings.Contains(base, "test") {
			return true
		}
	}
	return false
}

// Fn resolves a function by its short qualified name, e.g.
// "x/auth.ValidateTransaction", "(x/pos/keeper.Keeper).slash",
// "(*baseapp.BaseApp).runTx", "x/pos.NewHandler$1".
func (P *Prog) Fn(name string) *ssa.Function {
	return P.fnByName[name]
}

// Pkg returns the types.Package for a repo-relative path such as "x/pos/keeper".
func (P *Prog) Pkg(rel string) *packages.Package {
	if rel == "" || rel == "." {
		return P.AllPkgs[ModPath]
	}
	return P.AllPkgs[ModPath+"/"+rel]
}

// Pos renders a position relative to the repo directory.
func (P *Prog) Pos(pos token.Pos) string {
	if !pos.IsValid() {
		return "-"
	}
	p := P.Fset.Position(pos)
	f := strings.TrimPrefix(p.Filename, P.RepoDir+"/")
	return fmt.Sprintf("%s:%d", f, p.Line)
}

// InstrPos finds the best source position for an instruction.
func (P *Prog) InstrPos(in ssa.Instruction) string {
	if in == nil {
		return "-"
	}
	if in.Pos().IsValid() {
		return P.Pos(in.Pos())
	}
	// fall back to any operand position, then the function
	for _, op := range in.Operands(nil) {
		if *op != nil && (*op).Pos().IsValid() {
			return P.Pos((*op).Pos())
		}
	}
	if in.Parent() != nil {
		return P.Pos(in.Parent().Pos())
	}
	return "-"
}

// LookupObj finds a package-level object ("x/pos/types", "StakedPoolName").
func (P *Prog) LookupObj(rel, name string) types.Object {
	p := P.Pkg(rel)
	if p == nil || p.Types == nil {
		return nil
	}
	return p.Types.Scope().Lookup(name)
}

// NamedType finds a named type of a repo package.
func (P *Prog) NamedType(rel, name string) *types.Named {
	o := P.LookupObj(rel, name)
	if o == nil {
		return nil
	}
	n, _ := o.Type().(*types.Named)
	return n
}

// Method finds the SSA function of a method of a repo named type (value or pointer receiver).
func (P *Prog) Method(rel, typ, meth string) *ssa.Function {
	n := P.NamedType(rel, typ)
	if n == nil {
		return nil
	}
	for _, T := range []types.Type{n, types.NewPointer(n)} {
		ms := P.SSA.MethodSets.MethodSet(T)
		for i := 0; i < ms.Len(); i++ {
			sel := ms.At(i)
			if sel.Obj().Name() == meth {
				fn := P.SSA.MethodValue(sel)
				if fn != nil && fn.Synthetic == "" {
					return fn
				}
				// wrapper: unwrap to the declared method
				if f, ok := sel.Obj().(*types.Func); ok {
					if d := P.SSA.FuncValue(f); d != nil {
						return d
					}
				}
			}
		}
	}
	return nil
}

// AnonIn returns the anonymous functions declared (transitively) in fn.
func AnonIn(fn *ssa.Function) []*ssa.Function {
	var out []*ssa.Function
	var walk func(f *ssa.Function)
	walk = func(f *ssa.Function) {
		for _, a := range f.AnonFuncs {
			out = append(out, a)
			walk(a)
		}
	}
	walk(fn)
	return out
}

// Instrs iterates over all instructions of fn.
// InstrsRaw visits the instructions of fn itself.
func InstrsRaw(fn *ssa.Function, f func(in ssa.Instruction)) {
	for _, b := range fn.Blocks {
		for _, in := range b.Instrs {
			f(in)
		}
	}
}

// Instrs visits the instructions of fn and — virtual inlining — of every helper introduced by a refactoring
// (a repo function absent from the pinned tree) that fn calls statically, in place, recording the call site as the
// helper's current context (see helperctx.go). On the pinned tree it is identical to InstrsRaw.
func Instrs(fn *ssa.Function, f func(in ssa.Instruction)) {
	instrsFlat(fn, f, 0, map[*ssa.Function]bool{fn: true})
}

func instrsFlat(fn *ssa.Function, f func(in ssa.Instruction), depth int, on map[*ssa.Function]bool) {
	for _, b := range fn.Blocks {
		for _, in := range b.Instrs {
			f(in)
			if c, ok := in.(*ssa.Call); ok && depth < 3 {
				if h := staticCallee(&c.Call); h != nil && !on[h] && isNewHelperFn(h) {
					setHelperCtx(h, c)
					on[h] = true
					instrsFlat(h, f, depth+1, on)
					delete(on, h)
				}
			}
		}
	}
}
