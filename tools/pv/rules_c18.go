package main

import (
	"fmt"
	"go/token"
	"go/types"
	"regexp"
	"sort"
	"strings"

	"golang.org/x/tools/go/ssa"
)

func init() { register("C18", checkC18) }

// big.Int methods that do not modify their receiver
var bigReadOnly = map[string]bool{
	"Sign": true, "Cmp": true, "CmpAbs": true, "BitLen": true, "Bits": true, "Int64": true, "Uint64": true,
	"IsInt64": true, "IsUint64": true, "String": true, "Text": true, "Format": true, "MarshalText": true,
	"MarshalJSON": true, "Bytes": true, "Bit": true, "TrailingZeroBits": true, "ProbablyPrime": true,
	"Append": true, "GobEncode": true, "FillBytes": true,
}

func isBigIntPtr(t types.Type) bool {
	p, ok := t.(*types.Pointer)
	if !ok {
		return false
	}
	n, ok := p.Elem().(*types.Named)
	return ok && n.Obj().Pkg() != nil && n.Obj().Pkg().Path() == "math/big" && n.Obj().Name() == "Int"
}

// bigOwn implements engine E9 for *big.Int values.
type bigOwn struct {
	P            *Prog
	returnsFresh map[*ssa.Function]bool
	mutatesArg   map[*ssa.Function]map[int]bool
}

func newBigOwn(P *Prog) *bigOwn {
	o := &bigOwn{P: P, returnsFresh: map[*ssa.Function]bool{}, mutatesArg: map[*ssa.Function]map[int]bool{}}
	// mutatesArg: fixpoint
	for changed := true; changed; {
		changed = false
		for _, fn := range P.RepoFns {
			for i, p := range fn.Params {
				if !isBigIntPtr(p.Type()) || o.mutatesArg[fn][i] {
					continue
				}
				if o.paramMutated(fn, p) {
					if o.mutatesArg[fn] == nil {
						o.mutatesArg[fn] = map[int]bool{}
					}
					o.mutatesArg[fn][i] = true
					changed = true
				}
			}
		}
	}
	// returnsFresh: greatest fixpoint (assume fresh, refute)
	for _, fn := range P.RepoFns {
		res := fn.Signature.Results()
		if res.Len() >= 1 && isBigIntPtr(res.At(0).Type()) {
			o.returnsFresh[fn] = true
		}
	}
	for changed := true; changed; {
		changed = false
		for fn, ok := range o.returnsFresh {
			if !ok {
				continue
			}
			for _, ret := range Returns(fn) {
				if !o.fresh(ret.Results[0], map[ssa.Value]bool{}) {
					o.returnsFresh[fn] = false
					changed = true
					break
				}
			}
		}
	}
	return o
}

func (o *bigOwn) paramMutated(fn *ssa.Function, p *ssa.Parameter) bool {
	mut := false
	Instrs(fn, func(in ssa.Instruction) {
		ci, ok := in.(ssa.CallInstruction)
		if !ok {
			return
		}
		c := ci.Common()
		callee := staticCallee(c)
		if callee == nil {
			return
		}
		if isBigMutator(callee) && len(c.Args) > 0 && c.Args[0] == ssa.Value(p) {
			mut = true
		}
		if m := o.mutatesArg[callee]; m != nil {
			for i := range m {
				if i < len(c.Args) && c.Args[i] == ssa.Value(p) {
					mut = true
				}
			}
		}
	})
	return mut
}

func isBigMutator(f *ssa.Function) bool {
	if f.Signature.Recv() == nil || !isBigIntPtr(f.Signature.Recv().Type()) {
		return false
	}
	return !bigReadOnly[f.Name()]
}

// fresh: v is a *big.Int allocated in this function (or returned fresh by a callee).
func (o *bigOwn) fresh(v ssa.Value, seen map[ssa.Value]bool) bool {
	if seen[v] {
		return true
	}
	seen[v] = true
	switch x := v.(type) {
	case *ssa.Alloc:
		return true // new(big.Int)
	case *ssa.Call:
		callee := staticCallee(&x.Call)
		if callee == nil {
			return false
		}
		if callee.Pkg != nil && callee.Pkg.Pkg.Path() == "math/big" && callee.Name() == "NewInt" {
			return true
		}
		if isBigMutator(callee) || (callee.Signature.Recv() != nil && isBigIntPtr(callee.Signature.Recv().Type()) && callee.Name() == "Set") {
			// methods return their receiver
			return len(x.Call.Args) > 0 && o.fresh(x.Call.Args[0], seen)
		}
		return o.returnsFresh[callee]
	case *ssa.Phi:
		for _, e := range x.Edges {
			if !o.fresh(e, seen) {
				return false
			}
		}
		return true
	case *ssa.Extract:
		// (z, ok) := new(big.Int).SetString(...)
		if c, ok := x.Tuple.(*ssa.Call); ok && x.Index == 0 {
			callee := staticCallee(&c.Call)
			if callee != nil && isBigMutator(callee) {
				return len(c.Call.Args) > 0 && o.fresh(c.Call.Args[0], seen)
			}
			if callee != nil {
				return o.returnsFresh[callee]
			}
		}
		return false
	case *ssa.UnOp:
		if x.Op == token.MUL {
			// load of a local variable holding a fresh pointer: all stores to it must be fresh
			if al, ok := x.X.(*ssa.Alloc); ok {
				okAll := false
				for _, ref := range *al.Referrers() {
					if st, ok := ref.(*ssa.Store); ok && st.Addr == ssa.Value(al) {
						if !o.fresh(st.Val, seen) {
							return false
						}
						okAll = true
					}
				}
				return okAll
			}
		}
		return false
	}
	return false
}

// derivedFromOwnParam: v is a mutatesArg parameter of fn, fresh, or the result of big.Int methods / helper calls applied to such values.
func (o *bigOwn) derivedFromOwnParam(v ssa.Value, fn *ssa.Function, seen map[ssa.Value]bool) bool {
	if seen[v] {
		return true
	}
	seen[v] = true
	if o.fresh(v, map[ssa.Value]bool{}) {
		return true
	}
	switch x := v.(type) {
	case *ssa.Parameter:
		for i, q := range fn.Params {
			if q == x && o.mutatesArg[fn][i] {
				return true
			}
		}
		return false
	case *ssa.Call:
		callee := staticCallee(&x.Call)
		if callee == nil || len(x.Call.Args) == 0 {
			return false
		}
		if isBigMutator(callee) {
			return o.derivedFromOwnParam(x.Call.Args[0], fn, seen)
		}
		if m := o.mutatesArg[callee]; m != nil {
			for i := range m {
				if i < len(x.Call.Args) && !o.derivedFromOwnParam(x.Call.Args[i], fn, seen) {
					return false
				}
			}
			return true
		}
		return false
	case *ssa.Extract:
		if c, ok := x.Tuple.(*ssa.Call); ok {
			return o.derivedFromOwnParam(c, fn, seen)
		}
		return false
	case *ssa.Phi:
		for _, e := range x.Edges {
			if !o.derivedFromOwnParam(e, fn, seen) {
				return false
			}
		}
		return true
	}
	return false
}

func checkC18(r *Run) {
	P := r.P
	roundingShapes(r, "C18-R4")
	coinsMergeSiblings(r, "C18-R5")
	r.NotDecided("exactness and rounding of Int/Uint/Dec arithmetic (numeric facts about math/big results) — out of reach of a structural argument")
	r.NotDecided("Coins canonical form, Add/Sub inverse, comparison agreement, SafeSub exactness (value-level properties of sorted-merge code)")
	o := newBigOwn(P)

	// ------------------------------------------------------------------ R1
	r.Rule("C18-R1", "operands are never mutated: every mutating *big.Int method is invoked on a receiver allocated in the same function (new(big.Int), big.NewInt, result of a fresh-returning helper); helpers that mutate an argument are only given such fresh values; package-level *big.Int values are never receivers; the pointer-receiver Unmarshal* decoders are the enumerated exceptions", 40)
	exceptions := map[string]string{
		"(*types.Int).UnmarshalAmino":    "decoding into the receiver is the method's contract",
		"(*types.Int).UnmarshalJSON":     "decoding into the receiver is the method's contract",
		"(*types.Uint).UnmarshalAmino":   "decoding into the receiver is the method's contract",
		"(*types.Uint).UnmarshalJSON":    "decoding into the receiver is the method's contract",
		"(*types.Dec).UnmarshalAmino":    "decoding into the receiver is the method's contract",
		"(*types.Dec).UnmarshalJSON":     "decoding into the receiver is the method's contract",
		"types.unmarshalText":            "mutates its argument by contract (tracked as mutatesArg; callers checked)",
		"types.unmarshalAmino":           "mutates its argument by contract (tracked as mutatesArg; callers checked)",
		"types.unmarshalJSON":            "mutates its argument by contract (tracked as mutatesArg; callers checked)",
		"types.chopPrecisionAndRound":    "mutates its argument by contract (tracked as mutatesArg; callers checked)",
		"types.chopPrecisionAndRoundUp":  "mutates its argument by contract (tracked as mutatesArg; callers checked)",
		"types.chopPrecisionAndTruncate": "mutates its argument by contract (tracked as mutatesArg; callers checked)",
	}
	nSites := 0
	for _, fn := range P.RepoFns {
		fn := fn
		name := short(enclosingTop(fn).String())
		InstrsRaw(fn, func(in ssa.Instruction) {
			ci, ok := in.(ssa.CallInstruction)
			if !ok {
				return
			}
			c := ci.Common()
			callee := staticCallee(c)
			if callee == nil {
				return
			}
			check := func(arg ssa.Value, what string) {
				nSites++
				if o.fresh(arg, map[ssa.Value]bool{}) {
					r.OK("C18-R1", name+"/"+what, P.InstrPos(in), "receiver/argument is fresh: "+P.TermAt(arg, in).String())
					return
				}
				if _, isHelper := exceptions[name]; isHelper && !strings.Contains(name, "Unmarshal") || name == "types.unmarshalText" || name == "types.unmarshalAmino" || name == "types.unmarshalJSON" {
					// a helper that mutates its parameter by contract: the value must derive from that parameter (or be fresh)
					if o.derivedFromOwnParam(arg, fn, map[ssa.Value]bool{}) {
						r.OK("C18-R1", name+"/"+what, P.InstrPos(in), "helper works on its own (mutable-by-contract) parameter; every caller passes a fresh value")
						return
					}
				}
				if why, ok := exceptions[name]; ok && strings.Contains(name, "Unmarshal") {
					r.OK("C18-R1", name+"/"+what, P.InstrPos(in), "exception: "+why)
					return
				}
				r.Viol("C18-R1", name+"/"+what, P.InstrPos(in), name+" calls "+what+" on "+P.TermAt(arg, in).String()+", which is not a value allocated in this function: an operand (or shared constant) would be modified in place")
			}
			if isBigMutator(callee) && len(c.Args) > 0 {
				check(c.Args[0], "(*big.Int)."+callee.Name())
			}
			if m := o.mutatesArg[callee]; m != nil {
				var idx []int
				for i := range m {
					idx = append(idx, i)
				}
				sort.Ints(idx)
				for _, i := range idx {
					if i < len(c.Args) {
						check(c.Args[i], short(callee.String())+fmt.Sprintf("#arg%d", i))
					}
				}
			}
		})
	}
	r.Stats["C18_mutating_sites_checked"] = nSites
	var ma []string
	for f, m := range o.mutatesArg {
		for i := range m {
			ma = append(ma, fmt.Sprintf("%s#%d", short(f.String()), i))
		}
	}
	sort.Strings(ma)
	r.Assume = append(r.Assume, "mutatesArg helpers (computed): "+strings.Join(ma, ", "))

	// ------------------------------------------------------------------ R2
	r.Rule("C18-R2", "overflow guards: every Int/Uint/Dec operation in the frozen table returns only after a BitLen range test (or through a range-checking constructor) on the value it returns; Quo/Mod test the divisor for zero; Int64/Uint64 conversions test IsInt64/IsUint64; text decoding tests the range", 30)
	bitlen := `\(\*math/big\.Int\)\.BitLen\(`
	guarded := []string{
		"(types.Int).Add", "(types.Int).AddRaw", "(types.Int).Sub", "(types.Int).SubRaw", "(types.Int).Mul", "(types.Int).MulRaw",
		"types.NewIntFromBigInt", "types.NewIntFromString", "types.NewIntWithDecimal",
		"(types.Uint).Add", "(types.Uint).AddUint64", "(types.Uint).Sub", "(types.Uint).SubUint64", "(types.Uint).Mul", "(types.Uint).MulUint64",
		"(types.Dec).Add", "(types.Dec).Sub", "(types.Dec).Mul", "(types.Dec).MulTruncate", "(types.Dec).MulInt", "(types.Dec).MulInt64",
		"(types.Dec).Quo", "(types.Dec).QuoTruncate", "(types.Dec).QuoRoundUp",
	}
	for _, n := range guarded {
		f := r.fnOpt(n)
		if f == nil {
			r.Undecided("C18-R2", n, "-", "function in the overflow table does not resolve")
			continue
		}
		for i, ret := range Returns(f) {
			// error returns are exempt
			if idx, _ := errIndex(f.Signature); idx >= 0 {
				if c, _ := P.retClass(ret, idx); c == "nonnil" {
					continue
				}
			}
			if f.Signature.Results().Len() == 2 && typeStr(f.Signature.Results().At(1).Type()) == "bool" {
				if c, _ := P.retClass(ret, 1); c == "false" {
					continue
				}
			}
			gs := P.Guards(ret, 2)
			rv := P.TermAt(ret.Results[0], ret).String()
			// the big.Int wrapped by the returned Int / Uint / Dec literal: the range test must be on that very value
			inner := ""
			if m := regexp.MustCompile(`^complit:types\.(?:Int|Uint|Dec)\{(?:Int|i)=(.*)\}$`).FindStringSubmatch(rv); m != nil {
				inner = m[1]
			}
			ok := false
			for _, a := range gs {
				k := a.Key()
				if m := regexp.MustCompile(`^!\((255|256|315|\(255 \+ 60\)|.*maxBitLen.*) < ` + bitlen + `(.*)\)\)$`).FindStringSubmatch(k); m != nil {
					if inner == "" || m[2] == inner || a.Via != "" {
						ok = true
					}
				}
			}
			// or the returned value comes straight from a checking constructor
			if strings.HasPrefix(rv, "types.NewIntFromBigInt(") || strings.HasPrefix(rv, "types.checkNewUint(") || strings.HasPrefix(rv, "types.NewUintFromBigInt(") ||
				strings.HasPrefix(rv, "(types.Int).Add(") || strings.HasPrefix(rv, "(types.Int).Sub(") || strings.HasPrefix(rv, "(types.Int).Mul(") ||
				strings.HasPrefix(rv, "(types.Uint).Add(") || strings.HasPrefix(rv, "(types.Uint).Sub(") || strings.HasPrefix(rv, "(types.Uint).Mul(") {
				ok = true
			}
			r.Check(ok, "C18-R2", fmt.Sprintf("%s/return#%d/range-checked", n, i), P.InstrPos(ret), "range test dominates the return", n+" can return "+rv+" without a BitLen range test (guards: "+strings.Join(atomStrings(gs), " ; ")+"): an out-of-range result would be returned instead of panicking")
		}
	}
	// division by zero
	for _, n := range []string{"(types.Int).Quo", "(types.Int).QuoRaw", "(types.Int).Mod", "(types.Int).ModRaw"} {
		f := r.fnOpt(n)
		if f == nil {
			continue
		}
		for i, ret := range Returns(f) {
			gs := P.Guards(ret, 2)
			ok := false
			for _, a := range gs {
				k := a.Key()
				if strings.Contains(k, ".Sign(") || strings.Contains(k, "IsZero(") || reMatch(`== 0\)$`, k) || reMatch(`^!\(0 == `, k) {
					ok = true
				}
			}
			rv := P.TermAt(ret.Results[0], ret).String()
			if strings.HasPrefix(rv, "(types.Int).Quo(") || strings.HasPrefix(rv, "(types.Int).Mod(") || strings.HasPrefix(rv, "(types.Uint).Quo(") {
				ok = true
			}
			r.Check(ok, "C18-R2", fmt.Sprintf("%s/return#%d/divisor-tested", n, i), P.InstrPos(ret), "zero divisor tested", n+" returns without testing the divisor for zero")
		}
	}
	for _, w := range []struct{ fn, test string }{{"(types.Int).Int64", "IsInt64("}, {"(types.Uint).Uint64", "IsUint64("}, {"(types.Dec).RoundInt64", "IsInt64("}, {"(types.Dec).TruncateInt64", "IsInt64("}} {
		f := r.fnOpt(w.fn)
		if f == nil {
			continue
		}
		for i, ret := range Returns(f) {
			ok := false
			for _, a := range P.Guards(ret, 1) {
				if strings.Contains(a.Key(), w.test) && a.Pos {
					ok = true
				}
			}
			r.Check(ok, "C18-R2", fmt.Sprintf("%s/return#%d/fits", w.fn, i), P.InstrPos(ret), "conversion guarded by "+w.test+")", w.fn+" converts without the "+w.test+") test: a large value would wrap")
		}
	}
	if f := r.fn("types.unmarshalText"); f != nil {
		for i, ret := range P.successReturns(f, 0, "nil") {
			ok, _ := HasAtom(P.Guards(ret, 0), `^!\(255 < `+bitlen+`param:i\)\)$`)
			r.Check(ok, "C18-R2", fmt.Sprintf("unmarshalText/success#%d/range-checked", i), P.InstrPos(ret), "decoded integers are range-checked", "unmarshalText accepts a decoded integer without the 255-bit range test")
		}
	}

	// ------------------------------------------------------------------ R3
	r.Rule("C18-R3", "power conversion uses one constant: TokensToConsensusPower = tokens.Quo(PowerReduction).Int64() and TokensFromConsensusPower = NewInt(power).Mul(PowerReduction); PowerReduction = 10^6", 3)
	for _, w := range []struct{ fn, want string }{
		{"types.TokensToConsensusPower", "(types.Int).Int64((types.Int).Quo(param:tokens, global:types.PowerReduction))"},
		{"types.TokensFromConsensusPower", "(types.Int).Mul(types.NewInt(param:power), global:types.PowerReduction)"},
	} {
		if f := r.fn(w.fn); f != nil {
			for _, ret := range Returns(f) {
				t := P.TermAt(ret.Results[0], ret).String()
				r.Check(t == w.want, "C18-R3", w.fn, P.InstrPos(ret), t, w.fn+" is "+t+" ; required "+w.want)
			}
		}
	}
	if sp := P.SSA.Package(P.Pkg("types").Types); sp != nil {
		ok := false
		if initFn := sp.Func("init"); initFn != nil {
			Instrs(initFn, func(in ssa.Instruction) {
				if st, ok2 := in.(*ssa.Store); ok2 {
					if g, isG := st.Addr.(*ssa.Global); isG && g.Name() == "PowerReduction" {
						v := P.TermAt(st.Val, st).String()
						ok = strings.Contains(v, "1000000") || strings.Contains(v, "Exp(") && strings.Contains(v, "math/big.NewInt(10), math/big.NewInt(6), nil")
					}
				}
			})
		}
		r.Check(ok, "C18-R3", "PowerReduction=10^6", "-", "PowerReduction is initialised from 1000000", "PowerReduction is no longer 10^6")
	}
}
