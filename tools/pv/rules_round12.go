package main

import (
	"fmt"
	"regexp"
	"strings"

	"golang.org/x/tools/go/ssa"
)

// Rules added after the seventh seeding round.

var loopTestRe = regexp.MustCompile(`^!?next\(range\(.*\)\)#0$|^!?\(?\(phi\(`)

// nonLoopGuards: local guards of in that are not loop tests.
func (P *Prog) nonLoopGuards(in ssa.Instruction) []Atom {
	var out []Atom
	for _, a := range P.LocalGuards(in) {
		if a.Via != "" || loopTestRe.MatchString(a.Key()) {
			continue
		}
		out = append(out, a)
	}
	return out
}

// genesisPoolFundedBeforeStored: the staked pool is stored with its coins (C02/C04).
func genesisPoolFundedBeforeStored(r *Run, rule string) {
	P := r.P
	r.Rule(rule, "genesis funds the staked pool before storing it: in pos.InitGenesis the SetModuleAccount of the staked pool happens after (and under the success of) stakedPool.SetCoins(stakedCoins)", 1)
	f := r.fn("x/pos.InitGenesis")
	if f == nil {
		return
	}
	n := 0
	for _, c := range CallsIn(f, "x/pos/types.AuthKeeper.SetModuleAccount") {
		if !strings.Contains(P.callTerm(c).String(), "GetStakedPool(") {
			continue
		}
		n++
		ok, _ := HasAtom(P.LocalGuards(c), `^isnil\(x/auth/exported\.ModuleAccountI\.SetCoins\(\(x/pos/keeper\.Keeper\)\.GetStakedPool\(`)
		r.Check(ok, rule, "InitGenesis/staked-pool-stored-after-funding", P.InstrPos(c), "after SetCoins succeeded", "the staked pool account is stored before its coins are set: the stored account holds nothing while the supply and the validator records count the stake")
	}
	if n == 0 {
		r.Viol(rule, "InitGenesis/staked-pool-stored-after-funding", P.Pos(f.Pos()), "InitGenesis no longer stores the funded staked pool")
	}
}

// accountSettersFailOnlyAsVetted: the credit side of a transfer cannot refuse late (C11).
func accountSettersFailOnlyAsVetted(r *Run, rule string) {
	P := r.P
	r.Rule(rule, "creating the recipient account cannot refuse a transfer whose sender was already debited: BaseAccount.SetAddress fails only when the address is already set; NewBaseAccountWithAddress / the account prototype path add no refusal", 2)
	if f := r.fn("(*x/auth/types.BaseAccount).SetAddress"); f != nil {
		for i, a := range P.RetAlternatives(f, 0) {
			t := a.T.String()
			if t == "nil" {
				continue
			}
			ok, _ := HasAtom(a.G, `^!\(0 == len\(param:acc\.Address\)\)$`)
			extra := 0
			for _, g := range a.G {
				if g.Via == "" && g.Key() != "!(0 == len(param:acc.Address))" {
					extra++
				}
			}
			r.Check(ok && extra == 0, rule, fmt.Sprintf("BaseAccount.SetAddress/failure#%d/only-override", i), P.InstrPos(a.Ret), "fails only on override", "BaseAccount.SetAddress fails under {"+strings.Join(atomStrings(a.G), " ; ")+"}: SendCoins creates the recipient account after the sender was debited, so this refusal leaves a half-applied transfer")
		}
	}
	for _, n := range []string{"(*x/auth/types.BaseAccount).SetCoins", "(*x/auth/types.BaseAccount).SetPubKey"} {
		if f := r.fn(n); f != nil {
			for i, a := range P.RetAlternatives(f, 0) {
				r.Check(a.T.String() == "nil", rule, fmt.Sprintf("%s/return#%d/never-fails", short(n), i), P.InstrPos(a.Ret), "nil", short(n)+" can now fail ("+oneLine(a.T.String())+"): callers on the credit side of a transfer run after the debit")
			}
		}
	}
}

// supplySumCoversEveryAccount: the supply derived at genesis counts every account (C02/C11).
func supplySumCoversEveryAccount(r *Run, rule string) {
	P := r.P
	r.Rule(rule, "the supply derived from the genesis accounts counts every account: the callback of auth.InitGenesis adds acc.GetCoins() unconditionally", 1)
	f := r.fn("x/auth.InitGenesis")
	if f == nil {
		return
	}
	n := 0
	var visit func(g *ssa.Function)
	visit = func(g *ssa.Function) {
		for _, c := range g.AnonFuncs {
			for _, call := range CallsIn(c, "(types.Coins).Add") {
				if !strings.Contains(P.callTerm(call).String(), "GetCoins(") {
					continue
				}
				n++
				gs := P.nonLoopGuards(call)
				r.Check(len(gs) == 0, rule, "InitGenesis/supply-sum/unconditional", P.InstrPos(call), "every account", "the supply sum skips accounts unless {"+strings.Join(atomStrings(gs), " ; ")+"}: the recorded supply is short of the balances, and a later burn of the uncounted coins fails after the account was debited")
			}
			visit(c)
		}
	}
	visit(f)
	for _, h := range P.RepoFns {
		if h.Parent() == nil && P.isNewHelper(h) {
			for _, pf := range P.pinnedCallersOf(h) {
				if enclosingTop(pf) == f {
					visit(h)
				}
			}
		}
	}
	if n == 0 {
		r.Viol(rule, "InitGenesis/supply-sum/unconditional", P.Pos(f.Pos()), "InitGenesis no longer sums the account balances into the supply")
	}
}

// cpKeepsEmptyDistinctFromNil: an empty bound is not an open bound (C15/C16).
func cpKeepsEmptyDistinctFromNil(r *Run, rule string) {
	P := r.P
	r.Rule(rule, "copying a bound keeps empty distinct from nil: store/types.Cp returns nil only for a nil argument (nil means `unbounded` to every iterator underneath)", 1)
	f := r.fn("store/types.Cp")
	if f == nil {
		return
	}
	for i, a := range P.RetAlternatives(f, 0) {
		if a.T.String() != "nil" {
			continue
		}
		ok, _ := HasAtom(a.G, `^isnil\(param:bz\)$`)
		r.Check(ok, rule, fmt.Sprintf("Cp/nil#%d/only-for-nil", i), P.InstrPos(a.Ret), "nil only for nil", "Cp returns nil under {"+strings.Join(atomStrings(a.G), " ; ")+"}: an empty non-nil bound becomes an open bound in the parent iterator while the overlay still sees an empty range")
	}
}

// tracingContextMergeUnconditional: the trace names the transaction it belongs to (C16).
func tracingContextMergeUnconditional(r *Run, rule string) {
	P := r.P
	r.Rule(rule, "a cache multistore's tracing context takes every key it is given: SetTracingContext overwrites existing keys (the per-transaction hash replaces the previous one)", 1)
	f := r.fn("(store/cachemulti.Store).SetTracingContext")
	if f == nil {
		return
	}
	n := 0
	Instrs(f, func(in ssa.Instruction) {
		mu, ok := in.(*ssa.MapUpdate)
		if !ok {
			return
		}
		n++
		var extra []string
		for _, a := range P.nonLoopGuards(mu) {
			if k := a.Key(); k != "!isnil(param:cms.traceContext)" {
				extra = append(extra, k)
			}
		}
		r.Check(len(extra) == 0, rule, "cachemulti.SetTracingContext/overwrites", P.InstrPos(mu), "unconditional", "the context entry is written only under {"+strings.Join(extra, " ; ")+"}: a key that is already present (the previous transaction's hash) is kept")
	})
	if n == 0 {
		r.Viol(rule, "cachemulti.SetTracingContext/overwrites", P.Pos(f.Pos()), "SetTracingContext no longer merges the given context into the existing one")
	}
}

// traceSDKKeepsTheError: a traced error is the same error (C20: the decoder's refusal keeps its code).
func traceSDKKeepsTheError(r *Run, rule string) {
	P := r.P
	r.Rule(rule, "a traced error keeps its code: sdkError.TraceSDK returns its receiver (the decoder's ErrTxDecode(...).TraceSDK(...) must still carry CodeTxDecode, or garbage bytes are answered with code 0)", 1)
	f := r.fn("(*types.sdkError).TraceSDK")
	if f == nil {
		return
	}
	for i, a := range P.RetAlternatives(f, 0) {
		r.Check(a.T.String() == "param:err", rule, fmt.Sprintf("TraceSDK/return#%d/receiver", i), P.InstrPos(a.Ret), "the receiver", "TraceSDK returns "+oneLine(a.T.String())+" ; required the receiver itself (code and codespace preserved)")
	}
}

func init() {
	extend("C02", func(r *Run) {
		genesisPoolFundedBeforeStored(r, "C02-R18")
		supplySumCoversEveryAccount(r, "C02-R19")
		removeTokensPersists(r, "C02-R20")
	})
	extend("C04", func(r *Run) {
		genesisPoolFundedBeforeStored(r, "C04-R11")
		r.borrow("C03", "C03-R1", "C04-R12")
	})
	extend("C11", func(r *Run) {
		accountSettersFailOnlyAsVetted(r, "C11-R22")
		supplySumCoversEveryAccount(r, "C11-R23")
	})
	extend("C15", func(r *Run) {
		cpKeepsEmptyDistinctFromNil(r, "C15-R16")
		r.borrow("C16", "C16-R1", "C15-R17")
	})
	extend("C16", func(r *Run) {
		cpKeepsEmptyDistinctFromNil(r, "C16-R11")
		tracingContextMergeUnconditional(r, "C16-R12")
		loadVersionRules(r, "C16-R13")
	})
	extend("C20", func(r *Run) {
		traceSDKKeepsTheError(r, "C20-R10")
		r.borrow("C11", "C11-R4", "C20-R11")
	})
	extend("C01", func(r *Run) { r.borrow("C11", "C11-R7", "C01-R13") })
	extend("C06", func(r *Run) { r.borrow("C03", "C03-R1", "C06-R16") })
	extend("C17", func(r *Run) {
		r.borrow("C03", "C03-R1", "C17-R14")
		r.borrow("C18", "C18-R5", "C17-R15")
		accountSettersStore(r, "C17-R16")
	})
	extend("C05", func(r *Run) { r.borrow("C15", "C15-R7", "C05-R13") })
	extend("C07", func(r *Run) {
		r.borrow("C02", "C02-R3", "C07-R17")
		r.borrow("C18", "C18-R3", "C07-R18")
	})
	extend("C08", func(r *Run) { lookupHelpers(r, "C08-R11") })
	extend("C09", func(r *Run) { r.borrow("C05", "C05-R3", "C09-R10") })
	pkgScope["C13"] = append(pkgScope["C13"], "baseapp")
}

// queryOnlyCommittedHeights: a future height is not answered (C14). Found by reading the result of seeding round 7 and
// reproduced (repro/C14_future_height_after_rollback_test.go.txt); repaired in /repo by c3ec09c.
func queryOnlyCommittedHeights(r *Run, rule string) {
	P := r.P
	r.Rule(rule, "a height above the multistore's last commit is not answered: in rootmulti.Store.Query the substore query runs only under !(lastCommitID.Version < req.Height) — substores can hold versions the multistore never committed (abandoned by a rollback, or saved by an interrupted commit)", 1)
	f := r.fn("(*store/rootmulti.Store).Query")
	if f == nil {
		return
	}
	n := 0
	for _, c := range CallsIn(f, "store/types.Queryable.Query") {
		n++
		r.requireCut(rule, "rootmulti.Query/substore-query", nil, c, "height<=last-commit", `^!\(param:rs\.lastCommitID\.Version < param:req\.Height\)$`)
	}
	if n == 0 {
		r.Viol(rule, "rootmulti.Query/substore-query", P.Pos(f.Pos()), "Query no longer routes to the substore's Query")
	}
}

func init() {
	extend("C14", func(r *Run) { queryOnlyCommittedHeights(r, "C14-R16") })
}

// aminoNumbersCanonical: a signed transaction has one byte encoding as far as its numbers go (C03 replay, C20). Found
// by a seeding sub-agent's remark, reproduced (repro/C03_respelled_integer_replay_test.go.txt), repaired by eec7181.
func aminoNumbersCanonical(r *Run, rule string) {
	P := r.P
	r.Rule(rule, "numbers on the wire have one spelling: the amino text decoders of Int / Uint (types.unmarshalAmino) and Dec (Dec.UnmarshalAmino) succeed only if the text equals the canonical String() of the decoded number, and Int/Uint.UnmarshalAmino go through unmarshalAmino — a re-spelled copy (\"+10\", \"010\", \"0xa\") of a signed transaction would have other bytes, another hash for the tx-index replay check, and the same valid signature", 4)
	for _, w := range []struct{ fn, re string }{
		{"types.unmarshalAmino", `^\(\(\*math/big\.Int\)\.String\(param:i\) == param:text\)$`},
		{"(*types.Dec).UnmarshalAmino", `^\(\(\*math/big\.Int\)\.String\(addr:\w+\) == param:text\)$`},
	} {
		f := r.fn(w.fn)
		if f == nil {
			continue
		}
		n := 0
		for i, ret := range P.successReturns(f, 0, "nil") {
			n++
			r.requireCut(rule, fmt.Sprintf("%s/success#%d", w.fn, i), nil, ret, "text-is-canonical", w.re)
		}
		if n == 0 {
			r.Viol(rule, w.fn+"/success", P.Pos(f.Pos()), w.fn+" has no success return")
		}
	}
	for _, n := range []string{"(*types.Int).UnmarshalAmino", "(*types.Uint).UnmarshalAmino"} {
		if f := r.fn(n); f != nil {
			r.Check(len(CallsIn(f, "types.unmarshalAmino")) == 1, rule, n+"/through-unmarshalAmino", P.Pos(f.Pos()), "delegates", n+" no longer decodes through types.unmarshalAmino (the canonical-spelling check)")
		}
	}
}

func init() {
	extend("C03", func(r *Run) { aminoNumbersCanonical(r, "C03-R12") })
	extend("C20", func(r *Run) { aminoNumbersCanonical(r, "C20-R12") })
}

// forcedUnstakeLeavesQueue: no abandoned entry in the unstaking queue (C06). Found by a seeding sub-agent's remark,
// reproduced (repro/C06_abandoned_queue_entry_test.go.txt), repaired by d73ecb5.
func forcedUnstakeLeavesQueue(r *Run, rule string) {
	P := r.P
	r.Rule(rule, "a validator forced out while unstaking leaves the unstaking queue: ForceValidatorUnstake calls deleteUnstakingValidator(ctx, validator) exactly under validator.IsUnstaking(), on every such path, before the status is overwritten — an abandoned entry would complete a later, second unstaking of the same validator early", 3)
	f := r.fn(posK + "ForceValidatorUnstake")
	if f == nil {
		return
	}
	c := r.oneCall(rule, "ForceValidatorUnstake", f, posK+"deleteUnstakingValidator")
	if c == nil {
		return
	}
	r.Check(argTerm(P.callTerm(c), 2).String() == "param:validator", rule, "ForceValidatorUnstake/queue-entry-of-the-record-as-stored", P.InstrPos(c), "param:validator", "deleteUnstakingValidator receives "+oneLine(argTerm(P.callTerm(c), 2).String())+" ; required the validator as it came in (its UnstakingCompletionTime names the slot)")
	gs := P.nonLoopGuards(c)
	ok := len(gs) == 1 && gs[0].Pos && gs[0].Key() == "(x/pos/types.Validator).IsUnstaking(param:validator)"
	r.Check(ok, rule, "ForceValidatorUnstake/iff-unstaking", P.InstrPos(c), "exactly under IsUnstaking", "the queue entry is removed under {"+strings.Join(atomStrings(gs), " ; ")+"} ; required exactly validator.IsUnstaking()")
	r.mustFollowEdge(rule, "ForceValidatorUnstake/unstaking=>leaves-queue", f, `^\(x/pos/types\.Validator\)\.IsUnstaking\(param:validator\)$`,
		func(in ssa.Instruction) bool { return in == ssa.Instruction(c) }, CallTo(posK+"SetValidator"), "deleteUnstakingValidator")
}

func init() {
	extend("C06", func(r *Run) { forcedUnstakeLeavesQueue(r, "C06-R17") })
}

// jailedCannotBeginUnstaking: the jailed flag cannot be shed (C09). Found by a seeding sub-agent's remark, reproduced
// (repro/C09_tombstone_shed_by_unstaking_test.go.txt), repaired by the commit recorded in known_findings.json.
func jailedCannotBeginUnstaking(r *Run, rule string) {
	P := r.P
	r.Rule(rule, "a jailed validator cannot shed its record: ValidateValidatorBeginUnstaking succeeds only under !validator.IsJailed() (the record, and with it the jailed flag of a tombstoned validator, is deleted when an unstaking matures), and handleMsgBeginUnstake begins the unstaking only after that validation", 2)
	f := r.fn(posK + "ValidateValidatorBeginUnstaking")
	if f != nil {
		n := 0
		for i, ret := range P.successReturns(f, 0, "nil") {
			n++
			r.requireCut(rule, fmt.Sprintf("ValidateValidatorBeginUnstaking/success#%d", i), nil, ret, "not-jailed", `^!\(x/pos/types\.Validator\)\.IsJailed\(param:validator\)$`, `^!param:validator\.Jailed$`)
		}
		if n == 0 {
			r.Viol(rule, "ValidateValidatorBeginUnstaking/success", P.Pos(f.Pos()), "no success return")
		}
	}
	if h := r.fn("x/pos.handleMsgBeginUnstake"); h != nil {
		for _, c := range CallsIn(h, posK+"BeginUnstakingValidator") {
			ok, _ := HasAtom(P.LocalGuards(c), `^isnil\(\(x/pos/keeper\.Keeper\)\.ValidateValidatorBeginUnstaking\(`)
			r.Check(ok, rule, "handleMsgBeginUnstake/validated-first", P.InstrPos(c), "after validation", "BeginUnstakingValidator is reached without a successful ValidateValidatorBeginUnstaking")
		}
	}
}

func init() {
	extend("C09", func(r *Run) { jailedCannotBeginUnstaking(r, "C09-R11") })
	extend("C06", func(r *Run) { jailedCannotBeginUnstaking(r, "C06-R18") })
}

// firstCommitReopen: reopening before any commit info exists (C13). The version-0 branch of rootmulti.LoadVersion hands
// every substore the zero CommitID, and iavl reads version 0 as "the latest saved version": after a crash during the
// FIRST commit the substores that had already saved version 1 come back with the data of the unfinished block.
// Reproduced (repro/C13_crash_during_first_commit_test.go.txt); recorded as a known finding (no small, safe repair:
// iavl v0.12.4 offers no way to open an empty tree over existing versions except deleting them).
func firstCommitReopen(r *Run, rule string) {
	P := r.P
	r.Rule(rule, "reopening shows one version across all stores also before the first commit info exists: no substore is loaded with the zero CommitID (which iavl resolves to its latest saved version) unless nothing can have been saved yet", 1)
	f := r.fn("(*store/rootmulti.Store).LoadVersion")
	if f == nil {
		return
	}
	n := 0
	for _, c := range CallsIn(f, "(*store/rootmulti.Store).loadCommitStoreFromParams") {
		id := argTerm(P.callTerm(c), 2).String()
		if id != "zero:store/types.CommitID" && id != "complit:store/types.CommitID{}" {
			continue
		}
		if ok, _ := HasAtom(P.LocalGuards(c), `^\(0 == param:ver\)$`); !ok {
			continue // the "store missing from the commit info" case is a different rule's business
		}
		n++
		r.Viol(rule, "LoadVersion/version-0-loads-latest-substore-versions", P.InstrPos(c), "LoadVersion(0) loads each substore with the zero CommitID, which iavl resolves to the latest version it saved: after a crash during the first commit (some substores saved version 1, commit info not yet written) the reopened store shows a mixture of version 0 and version 1")
	}
	if n == 0 {
		r.OK(rule, "LoadVersion/version-0-loads-latest-substore-versions", P.Pos(f.Pos()), "the version-0 branch no longer loads substores with the zero CommitID")
	}
}

func init() {
	extend("C13", func(r *Run) { firstCommitReopen(r, "C13-R10") })
}
