package main

import (
	"strings"

	"golang.org/x/tools/go/ssa"
)

func init() { register("C10", checkC10) }

const posK = "(x/pos/keeper.Keeper)."

func checkC10(r *Run) {
	P := r.P
	r.NotDecided("sums over several awards to one address (needs Int.Add exactness, C18)")
	r.NotDecided("that the fee collector holds exactly the fees of block H when block H+1 begins (a statement about histories; decided: it is drained completely and only here)")
	r.NotDecided("what happens to an award when MintCoins fails (mis-configured pool permissions): mintValidatorAwards drops mint()'s result — recorded as an observation, not claimed")

	// ------------------------------------------------------------------ R1
	r.Rule("C10-R1", "BeginBlocker order: GetPreviousProposer -> rewardFromFees(previous) (under height>1) -> mintValidatorAwards -> burnValidators -> SetPreviousProposer(req.Header.ProposerAddress); the proposer is overwritten only after the reward was paid, and the address rewarded is the value read", 6)
	if bb := r.fn("x/pos/keeper.BeginBlocker"); bb != nil {
		r.orderedCalls("C10-R1", "BeginBlocker", bb, posK+"GetPreviousProposer", posK+"rewardFromFees")
		r.neverAfter("C10-R1", "BeginBlocker", bb, posK+"rewardFromFees", posK+"SetPreviousProposer")
		r.neverAfter("C10-R1", "BeginBlocker", bb, posK+"GetPreviousProposer", posK+"SetPreviousProposer")
		if c := r.oneCall("C10-R1", "BeginBlocker", bb, posK+"rewardFromFees"); c != nil {
			t := P.callTerm(c).String()
			want := posK + "rewardFromFees(param:k, param:ctx, " + posK + "GetPreviousProposer(param:k, param:ctx))"
			r.Check(t == want, "C10-R1", "BeginBlocker/rewards-previous-proposer", P.InstrPos(c), t, "rewardFromFees receives "+t+" ; required "+want)
			// guard is exactly height > 1
			gs := P.Guards(c, 0)
			ok, _ := HasAtom(gs, `^\(1 < types\.Ctx\.BlockHeight\(param:ctx\)\)$`)
			r.Check(ok && len(gs) == 1, "C10-R1", "BeginBlocker/reward-guard", P.InstrPos(c), "rewardFromFees runs exactly when height > 1", "rewardFromFees is guarded by {"+strings.Join(atomStrings(gs), " ; ")+"} ; required exactly {1 < BlockHeight}")
		}
		if c := r.oneCall("C10-R1", "BeginBlocker", bb, posK+"SetPreviousProposer"); c != nil {
			t := P.callTerm(c).String()
			want := posK + "SetPreviousProposer(param:k, param:ctx, param:req.Header.ProposerAddress)"
			r.Check(t == want, "C10-R1", "BeginBlocker/records-this-proposer", P.InstrPos(c), t, "SetPreviousProposer receives "+t+" ; required "+want)
			r.Check(len(P.Guards(c, 0)) == 0, "C10-R1", "BeginBlocker/records-unconditionally", P.InstrPos(c), "unconditional", "SetPreviousProposer is conditional: "+strings.Join(atomStrings(P.Guards(c, 0)), " ; "))
			// it is executed on every path to return
			reach, _, path := ReachWithout(bb, nil, isReturn, func(in ssa.Instruction) bool { return in == ssa.Instruction(c) }, nil)
			r.Check(!reach, "C10-R1", "BeginBlocker/always-records-proposer", P.InstrPos(c), "every path records the proposer", "a path returns without SetPreviousProposer: "+P.blockPathString(path))
		}
		for _, n := range []string{"mintValidatorAwards", "burnValidators"} {
			if c := r.oneCall("C10-R1", "BeginBlocker", bb, posK+n); c != nil {
				r.Check(len(P.Guards(c, 0)) == 0, "C10-R1", "BeginBlocker/"+n+"-unconditional", P.InstrPos(c), "unconditional", n+" is conditional: "+strings.Join(atomStrings(P.Guards(c, 0)), " ; "))
			}
		}
	}
	// proposer record: set/get use the same key and nothing else writes it
	checkStoreKeyWriters(r, "C10-R1", "x/pos/types", "ProposerKey", []string{posK + "SetPreviousProposer"})
	if f := r.fn(posK + "SetPreviousProposer"); f != nil {
		r.callersExactly("C10-R1", "SetPreviousProposer", r.edgesTo(f), []string{"x/pos/keeper.BeginBlocker", "x/pos.InitGenesis"})
	}

	// ------------------------------------------------------------------ R2
	r.Rule("C10-R2", "an award mints exactly what it forwards: in pos.mint MintCoins(StakedPool, X) and SendCoinsFromModuleToAccount(StakedPool, address, X) use the same X = NewCoins(NewCoin(StakeDenom, amount))", 4)
	checkMintPair(r, "C10-R2")

	// ------------------------------------------------------------------ R3
	r.Rule("C10-R3", "mintValidatorAwards: iterates the award prefix; on every iteration mint(amount decoded from the entry's value, address parsed from the entry's key) then store.Delete(entry key) before advancing — each queued award is minted once and the queue is emptied", 5)
	if f := r.fn(posK + "mintValidatorAwards"); f != nil {
		it := `types.KVStorePrefixIterator(types.Ctx.KVStore(param:ctx, param:k.storeKey), global:x/pos/types.AwardValidatorKey)`
		m := r.oneCall("C10-R3", "mintValidatorAwards", f, posK+"mint")
		if m != nil {
			t := P.callTerm(m)
			amt := argTerm(t, 2).String()
			addr := argTerm(t, 3).String()
			okAmt := strings.HasPrefix(amt, "out:types.Int←") && strings.Contains(amt, "UnmarshalBinaryBare(") && strings.Contains(amt, "github.com/tendermint/tm-db.Iterator.Value("+it+")")
			r.Check(okAmt, "C10-R3", "mintValidatorAwards/amount-from-entry", P.InstrPos(m), amt, "minted amount is "+amt+" ; required: decoded from iterator.Value() of the award prefix")
			wantAddr := "x/pos/types.AddressFromKey(github.com/tendermint/tm-db.Iterator.Key(" + it + "))"
			r.Check(addr == wantAddr, "C10-R3", "mintValidatorAwards/address-from-key", P.InstrPos(m), addr, "recipient is "+addr+" ; required "+wantAddr)
			// mint happens on every iteration: from the loop-continue edge (Valid true) to Next
			isNext := CallTo("github.com/tendermint/tm-db.Iterator.Next")
			r.mustFollowEdge("C10-R3", "mintValidatorAwards/mint-every-entry", f, `^github\.com/tendermint/tm-db\.Iterator\.Valid\(`, func(in ssa.Instruction) bool { return in == ssa.Instruction(m) }, isNext, "mint of the entry")
			// delete of the same key follows the mint before Next
			del := func(in ssa.Instruction) bool {
				ci, ok := in.(ssa.CallInstruction)
				if !ok || !CallTo("store/types.KVStore.Delete")(in) {
					return false
				}
				return argTerm(P.callTerm(ci), 1).String() == "github.com/tendermint/tm-db.Iterator.Key("+it+")"
			}
			r.loopBodyAlways("C10-R3", "mintValidatorAwards/delete-after-mint", m, del, isNext, "store.Delete(iterator.Key()) of the minted entry")
		}
		// the loop advances with Next on the same iterator and closes it
		if len(CallsIn(f, "github.com/tendermint/tm-db.Iterator.Next")) == 0 {
			r.Viol("C10-R3", "mintValidatorAwards/advances", P.Pos(f.Pos()), "iterator.Next is never called")
		} else {
			r.OK("C10-R3", "mintValidatorAwards/advances", P.Pos(f.Pos()), "iterator advanced with Next")
		}
	}
	// award queue: written only by setValidatorAward (from AwardCoinsTo), deleted only by mintValidatorAwards/deleteValidatorAward
	checkStoreKeyWriters(r, "C10-R3", "x/pos/types", "AwardValidatorKey", []string{posK + "setValidatorAward", posK + "deleteValidatorAward", posK + "mintValidatorAwards"})
	if f := r.fn(posK + "AwardCoinsTo"); f != nil {
		if c := r.oneCall("C10-R3", "AwardCoinsTo", f, posK+"setValidatorAward"); c != nil {
			t := P.callTerm(c).String()
			want := posK + "setValidatorAward(param:k, param:ctx, (types.Int).Add(" + posK + "getValidatorAward(param:k, param:ctx, param:address)#0, param:amount), param:address)"
			r.Check(t == want, "C10-R3", "AwardCoinsTo/accumulates", P.InstrPos(c), t, "queued award is "+t+" ; required "+want)
		}
	}
	if f := r.fn(posK + "setValidatorAward"); f != nil {
		r.callersExactly("C10-R3", "setValidatorAward", r.edgesTo(f), []string{posK + "AwardCoinsTo"})
	}
	if f := r.fn(posK + "getValidatorAward"); f != nil {
		// rule V: not-found returns a usable zero Int
		for _, ret := range Returns(f) {
			c, _ := P.retClass(ret, 1)
			if c == "false" {
				t := P.TermAt(ret.Results[0], ret).String()
				r.Check(t == "types.ZeroInt()", "C10-R3", "getValidatorAward/absent-is-zero", P.InstrPos(ret), t, "absent award returns "+t+" (callers add to it without testing found) ; required types.ZeroInt()")
			}
		}
	}

	// ------------------------------------------------------------------ R4
	r.Rule("C10-R4", "rewardFromFees: moves the fee collector's whole balance to the pos module account, then (iff the previous proposer is a known validator) pays NewCoins(NewCoin(StakeDenom, thatBalance.AmountOf(StakeDenom))) from the pos module account to that validator's address; nothing leaves otherwise", 6)
	if f := r.fn(posK + "rewardFromFees"); f != nil {
		fees := "x/auth/exported.ModuleAccountI.GetCoins(" + posK + "getFeePool(param:k, param:ctx))"
		val := posK + "Validator(param:k, param:ctx, param:previousProposer)"
		if c := r.oneCall("C10-R4", "rewardFromFees", f, "x/pos/types.AuthKeeper.SendCoinsFromModuleToModule"); c != nil {
			t := P.callTerm(c).String()
			want := `x/pos/types.AuthKeeper.SendCoinsFromModuleToModule(param:k.authKeeper, param:ctx, "fee_collector", "pos", ` + fees + `)`
			r.Check(t == want, "C10-R4", "rewardFromFees/drain-collector", P.InstrPos(c), t, "collector drain is "+t+" ; required "+want)
			r.Check(len(P.Guards(c, 0)) == 0, "C10-R4", "rewardFromFees/drain-unconditional", P.InstrPos(c), "unconditional", "drain is conditional")
		}
		if c := r.oneCall("C10-R4", "rewardFromFees", f, "x/pos/types.AuthKeeper.SendCoinsFromModuleToAccount"); c != nil {
			t := P.callTerm(c).String()
			want := `x/pos/types.AuthKeeper.SendCoinsFromModuleToAccount(param:k.authKeeper, param:ctx, "pos", x/pos/exported.ValidatorI.GetAddress(` + val + `), types.NewCoins(list(types.NewCoin(` + posK + `StakeDenom(param:k, param:ctx), (types.Coins).AmountOf(` + fees + `, ` + posK + `StakeDenom(param:k, param:ctx))))))`
			r.Check(t == want, "C10-R4", "rewardFromFees/payout", P.InstrPos(c), t, "payout is "+t+" ; required "+want)
			r.requireAtoms("C10-R4", "rewardFromFees/payout", c, P.Guards(c, 0), []req{
				{"proposer-known", `^!isnil\(` + q(val) + `\)$`},
				{"drain-succeeded", `^isnil\(x/pos/types\.AuthKeeper\.SendCoinsFromModuleToModule\(`},
			})
			r.mustFollowEdge("C10-R4", "rewardFromFees/known-proposer-always-paid", f, `^!isnil\(`+q(val)+`\)$`, func(in ssa.Instruction) bool { return in == ssa.Instruction(c) }, nil, "the payout to the proposer")
		}
		// no other transfer in this function
		n := 0
		for _, nm := range calleeNames(f, true) {
			if strings.HasPrefix(nm, "x/pos/types.AuthKeeper.") && (strings.Contains(nm, "Send") || strings.Contains(nm, "Mint") || strings.Contains(nm, "Burn") || strings.Contains(nm, "SetCoins")) {
				n++
			}
		}
		r.Check(n == 2, "C10-R4", "rewardFromFees/only-two-transfers", P.Pos(f.Pos()), "exactly the drain and the payout move coins", "rewardFromFees now performs a different set of bank operations than {drain, payout}")
		r.callersExactly("C10-R4", "rewardFromFees", r.edgesTo(f), []string{"x/pos/keeper.BeginBlocker"})
	}
	if f := r.fn(posK + "getFeePool"); f != nil {
		for _, ret := range Returns(f) {
			t := P.TermAt(ret.Results[0], ret).String()
			r.Check(t == `x/pos/types.AuthKeeper.GetModuleAccount(param:k.authKeeper, param:ctx, "fee_collector")`, "C10-R4", "getFeePool", P.InstrPos(ret), t, "fee pool is "+t)
		}
	}

	// ------------------------------------------------------------------ R5
	r.Rule("C10-R5", "the fee collector is debited only by rewardFromFees: the constant FeeCollectorName reaches a bank sender/module argument only in rewardFromFees/getFeePool (pos) and as recipient in DeductFees/ante (auth)", 3)
	checkConstUsers(r, "C10-R5", "fee_collector", []string{
		"x/auth.NewAnteHandler$1", "x/auth.DeductFees", posK + "rewardFromFees", posK + "getFeePool",
		"(x/auth.AppModuleBasic).DefaultGenesis", "x/auth.InitGenesis", "x/auth/types.init",
	})
}

// checkConstUsers: every repo function whose SSA mentions the string constant val is in allowed.
func checkConstUsers(r *Run, rule, val string, allowed []string) {
	P := r.P
	allow := map[string]bool{}
	for _, a := range allowed {
		allow[a] = true
	}
	for _, fn := range P.RepoFns {
		var hit ssa.Instruction
		InstrsRaw(fn, func(in ssa.Instruction) {
			for _, op := range in.Operands(nil) {
				if c, ok := (*op).(*ssa.Const); ok && c.Value != nil && c.Value.ExactString() == `"`+val+`"` {
					hit = in
				}
			}
		})
		if hit == nil {
			continue
		}
		n := short(fn.String())
		// a helper introduced by a refactoring stands for its callers: the constant moved, its users did not
		if top := enclosingTop(fn); !allow[n] && P.isNewHelper(top) {
			var vetted func(f *ssa.Function, depth int) bool
			vetted = func(f *ssa.Function, depth int) bool {
				ins := P.CG().In[f]
				if len(ins) == 0 || depth > 3 {
					return false
				}
				for _, e := range ins {
					c := enclosingTop(e.Caller)
					if allow[short(c.String())] || allow[short(e.Caller.String())] {
						continue
					}
					if !P.isNewHelper(c) || !vetted(c, depth+1) {
						return false
					}
				}
				return true
			}
			if vetted(top, 0) {
				r.OK(rule, "const:"+val+"/user:"+n, P.InstrPos(hit), "new helper called only by vetted users")
				continue
			}
		}
		if allow[n] {
			r.OK(rule, "const:"+val+"/user:"+n, P.InstrPos(hit), "vetted user")
		} else {
			r.Viol(rule, "const:"+val+"/user:"+n, P.InstrPos(hit), n+" uses the module name \""+val+"\" but is not a vetted user {"+strings.Join(allowed, ", ")+"}")
		}
	}
}
