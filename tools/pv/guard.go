package main

import (
	"go/token"
	"go/types"
	"regexp"
	"sort"
	"strings"

	"golang.org/x/tools/go/ssa"
)

type domInfo struct{}

// Atom is one normalised branch condition together with the polarity under
// which the guarded code is reached.
type Atom struct {
	T   *Term
	Pos bool
	If  *ssa.If
	Via string // "" for a local guard, otherwise the callee chain it was inlined from
}

func (a Atom) String() string {
	s := a.T.String()
	if !a.Pos {
		s = "!" + s
	}
	if a.Via != "" {
		s += "  «via " + a.Via + "»"
	}
	return s
}

// Key is the atom without provenance.
func (a Atom) Key() string {
	s := a.T.String()
	if !a.Pos {
		s = "!" + s
	}
	return s
}

// condAtom normalises a boolean SSA value into (term, polarity):
// != becomes ==, >,>=,<= become <, x==nil becomes isnil(x), !x flips polarity.
func (P *Prog) condAtom(c ssa.Value, at ssa.Instruction) (*Term, bool) {
	pos := true
	for {
		if u, ok := c.(*ssa.UnOp); ok && u.Op == token.NOT {
			pos = !pos
			c = u.X
			continue
		}
		break
	}
	if b, ok := c.(*ssa.BinOp); ok {
		x := P.TermAt(b.X, b)
		y := P.TermAt(b.Y, b)
		mk := func(op string, l, r *Term) *Term {
			return &Term{Op: "binop", Name: op, Args: []*Term{l, r}, V: c, In: b}
		}
		switch b.Op {
		case token.EQL, token.NEQ:
			if b.Op == token.NEQ {
				pos = !pos
			}
			if isNilConst(y) {
				return &Term{Op: "call", Name: "isnil", Args: []*Term{x}, V: c, In: b}, pos
			}
			if isNilConst(x) {
				return &Term{Op: "call", Name: "isnil", Args: []*Term{y}, V: c, In: b}, pos
			}
			if y.Op == "const" && y.Name == "true" {
				return x, pos
			}
			if y.Op == "const" && y.Name == "false" {
				return x, !pos
			}
			// three-way comparisons: Cmp(a,b) == 1 is Cmp(b,a) == -1 is Cmp(b,a) < 0
			for _, pr := range [][2]*Term{{x, y}, {y, x}} {
				if isCmpCall(pr[0]) && pr[1].Op == "const" {
					switch pr[1].Name {
					case "-1":
						return mk("<", pr[0], constTerm("0")), pos
					case "1":
						return mk("<", swapCmp(pr[0]), constTerm("0")), pos
					}
				}
			}
			if x.String() > y.String() {
				x, y = y, x
			}
			return mk("==", x, y), pos
		case token.LSS:
			return cmpLess(mk, x, y, pos)
		case token.GTR:
			return cmpLess(mk, y, x, pos)
		case token.GEQ:
			return cmpLess(mk, x, y, !pos)
		case token.LEQ:
			return cmpLess(mk, y, x, !pos)
		}
	}
	t := P.TermAt(c, at)
	for t.Op == "unop" && t.Name == "!" && len(t.Args) == 1 {
		pos = !pos
		t = t.Args[0]
	}
	return t, pos
}

func constTerm(s string) *Term { return &Term{Op: "const", Name: s} }

func isCmpCall(t *Term) bool {
	return (t.Op == "call" || t.Op == "invoke") && len(t.Args) == 2 && (strings.HasSuffix(t.Name, ".Cmp") || strings.HasSuffix(t.Name, ".Compare"))
}

func swapCmp(t *Term) *Term {
	n := *t
	n.Args = []*Term{t.Args[1], t.Args[0]}
	return &n
}

// cmpLess renders x < y (with polarity); tests of a three-way comparison against 0 / ±1 get one spelling:
// 0 < Cmp(a,b) is Cmp(b,a) < 0 ; Cmp(a,b) < 1 is !(Cmp(b,a) < 0) ; -1 < Cmp(a,b) is !(Cmp(a,b) < 0).
func cmpLess(mk func(string, *Term, *Term) *Term, x, y *Term, pos bool) (*Term, bool) {
	if isCmpCall(y) && x.Op == "const" {
		switch x.Name {
		case "0":
			return mk("<", swapCmp(y), constTerm("0")), pos
		case "-1":
			return mk("<", y, constTerm("0")), !pos
		}
	}
	if isCmpCall(x) && y.Op == "const" && y.Name == "1" {
		return mk("<", swapCmp(x), constTerm("0")), !pos
	}
	// emptiness tests: a length is never negative, so 0 < len(x) is !(0 == len(x)) and len(x) < 1 is 0 == len(x)
	if isLenCall(y) && x.Op == "const" && x.Name == "0" {
		return mk("==", x, y), !pos
	}
	if isLenCall(x) && y.Op == "const" && y.Name == "1" {
		return mk("==", constTerm("0"), x), pos
	}
	return mk("<", x, y), pos
}

func isLenCall(t *Term) bool {
	return t.Op == "builtin" && (t.Name == "len" || t.Name == "cap") && len(t.Args) == 1
}

func isNilConst(t *Term) bool { return t.Op == "const" && t.Name == "nil" }

// condAtoms returns every atom established by cond c having the truth value pos.
// Besides the condition itself it expands short-circuit values materialised as a
// Phi: `a && b` is phi(false,…,b) — if it is true, control came through b's block
// (so every guard of that block holds) and b is true; `a || b` symmetrically for false.
func (P *Prog) condAtoms(c ssa.Value, at ssa.Instruction, pos bool, depth int) []Atom {
	flip := false
	v := c
	for {
		if u, ok := v.(*ssa.UnOp); ok && u.Op == token.NOT {
			flip = !flip
			v = u.X
			continue
		}
		break
	}
	want := pos != flip // required truth value of v
	t, p := P.condAtom(c, at)
	if !pos {
		p = !p
	}
	var ifi *ssa.If
	if x, ok := at.(*ssa.If); ok {
		ifi = x
	}
	out := []Atom{{T: t, Pos: p, If: ifi}}
	phi, ok := v.(*ssa.Phi)
	if !ok || depth > 4 {
		return out
	}
	// all constant edges must equal !want, exactly one non-constant edge
	idx := -1
	for i, e := range phi.Edges {
		if k, isC := e.(*ssa.Const); isC && k.Value != nil {
			if (k.Value.ExactString() == "true") == want {
				return out
			}
			continue
		}
		if idx >= 0 {
			return out
		}
		idx = i
	}
	if idx < 0 {
		return out
	}
	pred := phi.Block().Preds[idx]
	if len(pred.Instrs) > 0 {
		for _, a := range P.LocalGuards(pred.Instrs[len(pred.Instrs)-1]) {
			out = append(out, a)
		}
	}
	out = append(out, P.condAtoms(phi.Edges[idx], phi, want, depth+1)...)
	return out
}

// edgeFilter says whether CFG edge b -> b.Succs[i] may be used.
type edgeFilter func(b *ssa.BasicBlock, i int) bool

// reachBlock reports whether block to is reachable from block from using only permitted edges.
func reachBlock(from, to *ssa.BasicBlock, ok edgeFilter) bool {
	if from == to {
		return true
	}
	seen := map[*ssa.BasicBlock]bool{from: true}
	work := []*ssa.BasicBlock{from}
	for len(work) > 0 {
		b := work[len(work)-1]
		work = work[:len(work)-1]
		for i, s := range b.Succs {
			if ok != nil && !ok(b, i) {
				continue
			}
			if s == to {
				return true
			}
			if !seen[s] {
				seen[s] = true
				work = append(work, s)
			}
		}
	}
	return false
}

// LocalGuards returns the atoms that hold on every path from the entry of
// in's function to in (decided by single-edge cuts).
func (P *Prog) LocalGuards(in ssa.Instruction) []Atom {
	fn := in.Parent()
	if fn == nil || len(fn.Blocks) == 0 {
		return nil
	}
	out := P.guardsBetween(fn.Blocks[0], in.Block(), in)
	if site := helperSite(fn); site != nil && site.Parent() != fn {
		out = dedupeAtoms(append(out, P.LocalGuards(site)...))
		sort.Slice(out, func(i, j int) bool { return out[i].Key() < out[j].Key() })
	}
	return out
}

func (P *Prog) guardsBetween(from, to *ssa.BasicBlock, at ssa.Instruction) []Atom {
	fn := to.Parent()
	var out []Atom
	for _, b := range fn.Blocks {
		if len(b.Instrs) == 0 {
			continue
		}
		ifi, ok := b.Instrs[len(b.Instrs)-1].(*ssa.If)
		if !ok || len(b.Succs) != 2 || b.Succs[0] == b.Succs[1] {
			continue
		}
		if !reachBlock(from, b, nil) {
			continue
		}
		for side := 0; side < 2; side++ {
			cut := func(x *ssa.BasicBlock, i int) bool { return !(x == b && i == side) }
			if b == to {
				continue
			}
			if !reachBlock(from, to, cut) {
				out = append(out, P.condAtoms(ifi.Cond, ifi, side == 0, 0)...)
			}
		}
	}
	// switch-style chains: a "default" arm is reached only through the false edges of all case tests; covered by the loop above.
	out = dedupeAtoms(out)
	sort.Slice(out, func(i, j int) bool { return out[i].Key() < out[j].Key() })
	return out
}

// RequiresCut: is target unreachable from block from once every edge selected by cutEdge is removed?
// cutEdge receives the normalised atom established by taking that edge. An edge that tests the success of a
// repo callee (err == nil, ok == true) also counts as cut when every success return of that callee is itself
// reachable only across cut edges (atoms translated to the caller by substituting arguments for parameters):
// a check that was extracted into a helper function is still seen.
func (P *Prog) RequiresCut(from, target *ssa.BasicBlock, cutEdge func(a Atom) bool) bool {
	return P.requiresCutDepth(from, target, cutEdge, 3)
}

func (P *Prog) requiresCutDepth(from, target *ssa.BasicBlock, cutEdge func(a Atom) bool, depth int) bool {
	if from == target {
		return false
	}
	filter := func(b *ssa.BasicBlock, i int) bool {
		if len(b.Instrs) == 0 {
			return true
		}
		ifi, ok := b.Instrs[len(b.Instrs)-1].(*ssa.If)
		if !ok || len(b.Succs) != 2 {
			return true
		}
		atoms := P.condAtoms(ifi.Cond, ifi, i == 0, 0)
		for _, a := range atoms {
			if cutEdge(a) {
				return false
			}
		}
		if depth > 0 {
			for _, a := range atoms {
				if P.calleeEstablishes(a, cutEdge, depth-1) {
					return false
				}
			}
		}
		if P.phiDisjunctionCut(b, ifi, i == 0, cutEdge, depth) {
			return false
		}
		return true
	}
	return !reachBlock(from, target, filter)
}

// phiDisjunctionCut: the branch tests a materialised boolean (tmp := a || b; if tmp …). Taking the edge on which
// the Phi has truth value want counts as a cut when every way the Phi can obtain that value is itself a cut:
// a constant incoming edge must come from a predecessor branch establishing a cut atom, a computed incoming
// value must establish one.
func (P *Prog) phiDisjunctionCut(b *ssa.BasicBlock, ifi *ssa.If, takenTrue bool, cutEdge func(Atom) bool, depth int) bool {
	c := ifi.Cond
	neg := false
	for {
		if u, ok := c.(*ssa.UnOp); ok && u.Op == token.NOT {
			neg = !neg
			c = u.X
			continue
		}
		break
	}
	phi, ok := c.(*ssa.Phi)
	if !ok {
		return false
	}
	want := takenTrue != neg
	pb := phi.Block()
	n := 0
	for i, e := range phi.Edges {
		if i >= len(pb.Preds) {
			return false
		}
		pred := pb.Preds[i]
		if k, isC := e.(*ssa.Const); isC && k.Value != nil {
			if (k.Value.ExactString() == "true") != want {
				continue
			}
			// the edge pred -> pb must be established by a cut atom
			pif, ok := pred.Instrs[len(pred.Instrs)-1].(*ssa.If)
			if !ok || len(pred.Succs) != 2 {
				return false
			}
			matched := false
			for j, s := range pred.Succs {
				if s != pb {
					continue
				}
				for _, a := range P.condAtoms(pif.Cond, pif, j == 0, 0) {
					if cutEdge(a) || (depth > 0 && P.calleeEstablishes(a, cutEdge, depth-1)) {
						matched = true
					}
				}
			}
			if !matched {
				return false
			}
			n++
			continue
		}
		matched := false
		for _, a := range P.condAtoms(e, phi, want, 0) {
			if cutEdge(a) || (depth > 0 && P.calleeEstablishes(a, cutEdge, depth-1)) {
				matched = true
			}
		}
		if !matched {
			return false
		}
		n++
	}
	return n > 0
}

// atomCallee decodes an atom that speaks about the result of a repo callee: (call term, result index, wanted class).
func (P *Prog) atomCallee(a Atom) (*Term, int, string) {
	t := a.T
	want := ""
	var callT *Term
	switch {
	case t.Op == "call" && t.Name == "isnil" && a.Pos:
		want = "nil"
		callT = t.Args[0]
	case t.Op == "call" && t.Name == "isnil":
		return nil, 0, ""
	case a.Pos:
		want = "true"
		callT = t
	default:
		return nil, 0, ""
	}
	idx := 0
	if callT.Op == "extract" {
		n := 0
		for _, ch := range callT.Name {
			n = n*10 + int(ch-'0')
		}
		idx = n
		callT = callT.Args[0]
	}
	if callT.Op != "call" {
		return nil, 0, ""
	}
	return callT, idx, want
}

func (P *Prog) calleeEstablishes(a Atom, cutEdge func(Atom) bool, depth int) bool {
	callT, idx, want := P.atomCallee(a)
	if callT == nil {
		return false
	}
	callee := P.Fn(callT.Name)
	if callee == nil || len(callee.Blocks) == 0 {
		return false
	}
	m := map[string]*Term{}
	for i, p := range callee.Params {
		if i < len(callT.Args) {
			m[pinnedParamName(p)] = callT.Args[i]
		}
	}
	sub := func(x Atom) bool { return cutEdge(Atom{T: x.T.Subst(m), Pos: x.Pos, If: x.If}) }
	n := 0
	for _, r := range Returns(callee) {
		cls, _ := P.retClass(r, idx)
		if cls != want && cls != "unknown" {
			continue
		}
		n++
		if !P.requiresCutDepth(callee.Blocks[0], r.Block(), sub, depth) {
			return false
		}
	}
	return n > 0
}

// ValueAlternatives expands a term that is the result of a small repo helper into the terms that helper can
// return on its success returns (arguments substituted for parameters), recursively; phi alternatives are split.
func (P *Prog) ValueAlternatives(t *Term, depth int) []*Term {
	if t == nil {
		return nil
	}
	if t.Op == "phi" {
		var out []*Term
		for _, a := range t.Args {
			out = append(out, P.ValueAlternatives(a, depth)...)
		}
		return out
	}
	if depth <= 0 {
		return []*Term{t}
	}
	callT, idx := t, 0
	if t.Op == "extract" {
		n := 0
		for _, ch := range t.Name {
			n = n*10 + int(ch-'0')
		}
		idx = n
		callT = t.Args[0]
	}
	if callT.Op != "call" {
		return []*Term{t}
	}
	callee := P.Fn(callT.Name)
	if callee == nil || len(callee.Blocks) == 0 || len(callee.Blocks) > 12 {
		return []*Term{t}
	}
	m := map[string]*Term{}
	for i, p := range callee.Params {
		if i < len(callT.Args) {
			m[pinnedParamName(p)] = callT.Args[i]
		}
	}
	eidx, _ := errIndex(callee.Signature)
	var out []*Term
	for _, r := range Returns(callee) {
		if eidx >= 0 && eidx != idx {
			if cls, _ := P.retClass(r, eidx); cls == "nonnil" {
				continue
			}
		}
		if idx >= len(r.Results) {
			continue
		}
		rt := P.TermAt(r.Results[idx], r).Subst(m)
		out = append(out, P.ValueAlternatives(rt, depth-1)...)
	}
	if len(out) == 0 {
		return []*Term{t}
	}
	return out
}

// ---------------------------------------------------------------------------
// return classification and validator inlining

var errCtorRe = regexp.MustCompile(`(\.|^)(Err[A-Z_]\w*|Errorf|New|NewError|Wrap|Wrapf|newError|AppendMsgToErr)$`)

// retClass classifies result idx of a return: "nil", "nonnil", "true", "false" or "unknown".
func (P *Prog) retClass(r *ssa.Return, idx int) (string, *Term) {
	if idx >= len(r.Results) {
		return "unknown", nil
	}
	t := P.TermAt(r.Results[idx], r)
	switch {
	case t.Op == "const" && t.Name == "nil":
		return "nil", t
	case t.Op == "const" && t.Name == "true":
		return "true", t
	case t.Op == "const" && t.Name == "false":
		return "false", t
	case t.Op == "zero":
		// named result never assigned on this path
		if isPointerLike(r.Results[idx].Type()) {
			return "nil", t
		}
		if b := r.Results[idx].Type().Underlying().String(); b == "bool" {
			return "false", t
		}
		return "unknown", t
	case t.Op == "call" && errCtorRe.MatchString(t.Name):
		return "nonnil", t
	case t.Op == "invoke" && (strings.HasSuffix(t.Name, ".Result") || strings.HasSuffix(t.Name, ".TraceSDK") || strings.HasSuffix(t.Name, ".WithDefaultCodespace")):
		return "nonnil", t
	}
	// tested non-nil on the way to this return?
	for _, a := range P.LocalGuards(r) {
		if a.T.Op == "call" && a.T.Name == "isnil" && a.T.Args[0].String() == t.String() {
			if a.Pos {
				return "nil", t
			}
			return "nonnil", t
		}
		if a.T.String() == t.String() {
			if a.Pos {
				return "true", t
			}
			return "false", t
		}
	}
	return "unknown", t
}

// Returns lists the Return instructions of fn.
func Returns(fn *ssa.Function) []*ssa.Return {
	var out []*ssa.Return
	for _, b := range fn.Blocks {
		if b != fn.Blocks[0] && !reachBlock(fn.Blocks[0], b, nil) {
			continue // recover block / dead code
		}
		if len(b.Instrs) > 0 {
			if r, ok := b.Instrs[len(b.Instrs)-1].(*ssa.Return); ok {
				out = append(out, r)
			}
		}
	}
	return out
}

// SuccessCond computes the atoms that hold on every return of fn on which
// result idx may have the wanted class ("nil" or "true"), expressed over fn's
// parameters; unknown-class returns count as success (conservative).
func (P *Prog) SuccessCond(fn *ssa.Function, idx int, want string, depth int) (atoms []Atom, nSuccess int) {
	var sets [][]Atom
	for _, r := range Returns(fn) {
		cls, _ := P.retClass(r, idx)
		if cls == want || cls == "unknown" {
			sets = append(sets, P.Guards(r, depth))
		}
	}
	if len(sets) == 0 {
		return nil, 0
	}
	count := map[string]int{}
	first := map[string]Atom{}
	for _, s := range sets {
		seen := map[string]bool{}
		for _, a := range s {
			k := a.Key()
			if !seen[k] {
				seen[k] = true
				count[k]++
				if _, ok := first[k]; !ok {
					first[k] = a
				}
			}
		}
	}
	for k, c := range count {
		if c == len(sets) {
			atoms = append(atoms, first[k])
		}
	}
	sort.Slice(atoms, func(i, j int) bool { return atoms[i].Key() < atoms[j].Key() })
	return atoms, len(sets)
}

// Guards = local guards of in plus, for every guard that tests the result of a
// repo callee (err == nil, ok == true), the callee's success condition with
// parameters substituted by the actual arguments (depth-bounded).
func (P *Prog) Guards(in ssa.Instruction, depth int) []Atom {
	local := P.LocalGuards(in)
	// `return f(x)` in a function with an error-like result: the return is a success return exactly when the
	// call succeeded, i.e. it is equivalent to `err := f(x); if err != nil { return err }; return nil`
	if ret, ok := in.(*ssa.Return); ok && ret.Parent() != nil {
		if idx, _ := errIndex(ret.Parent().Signature); idx >= 0 && idx < len(ret.Results) {
			if c, t := P.retClass(ret, idx); c == "unknown" && t != nil && (t.Op == "call" || t.Op == "invoke" || t.Op == "extract") {
				local = append(append([]Atom{}, local...), Atom{T: &Term{Op: "call", Name: "isnil", Args: []*Term{t}}, Pos: true})
			}
		}
	}
	out := append([]Atom{}, local...)
	if depth <= 0 {
		return out
	}
	for _, a := range local {
		out = append(out, P.inlineAtom(a, depth)...)
	}
	return dedupeAtoms(out)
}

func dedupeAtoms(as []Atom) []Atom {
	seen := map[string]bool{}
	var out []Atom
	for _, a := range as {
		k := a.Key()
		if !seen[k] {
			seen[k] = true
			out = append(out, a)
		}
	}
	return out
}

// inlineAtom expands a guard on a callee's result into the callee's success condition.
func (P *Prog) inlineAtom(a Atom, depth int) []Atom {
	t := a.T
	want := ""
	var callT *Term
	idx := 0
	switch {
	case t.Op == "call" && t.Name == "isnil" && a.Pos:
		want = "nil"
		callT = t.Args[0]
	case a.Pos:
		want = "true"
		callT = t
	case !a.Pos:
		want = "false"
		callT = t
	}
	if callT == nil {
		return nil
	}
	if callT.Op == "extract" {
		var n int
		for _, ch := range callT.Name {
			n = n*10 + int(ch-'0')
		}
		idx = n
		callT = callT.Args[0]
	}
	if callT.Op != "call" {
		return nil
	}
	callee := P.Fn(callT.Name)
	if callee == nil || len(callee.Blocks) == 0 {
		return nil
	}
	if eq := P.boolEquiv(a); len(eq) > 0 {
		return eq
	}
	if want == "false" {
		// a predicate known false: only useful for tiny predicates; expand "every true-return is excluded" is not sound in general
		return nil
	}
	// a helper introduced by a refactoring is rendered over the values of the call site this atom comes from (it
	// may have several call sites)
	if c, ok := callT.V.(*ssa.Call); ok && staticCallee(&c.Call) == callee && c.Parent() != callee && P.isNewHelper(callee) {
		prev, had := helperCtx[callee]
		setHelperCtx(callee, c)
		defer func() {
			if had {
				helperCtx[callee] = prev
			} else {
				delete(helperCtx, callee)
			}
		}()
	}
	atoms, n := P.SuccessCond(callee, idx, want, depth-1)
	if n == 0 {
		return nil
	}
	// substitute parameters
	m := map[string]*Term{}
	for i, p := range callee.Params {
		if i < len(callT.Args) {
			m[pinnedParamName(p)] = callT.Args[i]
		}
	}
	var out []Atom
	for _, x := range atoms {
		via := short(callee.String())
		if x.Via != "" {
			via = via + " → " + x.Via
		}
		out = append(out, Atom{T: x.T.Subst(m), Pos: x.Pos, If: x.If, Via: via})
	}
	return out
}

// HasAtom reports whether some atom matches the regular expression (on Key()).
func HasAtom(as []Atom, re string) (bool, string) {
	r := regexp.MustCompile(re)
	for _, a := range as {
		if r.MatchString(a.Key()) {
			return true, a.String()
		}
	}
	return false, ""
}

func atomStrings(as []Atom) []string {
	var out []string
	for _, a := range as {
		out = append(out, a.String())
	}
	return out
}

// ---------------------------------------------------------------------------
// instruction-level path queries (E3)

type ipos struct {
	b *ssa.BasicBlock
	i int
}

func instrIndex(in ssa.Instruction) ipos {
	b := in.Block()
	for i, x := range b.Instrs {
		if x == in {
			return ipos{b, i}
		}
	}
	return ipos{b, 0}
}

// ReachWithout reports whether some path that starts right after from (or at
// the function entry when from is nil) reaches an instruction satisfying target
// without first executing one satisfying avoid. It returns a witness target.
func ReachWithout(fn *ssa.Function, from ssa.Instruction, target, avoid func(ssa.Instruction) bool, ok edgeFilter) (bool, ssa.Instruction, []*ssa.BasicBlock) {
	if len(fn.Blocks) == 0 {
		return false, nil, nil
	}
	start := ipos{fn.Blocks[0], 0}
	if from != nil {
		p := instrIndex(from)
		start = ipos{p.b, p.i + 1}
	}
	return reachWithoutFrom(start, target, avoid, ok)
}

// ReachFromBlock is ReachWithout starting at the first instruction of block b.
func ReachFromBlock(b *ssa.BasicBlock, target, avoid func(ssa.Instruction) bool, ok edgeFilter) (bool, ssa.Instruction, []*ssa.BasicBlock) {
	return reachWithoutFrom(ipos{b, 0}, target, avoid, ok)
}

func reachWithoutFrom(start ipos, target, avoid func(ssa.Instruction) bool, ok edgeFilter) (bool, ssa.Instruction, []*ssa.BasicBlock) {
	return reachWithoutFromPred(start, nil, target, avoid, ok)
}

// phiBranchTarget: block b was entered from pred; if b branches on a boolean Phi (possibly negated) defined in b
// whose incoming value along that edge is a constant, only one successor is feasible: return its index, else -1.
func phiBranchTarget(b, pred *ssa.BasicBlock) int {
	if pred == nil || len(b.Instrs) == 0 || len(b.Succs) != 2 {
		return -1
	}
	ifi, ok := b.Instrs[len(b.Instrs)-1].(*ssa.If)
	if !ok {
		return -1
	}
	c := ifi.Cond
	neg := false
	for {
		if u, ok := c.(*ssa.UnOp); ok && u.Op == token.NOT {
			neg = !neg
			c = u.X
			continue
		}
		break
	}
	phi, ok := c.(*ssa.Phi)
	if !ok || phi.Block() != b {
		return -1
	}
	for i, p := range b.Preds {
		if p == pred && i < len(phi.Edges) {
			if k, isC := phi.Edges[i].(*ssa.Const); isC && k.Value != nil {
				v := k.Value.ExactString() == "true"
				if neg {
					v = !v
				}
				if v {
					return 0
				}
				return 1
			}
		}
	}
	return -1
}

func reachWithoutFromPred(start ipos, startPred *ssa.BasicBlock, target, avoid func(ssa.Instruction) bool, ok edgeFilter) (bool, ssa.Instruction, []*ssa.BasicBlock) {
	// The traversal is interprocedural for helpers introduced by a refactoring (helperctx.go): a static call to a new
	// helper descends into its body and resumes after the call at the helper's returns; a traversal that starts
	// inside a new helper continues after the helper's context call site when it reaches a return.
	type item struct {
		b     *ssa.BasicBlock
		pred  *ssa.BasicBlock
		from  int
		stack []ipos // positions to resume at when the current helper returns
	}
	type key struct {
		b, pred *ssa.BasicBlock
		from    int
	}
	parent := map[*ssa.BasicBlock]*ssa.BasicBlock{}
	seen := map[key]bool{}
	work := []item{{start.b, startPred, start.i, nil}}
	first := true
	steps := 0
	for len(work) > 0 {
		it := work[0]
		work = work[1:]
		steps++
		if steps > 200000 {
			break
		}
		if !first {
			k := key{it.b, it.pred, it.from}
			if seen[k] {
				continue
			}
			seen[k] = true
		} else if it.from == 0 {
			seen[key{it.b, it.pred, 0}] = true
		}
		first = false
		blocked := false
		suspended := false
		for i := it.from; i < len(it.b.Instrs); i++ {
			in := it.b.Instrs[i]
			if ret, isRet := in.(*ssa.Return); isRet {
				// return of a helper we descended into, or of a helper standing for its caller
				if n := len(it.stack); n > 0 {
					top := it.stack[n-1]
					work = append(work, item{top.b, nil, top.i, it.stack[:n-1]})
					suspended = true
					break
				}
				if site := helperSite(ret.Parent()); site != nil {
					p := instrIndex(site)
					work = append(work, item{p.b, nil, p.i + 1, nil})
					suspended = true
					break
				}
			}
			if avoid != nil && avoid(in) {
				blocked = true
				break
			}
			if target(in) {
				var path []*ssa.BasicBlock
				for b := it.b; b != nil; b = parent[b] {
					path = append([]*ssa.BasicBlock{b}, path...)
					if b == start.b || len(path) > 64 {
						break
					}
				}
				return true, in, path
			}
			if c, isCall := in.(*ssa.Call); isCall && len(it.stack) < 3 {
				if h := staticCallee(&c.Call); h != nil && h != it.b.Parent() && len(h.Blocks) > 0 && isNewHelperFn(h) {
					onStack := false
					for _, sp := range it.stack {
						if sp.b.Parent() == h {
							onStack = true
						}
					}
					if !onStack {
						if _, has := parent[h.Blocks[0]]; !has {
							parent[h.Blocks[0]] = it.b
						}
						st := append(append([]ipos{}, it.stack...), ipos{it.b, i + 1})
						work = append(work, item{h.Blocks[0], nil, 0, st})
						suspended = true
						break
					}
				}
			}
		}
		if blocked || suspended {
			continue
		}
		only := -1
		if it.from == 0 {
			only = phiBranchTarget(it.b, it.pred)
		}
		for i, s := range it.b.Succs {
			if only >= 0 && i != only {
				continue
			}
			if ok != nil && !ok(it.b, i) {
				continue
			}
			if !seen[key{s, it.b, 0}] {
				if _, has := parent[s]; !has && s != start.b {
					parent[s] = it.b
				}
				work = append(work, item{s, it.b, 0, it.stack})
			}
		}
	}
	return false, nil, nil
}

// ReachFromEdge is ReachWithout starting at the successor reached by taking edge b -> b.Succs[i].
func ReachFromEdge(b *ssa.BasicBlock, i int, target, avoid func(ssa.Instruction) bool, ok edgeFilter) (bool, ssa.Instruction, []*ssa.BasicBlock) {
	return reachWithoutFromPred(ipos{b.Succs[i], 0}, b, target, avoid, ok)
}

func isReturn(in ssa.Instruction) bool { _, ok := in.(*ssa.Return); return ok }

// Precedes: every path from entry to b executes a first (a dominates b at instruction level).
func Precedes(a, b ssa.Instruction) bool {
	fn := rootOf(b.Parent())
	reach, _, _ := ReachWithout(fn, nil, func(x ssa.Instruction) bool { return x == b }, func(x ssa.Instruction) bool { return x == a }, nil)
	return !reach
}

// AlwaysFollowedBy: every path from a to a Return executes some instruction satisfying pred.
func AlwaysFollowedBy(a ssa.Instruction, pred func(ssa.Instruction) bool) (bool, ssa.Instruction) {
	fn := a.Parent()
	reach, w, _ := ReachWithout(fn, a, isReturn, pred, nil)
	return !reach, w
}

// CallTo builds a predicate matching calls (call/defer/go) whose resolved callee name has one of the suffixes.
func CallTo(suffixes ...string) func(ssa.Instruction) bool {
	return func(in ssa.Instruction) bool {
		ci, ok := in.(ssa.CallInstruction)
		if !ok {
			return false
		}
		_, name := calleeName(ci.Common())
		for _, s := range suffixes {
			if strings.HasSuffix(name, s) {
				return true
			}
		}
		return false
	}
}

// CallsIn returns the call instructions of fn (not its closures) matching the name suffix.
func CallsIn(fn *ssa.Function, suffix string) []ssa.CallInstruction {
	var out []ssa.CallInstruction
	if fn == nil {
		return nil
	}
	pred := CallTo(suffix)
	Instrs(fn, func(in ssa.Instruction) {
		if pred(in) {
			out = append(out, in.(ssa.CallInstruction))
		}
	})
	return out
}

// blockPathString renders a block path with source lines for reports.
func (P *Prog) blockPathString(path []*ssa.BasicBlock) string {
	var ss []string
	for _, b := range path {
		line := "-"
		for _, in := range b.Instrs {
			if in.Pos().IsValid() {
				line = P.Pos(in.Pos())
				break
			}
		}
		ss = append(ss, line)
	}
	return strings.Join(ss, " → ")
}

// EdgeGuards: atoms that hold whenever the CFG edge pred→pred.Succs[k] is taken.
func (P *Prog) EdgeGuards(pred *ssa.BasicBlock, k int) []Atom {
	if len(pred.Instrs) == 0 {
		return nil
	}
	term := pred.Instrs[len(pred.Instrs)-1]
	out := append([]Atom{}, P.LocalGuards(term)...)
	if ifi, ok := term.(*ssa.If); ok && len(pred.Succs) == 2 && pred.Succs[0] != pred.Succs[1] {
		out = append(out, P.condAtoms(ifi.Cond, ifi, k == 0, 0)...)
	}
	return dedupeAtoms(out)
}

var retAltBusy = map[*ssa.Function]bool{}

// RetAlt is one way a function produces result #idx: the value and the atoms that hold when it is produced.
type RetAlt struct {
	T   *Term
	G   []Atom
	Ret *ssa.Return
}

// RetAlternatives lists the alternatives of result idx independent of whether the function is written with a
// single return of a merged variable or with early returns: a returned Phi is split into its incoming values,
// each with the guards of its incoming edge.
func (P *Prog) RetAlternatives(f *ssa.Function, idx int) []RetAlt {
	var out []RetAlt
	for _, ret := range Returns(f) {
		if idx >= len(ret.Results) {
			continue
		}
		// a return that several branches jump to (`if a || b || c { return false }`): one alternative per incoming
		// edge, each with the guards of its edge, as if every disjunct had its own return
		if edges := P.retEntryEdges(ret); len(edges) > 1 {
			if _, isPhi := ret.Results[idx].(*ssa.Phi); !isPhi || ret.Results[idx].(*ssa.Phi).Block() != ret.Block() {
				for _, e := range edges {
					P.expandAlts(ret.Results[idx], ret, e, ret, 0, f, &out)
				}
				continue
			}
		}
		P.expandAlts(ret.Results[idx], ret, P.LocalGuards(ret), ret, 0, f, &out)
	}
	return out
}

// retEntryEdges: when the block of ret holds nothing but the return (and value-free jumps lead to it), the guard
// sets of the edges entering it; nil when the block does more than return or has a single entry.
func (P *Prog) retEntryEdges(ret *ssa.Return) [][]Atom {
	b := ret.Block()
	if len(b.Preds) < 2 || len(b.Preds) > 6 {
		return nil
	}
	// the block may build the returned value (an error constructor, a conversion) — that runs whichever edge was
	// taken; it must not merge values (Phi) or have effects of its own that a rule could attribute to one edge only
	for _, in := range b.Instrs[:len(b.Instrs)-1] {
		switch x := in.(type) {
		case *ssa.MakeInterface, *ssa.ChangeInterface, *ssa.ChangeType, *ssa.Convert, *ssa.Extract, *ssa.FieldAddr, *ssa.Field, *ssa.UnOp, *ssa.BinOp, *ssa.DebugRef, *ssa.Slice, *ssa.IndexAddr, *ssa.Alloc, *ssa.Store:
		case *ssa.Call:
			g := staticCallee(&x.Call)
			if g == nil && x.Call.IsInvoke() {
				if n := x.Call.Method.Name(); n == "String" || n == "Error" || n == "Result" {
					continue
				}
			}
			if g == nil || !(errCtorRe.MatchString(g.Name()) || g.Name() == "Sprintf" || g.Name() == "String") {
				return nil
			}
		default:
			return nil
		}
	}
	var out [][]Atom
	for _, p := range b.Preds {
		k := 0
		for j, s := range p.Succs {
			if s == b {
				k = j
			}
		}
		out = append(out, P.EdgeGuards(p, k))
	}
	return out
}

// Alternatives lists the ways value v, used by instruction at, is produced (see RetAlternatives): a merged value is
// split into its incoming values with the guards of their edges, the result of a helper introduced by a refactoring
// into that helper's return alternatives.
func (P *Prog) Alternatives(v ssa.Value, at ssa.Instruction) []RetAlt {
	var out []RetAlt
	P.expandAlts(v, at, P.LocalGuards(at), nil, 0, at.Parent(), &out)
	return out
}

func (P *Prog) expandAlts(v ssa.Value, at ssa.Instruction, g []Atom, ret *ssa.Return, depth int, f *ssa.Function, out *[]RetAlt) {
	if phi, ok := v.(*ssa.Phi); ok && depth < 4 {
		pb := phi.Block()
		for i, e := range phi.Edges {
			if i >= len(pb.Preds) {
				continue
			}
			p := pb.Preds[i]
			k := 0
			for j, s := range p.Succs {
				if s == pb {
					k = j
				}
			}
			P.expandAlts(e, phi, dedupeAtoms(append(append([]Atom{}, g...), P.EdgeGuards(p, k)...)), ret, depth+1, f, out)
		}
		return
	}
	// `return helper(x)` / `v, err := helper(x) … return v, err` with a helper introduced by a refactoring: the
	// alternatives are the helper's, rendered over this function's values
	var call *ssa.Call
	ridx := 0
	if ex, ok := v.(*ssa.Extract); ok {
		if c, ok := ex.Tuple.(*ssa.Call); ok {
			call, ridx = c, ex.Index
		}
	} else if c, ok := v.(*ssa.Call); ok {
		call = c
	}
	if call != nil && depth < 4 {
		if h := staticCallee(&call.Call); h != nil && h != f && !retAltBusy[h] && P.isNewHelper(h) && ridx < h.Signature.Results().Len() {
			prev, had := helperCtx[h]
			setHelperCtx(h, call)
			retAltBusy[h] = true
			sub := P.RetAlternatives(h, ridx)
			delete(retAltBusy, h)
			if had {
				helperCtx[h] = prev
			} else {
				delete(helperCtx, h)
			}
			if len(sub) > 0 {
				for _, a := range sub {
					*out = append(*out, RetAlt{a.T, dedupeAtoms(append(append([]Atom{}, g...), a.G...)), ret})
				}
				return
			}
		}
	}
	*out = append(*out, RetAlt{P.TermAt(v, at), g, ret})
}

// StoredAlternatives lists the ways value v (used by instruction at) is produced. A call to a single-result helper
// introduced by a refactoring is split into the helper's return alternatives, rendered over the caller's values
// with the guards of the call site added (`x = orDefault(x)` reads like `if x == 0 { x = def }`); any other value
// is its own single alternative under the guards of at.
func (P *Prog) StoredAlternatives(v ssa.Value, at ssa.Instruction) []RetAlt {
	if c, ok := v.(*ssa.Call); ok {
		if h := staticCallee(&c.Call); h != nil && h != c.Parent() && P.isNewHelper(h) && h.Signature.Results().Len() == 1 {
			prev, had := helperCtx[h]
			setHelperCtx(h, c)
			alts := P.RetAlternatives(h, 0)
			if had {
				helperCtx[h] = prev
			} else {
				delete(helperCtx, h)
			}
			if len(alts) > 0 {
				for i := range alts {
					alts[i].G = dedupeAtoms(append(append([]Atom{}, alts[i].G...), P.Guards(at, 0)...))
				}
				return alts
			}
		}
	}
	return []RetAlt{{T: P.TermAt(v, at), G: P.Guards(at, 0)}}
}

// boolEquiv: a test delegated to a single-return boolean function of the repo is equivalent to that function's
// return expression (g.IsPastLimit() ≡ g.consumed > g.limit); both polarities translate.
func (P *Prog) boolEquiv(a Atom) []Atom {
	callT := a.T
	idx := 0
	if callT.Op == "extract" {
		var n int
		for _, ch := range callT.Name {
			n = n*10 + int(ch-'0')
		}
		idx = n
		callT = callT.Args[0]
	}
	if callT.Op != "call" || callT.Name == "isnil" {
		return nil
	}
	callee := P.Fn(callT.Name)
	if callee == nil || len(callee.Blocks) == 0 {
		return nil
	}
	rets := Returns(callee)
	if len(rets) != 1 || idx >= len(rets[0].Results) {
		return nil
	}
	bt, ok := rets[0].Results[idx].Type().Underlying().(*types.Basic)
	if !ok || bt.Kind() != types.Bool {
		return nil
	}
	m := map[string]*Term{}
	for i, p := range callee.Params {
		if i < len(callT.Args) {
			m[pinnedParamName(p)] = callT.Args[i]
		}
	}
	var out []Atom
	for _, x := range P.condAtoms(rets[0].Results[idx], rets[0], a.Pos, 0) {
		if x.T.Op == "phi" {
			continue
		}
		out = append(out, Atom{T: x.T.Subst(m), Pos: x.Pos, If: a.If, Via: short(callee.String())})
	}
	return out
}

// GuardsStable: the local guards of in, with success conditions inlined only through helpers introduced by a
// refactoring (so that extracting a check changes nothing), and without atoms that mention merged or loop-carried
// values (their spelling depends on the loop form and on SSA numbering). Used by the table-driven monotonicity rules.
func (P *Prog) GuardsStable(in ssa.Instruction) []string {
	seen := map[string]bool{}
	var out []string
	add := func(a Atom) {
		k := canonAtom(a.Key())
		if strings.Contains(k, "phi(") || strings.Contains(k, "loop") || strings.Contains(k, "next(range(") {
			return
		}
		if !seen[k] {
			seen[k] = true
			out = append(out, k)
		}
	}
	var expand func(a Atom, depth int)
	expand = func(a Atom, depth int) {
		add(a)
		if depth > 3 {
			return
		}
		if f := P.atomCalleeFn(a); f != nil && P.isNewHelper(enclosingTop(f)) {
			for _, x := range P.inlineAtom(a, 1) {
				expand(x, depth+1)
			}
		}
	}
	for _, a := range P.LocalGuards(in) {
		expand(a, 0)
	}
	// `return f(x)`: implicit success atom (see Guards)
	if ret, ok := in.(*ssa.Return); ok && ret.Parent() != nil {
		if idx, _ := errIndex(ret.Parent().Signature); idx >= 0 && idx < len(ret.Results) {
			if c, t := P.retClass(ret, idx); c == "unknown" && t != nil && (t.Op == "call" || t.Op == "invoke" || t.Op == "extract") {
				expand(Atom{T: &Term{Op: "call", Name: "isnil", Args: []*Term{t}}, Pos: true}, 0)
			}
		}
	}
	sort.Strings(out)
	return dropImpliedLiteralTests(out)
}

var litEqSplitRe = regexp.MustCompile(`^(!?)\(("[^"]*"|-?\d+) == (.*)\)$|^(!?)\((.*) == ("[^"]*"|-?\d+)\)$`)

// dropImpliedLiteralTests: under x == "a", every x != "b" is implied; the negative tests a `case` inherits from the
// cases written before it therefore say nothing (and change when disjoint cases are reordered).
func dropImpliedLiteralTests(atoms []string) []string {
	type lit struct {
		neg    bool
		val, x string
	}
	parse := func(a string) (lit, bool) {
		m := litEqSplitRe.FindStringSubmatch(a)
		if m == nil {
			return lit{}, false
		}
		if m[2] != "" {
			return lit{m[1] == "!", m[2], m[3]}, true
		}
		return lit{m[4] == "!", m[6], m[5]}, true
	}
	pos := map[string]string{} // x -> literal it equals
	for _, a := range atoms {
		if l, ok := parse(a); ok && !l.neg {
			pos[l.x] = l.val
		}
	}
	if len(pos) == 0 {
		return atoms
	}
	var out []string
	for _, a := range atoms {
		if l, ok := parse(a); ok && l.neg {
			if v, has := pos[l.x]; has && v != l.val {
				continue
			}
		}
		out = append(out, a)
	}
	return out
}

// atomCalleeFn: the repo function whose result the atom tests (nil when it tests something else).
func (P *Prog) atomCalleeFn(a Atom) *ssa.Function {
	t := a.T
	if t.Op == "call" && t.Name == "isnil" && len(t.Args) == 1 {
		t = t.Args[0]
	}
	if t.Op == "extract" && len(t.Args) == 1 {
		t = t.Args[0]
	}
	if t.Op != "call" {
		return nil
	}
	return P.Fn(t.Name)
}
