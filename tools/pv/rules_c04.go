package main

import (
	"fmt"
	"strings"

	"golang.org/x/tools/go/ssa"
)

func init() { register("C04", checkC04) }

const (
	vT          = "(x/pos/types.Validator)."
	stakedCoins = "types.NewCoins(list(types.NewCoin(" + posK + "StakeDenom(param:k, param:ctx), "
)

func checkC04(r *Run) {
	P := r.P
	r.NotDecided("the pool balance as a state invariant over histories (decided: every operation moves the pool and the recorded stake by the same term)")
	r.NotDecided("coins users send to the pool address directly (excluded by the property statement itself)")
	r.NotDecided("exactness of Int.Add/Sub (C18)")

	// ------------------------------------------------------------------ R1
	r.Rule("C04-R1", "paired amounts: every pool movement is matched by a change of recorded stake by the same term — StakeValidator (amount), FinishUnstakingValidator (validator.StakedTokens), slash (tokensToBurn: record and burn), ForceValidatorUnstake (validator.StakedTokens: burn and record), mint (award passes through)", 10)
	// StakeValidator
	if f := r.fn(posK + "StakeValidator"); f != nil {
		mv := r.oneCall("C04-R1", "StakeValidator", f, posK+"coinsFromUnstakedToStaked")
		add := r.oneCall("C04-R1", "StakeValidator", f, vT+"AddStakedTokens")
		if mv != nil && add != nil {
			mt, at := P.callTerm(mv), P.callTerm(add)
			ok := argTerm(mt, 2).String() == "param:validator" && argTerm(mt, 3).String() == "param:amount" &&
				argTerm(at, 0).String() == "param:validator" && argTerm(at, 1).String() == "param:amount"
			r.Check(ok, "C04-R1", "StakeValidator/moved≡recorded", P.InstrPos(mv), "moves and records param:amount for param:validator",
				"pool movement "+mt.String()+" and recorded stake "+at.String()+" do not use the same (validator, amount)")
			if sv := r.oneCall("C04-R1", "StakeValidator", f, posK+"SetValidator"); sv != nil {
				want := vT + "UpdateStatus(" + vT + "AddStakedTokens(param:validator, param:amount), 2)"
				got := argTerm(P.callTerm(sv), 2).String()
				r.Check(got == want, "C04-R1", "StakeValidator/persists-updated-record", P.InstrPos(sv), got, "SetValidator stores "+got+" ; required "+want)
			}
		}
	}
	// a validator enters StakeValidator with no recorded stake: new validators are created with zero tokens
	// (re-staking validators are Unstaked, and both ways of becoming Unstaked remove the whole recorded stake)
	if f := r.fn("x/pos.stakeNewValidator"); f != nil {
		if c := r.oneCall("C04-R1", "stakeNewValidator", f, "x/pos/types.NewValidator"); c != nil {
			got := argTerm(P.callTerm(c), 2).String()
			r.Check(got == "types.ZeroInt()", "C04-R1", "stakeNewValidator/new-record-has-zero-stake", P.InstrPos(c), "NewValidator(…, ZeroInt())",
				"the new validator record is created with StakedTokens = "+got+" and StakeValidator then adds the staked amount on top: the record would exceed what is moved into the pool ; required types.ZeroInt()")
		}
	}
	unstakedRecordHasZeroStake(r, "C04-R1")
	if f := r.fn(posK + "coinsFromUnstakedToStaked"); f != nil {
		if c := r.oneCall("C04-R1", "coinsFromUnstakedToStaked", f, "x/pos/types.AuthKeeper.SendCoinsFromAccountToModule"); c != nil {
			t := P.callTerm(c).String()
			want := `x/pos/types.AuthKeeper.SendCoinsFromAccountToModule(param:k.authKeeper, param:ctx, param:validator.Address, "staked_tokens_pool", ` + stakedCoins + `param:amount))))`
			r.Check(t == want, "C04-R1", "coinsFromUnstakedToStaked/transfer", P.InstrPos(c), t, "transfer is "+t+" ; required "+want)
			checkPanicsOnError(r, "C04-R1", "coinsFromUnstakedToStaked", f, c)
		}
		r.callersExactly("C04-R1", "coinsFromUnstakedToStaked", r.edgesTo(f), []string{posK + "StakeValidator"})
	}
	// FinishUnstakingValidator
	if f := r.fn(posK + "FinishUnstakingValidator"); f != nil {
		mv := r.oneCall("C04-R1", "FinishUnstakingValidator", f, posK+"coinsFromStakedToUnstaked")
		rm := r.oneCall("C04-R1", "FinishUnstakingValidator", f, vT+"RemoveStakedTokens")
		if mv != nil && rm != nil {
			mt, rt := P.callTerm(mv), P.callTerm(rm)
			amt := argTerm(rt, 1).String()
			okAmt := amt == "param:validator.StakedTokens" || amt == "types.NewInt((types.Int).Int64(param:validator.StakedTokens))"
			ok := argTerm(mt, 2).String() == "param:validator" && argTerm(rt, 0).String() == "param:validator" && okAmt
			r.Check(ok, "C04-R1", "FinishUnstakingValidator/moved≡recorded", P.InstrPos(mv), "returns validator.StakedTokens and removes the same from the record",
				"pool movement "+mt.String()+" vs recorded removal "+rt.String()+": the amount removed is not the validator's recorded stake")
			if sv := r.oneCall("C04-R1", "FinishUnstakingValidator", f, posK+"SetValidator"); sv != nil {
				got := argTerm(P.callTerm(sv), 2).String()
				ok := strings.HasPrefix(got, vT+"UpdateStatus("+vT+"RemoveStakedTokens(param:validator, ") && strings.HasSuffix(got, ", 0)")
				r.Check(ok, "C04-R1", "FinishUnstakingValidator/persists-updated-record", P.InstrPos(sv), got, "SetValidator stores "+got)
			}
		}
	}
	if f := r.fn(posK + "coinsFromStakedToUnstaked"); f != nil {
		if c := r.oneCall("C04-R1", "coinsFromStakedToUnstaked", f, "x/pos/types.AuthKeeper.SendCoinsFromModuleToAccount"); c != nil {
			t := P.callTerm(c).String()
			want := `x/pos/types.AuthKeeper.SendCoinsFromModuleToAccount(param:k.authKeeper, param:ctx, "staked_tokens_pool", param:validator.Address, ` + stakedCoins + `param:validator.StakedTokens))))`
			r.Check(t == want, "C04-R1", "coinsFromStakedToUnstaked/transfer", P.InstrPos(c), t, "transfer is "+t+" ; required "+want)
			checkPanicsOnError(r, "C04-R1", "coinsFromStakedToUnstaked", f, c)
		}
		r.callersExactly("C04-R1", "coinsFromStakedToUnstaked", r.edgesTo(f), []string{posK + "FinishUnstakingValidator"})
	}
	// slash
	if f := r.fn(posK + "slash"); f != nil {
		rm := r.oneCall("C04-R1", "slash", f, posK+"removeValidatorTokens")
		bn := r.oneCall("C04-R1", "slash", f, posK+"burnStakedTokens")
		if rm != nil && bn != nil {
			a, b := argTerm(P.callTerm(rm), 3).String(), argTerm(P.callTerm(bn), 2).String()
			r.Check(a == b, "C04-R1", "slash/removed≡burned", P.InstrPos(bn), "record and pool are reduced by the same term "+a, "removeValidatorTokens takes "+a+" but burnStakedTokens burns "+b)
		}
	}
	removeTokensPersists(r, "C04-R1")
	// ForceValidatorUnstake
	if f := r.fn(posK + "ForceValidatorUnstake"); f != nil {
		bn := r.oneCall("C04-R1", "ForceValidatorUnstake", f, posK+"burnStakedTokens")
		rm := r.oneCall("C04-R1", "ForceValidatorUnstake", f, vT+"RemoveStakedTokens")
		if bn != nil && rm != nil {
			a := argTerm(P.callTerm(bn), 2).String()
			rt := P.callTerm(rm)
			ok := a == "param:validator.StakedTokens" && argTerm(rt, 0).String() == "param:validator" && argTerm(rt, 1).String() == "param:validator.StakedTokens"
			r.Check(ok, "C04-R1", "ForceValidatorUnstake/burned≡removed", P.InstrPos(bn), "burns and removes validator.StakedTokens of the same (unmodified) validator", "burns "+a+" but removes "+rt.String())
			r.requireCut("C04-R1", "ForceValidatorUnstake/record-change", nil, rm, "burn-succeeded-or-nothing-to-burn",
				`^isnil\(`+q(posK+"burnStakedTokens(param:k, param:ctx, param:validator.StakedTokens)")+`\)$`,
				`^!\(types\.Int\)\.IsPositive\(param:validator\.StakedTokens\)$`)
		}
	}
	if f := r.fn(posK + "burnStakedTokens"); f != nil {
		if c := r.oneCall("C04-R1", "burnStakedTokens", f, "x/pos/types.AuthKeeper.BurnCoins"); c != nil {
			t := P.callTerm(c).String()
			want := `x/pos/types.AuthKeeper.BurnCoins(param:k.authKeeper, param:ctx, "staked_tokens_pool", ` + stakedCoins + `param:amt))))`
			r.Check(t == want, "C04-R1", "burnStakedTokens/burn", P.InstrPos(c), t, "burn is "+t+" ; required "+want)
		}
		for i, ret := range P.successReturns(f, 0, "nil") {
			t := P.TermAt(ret.Results[0], ret).String()
			// either the burn's own result is returned, or nil after the burn succeeded
			ok := strings.HasPrefix(t, "x/pos/types.AuthKeeper.BurnCoins(")
			if !ok && t == "nil" {
				ok, _ = HasAtom(P.Guards(ret, 0), `^isnil\(x/pos/types\.AuthKeeper\.BurnCoins\(`)
			}
			r.Check(ok, "C04-R1", fmt.Sprintf("burnStakedTokens/returns-burn-result#%d", i), P.InstrPos(ret), "success only when BurnCoins succeeded", "burnStakedTokens can return "+t+" (success without burning)")
		}
	}
	// Validator.Add/RemoveStakedTokens change the field by exactly their argument
	for _, w := range []struct{ m, op string }{{"AddStakedTokens", "Add"}, {"RemoveStakedTokens", "Sub"}} {
		f := r.fn(vT + w.m)
		if f == nil {
			continue
		}
		for _, ret := range Returns(f) {
			t := P.TermAt(ret.Results[0], ret).String()
			want := "upd(param:v, StakedTokens=(types.Int)." + w.op + "(param:v.StakedTokens, param:tokens))"
			r.Check(t == want, "C04-R1", "Validator."+w.m, P.InstrPos(ret), t, "returns "+t+" ; required "+want)
		}
	}
	checkMintPair(r, "C04-R1")

	// ------------------------------------------------------------------ R2
	r.Rule("C04-R2", "the staked pool is moved only by the vetted functions: the constant StakedPoolName is used only in coinsFromStakedToUnstaked, coinsFromUnstakedToStaked, burnStakedTokens, mint, GetStakedPool (+ module wiring/genesis/invariant readers)", 5)
	checkConstUsers(r, "C04-R2", "staked_tokens_pool", []string{
		posK + "coinsFromStakedToUnstaked", posK + "coinsFromUnstakedToStaked", posK + "burnStakedTokens", posK + "mint", posK + "GetStakedPool",
		"x/pos/keeper.NewKeeper", "x/pos.InitGenesis", "x/pos/keeper.ModuleAccountInvariants$1",
	})

	// ------------------------------------------------------------------ R3
	r.Rule("C04-R3", "pool movement and record write are inseparable: in StakeValidator / FinishUnstakingValidator every path to return executes both the pool movement and SetValidator; in ForceValidatorUnstake and slash the record write happens only together with the burn (burn error => record untouched in ForceValidatorUnstake)", 4)
	for _, w := range []struct{ fn, move string }{
		{"StakeValidator", posK + "coinsFromUnstakedToStaked"},
		{"FinishUnstakingValidator", posK + "coinsFromStakedToUnstaked"},
	} {
		f := r.fn(posK + w.fn)
		if f == nil {
			continue
		}
		for _, need := range []string{w.move, posK + "SetValidator"} {
			reach, _, path := ReachWithout(f, nil, isReturn, CallTo(need), nil)
			r.Check(!reach, "C04-R3", w.fn+"/always:"+need, P.Pos(f.Pos()), "every path executes "+need, "a path returns from "+w.fn+" without "+need+": "+P.blockPathString(path))
		}
		if mv := CallsIn(f, w.move); len(mv) > 0 {
			r.Check(len(P.Guards(mv[0], 0)) == 0, "C04-R3", w.fn+"/unconditional-move", P.InstrPos(mv[0]), "unconditional", "pool movement is conditional: "+strings.Join(atomStrings(P.Guards(mv[0], 0)), " ; "))
		}
	}
	forceUnstakeRules(r, "C04-R3")

	// ------------------------------------------------------------------ R4
	r.Rule("C04-R4", "status-partition agreement: the statuses whose stake is pool-backed are the same wherever they are enumerated — ModuleAccountInvariants counts Staked and Unstaking; pos.InitGenesis must fund the pool for the same set", 2)
	checkPoolPartition(r)
}

// checkPanicsOnError: after call c (returning sdk.Error) every path on which the error is non-nil panics (does not return).
func checkPanicsOnError(r *Run, rule, key string, f *ssa.Function, c ssa.CallInstruction) {
	P := r.P
	// from the !isnil(err) edge no Return is reachable
	edges := P.ifEdgesFor(f, `^!isnil\(`+q(P.callTerm(c).String())+`\)$`)
	if len(edges) == 0 {
		r.Viol(rule, key+"/error-checked", P.InstrPos(c), "the transfer's error result is no longer tested")
		return
	}
	for _, e := range edges {
		reach, w, _ := ReachFromBlock(e.B.Succs[e.I], isReturn, nil, nil)
		r.Check(!reach, rule, key+"/error=>panic", P.InstrPos(c), "a failed transfer panics", "a failed transfer can reach the return at "+P.InstrPos(w)+" (record would change without the pool movement)")
	}
}

// checkPoolPartition compares the status sets used by the invariant and by genesis funding.
func checkPoolPartition(r *Run) {
	P := r.P
	ig := r.fn("x/pos.InitGenesis")
	if ig == nil {
		return
	}
	// find the accumulation `x.Add(validator.GetTokens())` in f
	accSite := func(f *ssa.Function) ssa.Instruction {
		var site ssa.Instruction
		Instrs(f, func(in ssa.Instruction) {
			c, ok := in.(*ssa.Call)
			if !ok {
				return
			}
			if _, n := calleeName(&c.Call); n != "(types.Int).Add" {
				return
			}
			if (strings.Contains(argTerm(P.callTerm(c), 1).String(), "GetTokens(") || strings.HasSuffix(argTerm(P.callTerm(c), 1).String(), ".StakedTokens")) && site == nil {
				site = c
			}
		})
		return site
	}
	// statuses from which the accumulation is reachable: for each status test edge (IsX true, or GetStatus()==const) can the site be reached?
	reachableFrom := func(f *ssa.Function, site ssa.Instruction, re string) bool {
		for _, e := range P.ifEdgesFor(f, re) {
			if ok, _, _ := ReachFromBlock(e.B.Succs[e.I], func(in ssa.Instruction) bool { return in == site }, nil, func(b *ssa.BasicBlock, i int) bool {
				// do not follow loop back edges out of the iteration: stop at blocks that dominate the test
				return true
			}); ok {
				return true
			}
		}
		return false
	}
	gsite := accSite(ig)
	if gsite == nil {
		r.Viol("C04-R4", "InitGenesis/pool-funding", P.Pos(ig.Pos()), "InitGenesis no longer accumulates validator tokens for the staked pool")
		return
	}
	guards := P.Guards(gsite, 0)
	var gs []string
	onlyStaked, coversUnstaking := false, false
	statusGuard := false
	for _, a := range guards {
		k := a.Key()
		gs = append(gs, k)
		if strings.Contains(k, ".IsStaked(") || strings.Contains(k, ".IsUnstaking(") || strings.Contains(k, "GetStatus(") {
			statusGuard = true
		}
		if strings.Contains(k, ".IsStaked(") && a.Pos {
			onlyStaked = true
		}
	}
	if !statusGuard {
		coversUnstaking = true // unconditional (or only !IsUnstaked): every admitted validator is counted
	}
	if reachableFrom(ig, gsite, `^\(x/pos/types\.Validator\)\.IsUnstaking\(`) && !onlyStaked {
		// reachable through an IsUnstaking-true edge without being dominated by IsStaked
		if P.RequiresCut(ig.Blocks[0], gsite.Block(), func(a Atom) bool {
			k := a.Key()
			return (strings.Contains(k, ".IsStaked(") || strings.Contains(k, ".IsUnstaking(")) && a.Pos
		}) {
			coversUnstaking = true
		}
	}
	r.Check(coversUnstaking && !onlyStaked, "C04-R4", "InitGenesis/pool-funding-covers-unstaking", P.InstrPos(gsite),
		"genesis funds the pool for staked and unstaking validators; dominating guards: {"+strings.Join(gs, " ; ")+"}",
		"genesis adds a validator's tokens to the staked pool only under {"+strings.Join(gs, " ; ")+"} while the stake of Unstaking validators is pool-backed too (ModuleAccountInvariants counts Staked and Unstaking): an unstaking validator at genesis is left unbacked")
	// the invariant's partition (reference)
	inv := r.fnOpt("x/pos/keeper.ModuleAccountInvariants$1$1")
	if inv == nil {
		r.Undecided("C04-R4", "ModuleAccountInvariants/partition", "-", "invariant closure not found")
		return
	}
	isite := accSite(inv)
	if isite == nil {
		r.Viol("C04-R4", "ModuleAccountInvariants/partition", P.Pos(inv.Pos()), "the invariant no longer sums validator tokens")
		return
	}
	st := reachableFrom(inv, isite, `^\(2 == x/pos/exported\.ValidatorI\.GetStatus\(`) || reachableFrom(inv, isite, `^\(x/pos/exported\.ValidatorI\.GetStatus\(.*== 2\)`)
	un := reachableFrom(inv, isite, `^\(1 == x/pos/exported\.ValidatorI\.GetStatus\(`) || reachableFrom(inv, isite, `^\(x/pos/exported\.ValidatorI\.GetStatus\(.*== 1\)`)
	r.Check(st && un, "C04-R4", "ModuleAccountInvariants/partition", P.InstrPos(isite), "the invariant counts Staked(2) and Unstaking(1) stake as pool-backed",
		fmt.Sprintf("the invariant's pool-backed partition changed: reachable from status==Staked: %v, from status==Unstaking: %v", st, un))
}

// forceUnstakeRules: a forced unstake burns exactly the remaining recorded stake, whenever there is any (C04-R3, C02-R10, C07-R9).
func forceUnstakeRules(r *Run, rule string) {
	P := r.P
	if f := r.fn(posK + "ForceValidatorUnstake"); f != nil {
		if sv := r.oneCall(rule, "ForceValidatorUnstake", f, posK+"SetValidator"); sv != nil {
			r.requireCut(rule, "ForceValidatorUnstake/SetValidator", nil, sv, "burn-succeeded-or-nothing-to-burn",
				`^isnil\(`+q(posK+"burnStakedTokens(param:k, param:ctx, param:validator.StakedTokens)")+`\)$`,
				`^!\(types\.Int\)\.IsPositive\(param:validator\.StakedTokens\)$`)
			// whenever there is something to burn it is burned: from the IsPositive edge the burn always follows
			if bn := CallsIn(f, posK+"burnStakedTokens"); len(bn) == 1 {
				r.mustFollowEdge(rule, "ForceValidatorUnstake/positive-stake=>burned", f, `^\(types\.Int\)\.IsPositive\(param:validator\.StakedTokens\)$`, func(in ssa.Instruction) bool { return in == ssa.Instruction(bn[0]) }, nil, "burnStakedTokens")
			}
			for i, ret := range P.successReturns(f, 0, "nil") {
				r.Check(Precedes(sv, ret), rule, fmt.Sprintf("ForceValidatorUnstake/success-return#%d/after-SetValidator", i), P.InstrPos(ret), "success only after the record was written", "ForceValidatorUnstake returns success without SetValidator")
			}
		}
	}
}

// removeTokensPersists: the reduced record is stored on every path of removeValidatorTokens (C04-R1, C07-R10).
func removeTokensPersists(r *Run, rule string) {
	P := r.P
	if f := r.fn(posK + "removeValidatorTokens"); f != nil {
		if c := r.oneCall(rule, "removeValidatorTokens", f, vT+"RemoveStakedTokens"); c != nil {
			t := P.callTerm(c).String()
			r.Check(t == vT+"RemoveStakedTokens(param:v, param:tokensToRemove)", rule, "removeValidatorTokens/removes-param", P.InstrPos(c), t, "removes "+t)
		}
		if c := r.oneCall(rule, "removeValidatorTokens", f, posK+"SetValidator"); c != nil {
			got := argTerm(P.callTerm(c), 2).String()
			r.Check(got == vT+"RemoveStakedTokens(param:v, param:tokensToRemove)", rule, "removeValidatorTokens/persists", P.InstrPos(c), got, "persists "+got)
			reach, _, path := ReachWithout(f, nil, isReturn, func(in ssa.Instruction) bool { return in == ssa.Instruction(c) }, nil)
			r.Check(!reach, rule, "removeValidatorTokens/always-persists", P.InstrPos(c), "the reduced record is stored on every path", "a path returns the reduced validator without storing it (the pool is burned by the caller regardless): "+P.blockPathString(path))
		}
		for _, ret := range Returns(f) {
			got := P.TermAt(ret.Results[0], ret).String()
			r.Check(got == vT+"RemoveStakedTokens(param:v, param:tokensToRemove)", rule, "removeValidatorTokens/returns-updated", P.InstrPos(ret), got, "returns "+got)
		}
		r.callersExactly(rule, "removeValidatorTokens", r.edgesTo(f), []string{posK + "slash"})
	}
}

// unstakedRecordHasZeroStake: status Unstaked is only ever given to a record whose stake was removed (C04-R1, C07-R13).
func unstakedRecordHasZeroStake(r *Run, rule string) {
	P := r.P
	for _, fn := range []string{"FinishUnstakingValidator", "ForceValidatorUnstake"} {
		if f := r.fn(posK + fn); f != nil {
			// status 0 (Unstaked) is assigned to a record whose whole stake was removed
			for _, c := range CallsIn(f, vT+"UpdateStatus") {
				t := P.callTerm(c)
				if argTerm(t, 1).String() != "0" {
					continue
				}
				recv := argTerm(t, 0).String()
				ok := strings.HasPrefix(recv, vT+"RemoveStakedTokens(param:validator, ") && (strings.HasSuffix(recv, "param:validator.StakedTokens)") || strings.HasSuffix(recv, "types.NewInt((types.Int).Int64(param:validator.StakedTokens)))"))
				r.Check(ok, rule, fn+"/unstaked-record-has-zero-stake", P.InstrPos(c), "status Unstaked is given to the record with its whole stake removed", "status Unstaked is assigned to "+recv+" which still carries stake")
			}
		}
	}
}
