package main

import (
	"fmt"
	"regexp"
	"strings"

	"golang.org/x/tools/go/ssa"
)

// Rules added after the sixth seeding round (changes placed away from the obvious functions).

// pruningStrategyTable: the configured strategy is the strategy in force (C12/C14).
func pruningStrategyTable(r *Run, rule string) {
	P := r.P
	r.Rule(rule, "the pruning strategy named in the configuration is the one in force: NewPruningOptionsFromString maps \"nothing\" to PruneNothing, \"everything\" to PruneEverything and \"syncable\" to PruneSyncable", 3)
	f := r.fn("store.NewPruningOptionsFromString")
	if f == nil {
		return
	}
	want := map[string]string{"nothing": "global:store.PruneNothing", "everything": "global:store.PruneEverything", "syncable": "global:store.PruneSyncable"}
	seen := map[string]bool{}
	for _, a := range P.RetAlternatives(f, 0) {
		for _, g := range a.G {
			if !g.Pos {
				continue
			}
			m := regexp.MustCompile(`^\("(\w+)" == param:strategy\)$|^\(param:strategy == "(\w+)"\)$`).FindStringSubmatch(g.Key())
			if m == nil {
				continue
			}
			name := m[1] + m[2]
			if w, ok := want[name]; ok {
				seen[name] = true
				r.Check(a.T.String() == w, rule, "NewPruningOptionsFromString/"+name, P.InstrPos(a.Ret), w, "strategy \""+name+"\" yields "+a.T.String()+" ; required "+w)
			}
		}
	}
	for name := range want {
		if !seen[name] {
			r.Viol(rule, "NewPruningOptionsFromString/"+name, P.Pos(f.Pos()), "strategy \""+name+"\" is no longer recognised (it falls through to the default): a node configured to keep history prunes it")
		}
	}
}

// queryRequestUntouched: the height a client asked about is the height the handlers see (C14).
func queryRequestUntouched(r *Run, rule string) {
	P := r.P
	r.Rule(rule, "a query is answered for the height it names: BaseApp.Query hands the request to the app/store/p2p/custom handlers unchanged (no field rewritten on the way)", 4)
	f := r.fn("(*baseapp.BaseApp).Query")
	if f == nil {
		return
	}
	n := 0
	for _, h := range []string{"baseapp.handleQueryApp", "baseapp.handleQueryStore", "baseapp.handleQueryP2P", "baseapp.handleQueryCustom"} {
		for _, c := range CallsIn(f, h) {
			n++
			t := argTerm(P.callTerm(c), 2).String()
			r.Check(t == "param:req", rule, "Query→"+strings.TrimPrefix(h, "baseapp.")+"/request-unchanged", P.InstrPos(c), "param:req", strings.TrimPrefix(h, "baseapp.")+" receives "+oneLine(t)+" ; required the request as it came in")
		}
	}
	if n < 4 {
		r.Viol(rule, "Query/dispatches", P.Pos(f.Pos()), fmt.Sprintf("Query dispatches to %d of the 4 handlers", n))
	}
}

// memIteratorHandsOutStoredSlices: the overlay shows what was written (C15): a nil value is the deletion marker, so
// the iterator must return the stored slice itself (a copy made with append(nil, v...) turns an empty value into nil).
func memIteratorHandsOutStoredSlices(r *Run, rule string) {
	P := r.P
	r.Rule(rule, "the dirty-entry iterator returns the stored key and value slices themselves (items[0] ascending, items[len-1] descending): nil-ness of a value is the deletion marker and must survive", 4)
	for _, w := range []struct{ fn, field string }{{"(*store/cachekv.memIterator).Value", "Value"}, {"(*store/cachekv.memIterator).Key", "Key"}} {
		f := r.fn(w.fn)
		if f == nil {
			continue
		}
		for i, a := range P.RetAlternatives(f, 0) {
			t := a.T.String()
			asc, _ := HasAtom(a.G, `^param:mi\.ascending$`)
			desc, _ := HasAtom(a.G, `^!param:mi\.ascending$`)
			ok := (asc && t == "param:mi.items[0]."+w.field) || (desc && t == "param:mi.items[(len(param:mi.items) - 1)]."+w.field)
			r.Check(ok, rule, fmt.Sprintf("%s/alternative#%d", short(w.fn), i), P.InstrPos(a.Ret), "the stored slice of the current item", short(w.fn)+" returns "+oneLine(t)+" under {"+strings.Join(atomStrings(a.G), " ; ")+"} ; required items[0]."+w.field+" ascending / items[len-1]."+w.field+" descending, uncopied")
		}
	}
}

// uintOrderHelpers: Uint's GTE / LTE are the complements the other rules take them for (C18).
func uintOrderHelpers(r *Run, rule string) {
	P := r.P
	r.Rule(rule, "Uint order helpers: GTE(u,u2) is GT(u,u2) || Equal(u,u2), LTE(u,u2) is !GT(u,u2), GT/LT delegate to gt/lt on the operands in order", 4)
	if f := r.fn("(types.Uint).GTE"); f != nil {
		okGT, okEq, n := false, false, 0
		for _, a := range P.RetAlternatives(f, 0) {
			n++
			t := a.T.String()
			gt, _ := HasAtom(a.G, `^\(types\.Uint\)\.LT\(param:u2, param:u\)$`)
			ngt, _ := HasAtom(a.G, `^!\(types\.Uint\)\.LT\(param:u2, param:u\)$`)
			switch {
			case t == "true" && gt:
				okGT = true
			case t == "(types.Uint).Equal(param:u, param:u2)" && ngt, t == "(types.Uint).Equal(param:u2, param:u)" && ngt:
				okEq = true
			case t == "!(types.Uint).LT(param:u, param:u2)": // delegating to the complement is the same relation
				okGT, okEq = true, true
			default:
				r.Viol(rule, "Uint.GTE/alternative", P.InstrPos(a.Ret), "GTE yields "+oneLine(t)+" under {"+strings.Join(atomStrings(a.G), " ; ")+"}")
			}
		}
		r.Check(okGT && okEq, rule, "Uint.GTE/greater-or-equal", P.Pos(f.Pos()), "GT || Equal", "Uint.GTE is no longer `greater or equal` (one of the two disjuncts is gone)")
	}
	if f := r.fn("(types.Uint).LTE"); f != nil {
		for _, ret := range Returns(f) {
			t := P.TermAt(ret.Results[0], ret).String()
			ok := t == "!(types.Uint).LT(param:u2, param:u)"
			r.Check(ok, rule, "Uint.LTE", P.InstrPos(ret), "!GT(u,u2)", "Uint.LTE is "+oneLine(t))
		}
	}
	for _, w := range []struct{ fn, want string }{{"(types.Uint).GT", "types.gt(param:u.i, param:u2.i)"}, {"(types.Uint).LT", "types.lt(param:u.i, param:u2.i)"}} {
		if f := r.fn(w.fn); f != nil {
			for _, ret := range Returns(f) {
				t := P.TermAt(ret.Results[0], ret).String()
				r.Check(t == w.want, rule, short(w.fn), P.InstrPos(ret), w.want, short(w.fn)+" is "+oneLine(t))
			}
		}
	}
}

// managerKeepsValidatorUpdates: the validator updates a module computed reach Tendermint (C05).
func managerKeepsValidatorUpdates(r *Run, rule string) {
	P := r.P
	r.Rule(rule, "the updates the staking module computed are the ones returned to consensus: in module.Manager.EndBlock a module's result replaces the collected validator updates only when it is non-empty", 1)
	f := r.fn("(*types/module.Manager).EndBlock")
	if f == nil {
		return
	}
	n := 0
	for _, b := range f.Blocks {
		for _, in := range b.Instrs {
			phi, ok := in.(*ssa.Phi)
			if !ok {
				continue
			}
			for i, e := range phi.Edges {
				if _, isCall := e.(*ssa.Call); !isCall || i >= len(b.Preds) {
					continue
				}
				p := b.Preds[i]
				k := 0
				for j, s := range p.Succs {
					if s == b {
						k = j
					}
				}
				// the alternatives of the value that arrives on this edge: the module's result itself, or what a
				// selecting helper introduced by a refactoring returns
				var alts []RetAlt
				P.expandAlts(e, phi, P.EdgeGuards(p, k), nil, 0, f, &alts)
				for _, a := range alts {
					if !strings.HasPrefix(a.T.String(), "types/module.AppModule.EndBlock(") {
						continue
					}
					n++
					ok2, _ := HasAtom(a.G, `^!\(0 == len\(types/module\.AppModule\.EndBlock\(`)
					r.Check(ok2, rule, "Manager.EndBlock/replace-only-when-non-empty", P.InstrPos(e.(*ssa.Call)), "under len(moduleValUpdates) > 0", "a module's EndBlock result replaces the collected validator updates under {"+strings.Join(atomStrings(a.G), " ; ")+"} ; required len(result) > 0 — an empty result of a later module would erase the staking module's updates")
				}
			}
		}
	}
	if n == 0 {
		r.Viol(rule, "Manager.EndBlock/replace-only-when-non-empty", P.Pos(f.Pos()), "the collected validator updates are no longer selected under len(moduleValUpdates) > 0")
	}
}

// genesisImportUnconditional: what the genesis file says about signing infos / missed blocks is what the chain starts with (C08/C09).
func genesisImportUnconditional(r *Run, rule string) {
	P := r.P
	r.Rule(rule, "the signing infos and missed-block entries of an imported genesis are all written: in InitGenesis the SetValidatorSigningInfo / SetMissedBlockArray calls fed from the genesis data run for every entry (no condition besides the address decoding)", 2)
	f := r.fn("x/pos.InitGenesis")
	if f == nil {
		return
	}
	n := 0
	for _, w := range []struct{ callee, from string }{{posK + "SetValidatorSigningInfo", "param:data.SigningInfos"}, {posK + "SetMissedBlockArray", "param:data.MissedBlocks"}} {
		for _, c := range CallsIn(f, w.callee) {
			if !strings.Contains(P.callTerm(c).String(), w.from) {
				continue
			}
			n++
			var extra []string
			for _, a := range P.LocalGuards(c) {
				k := a.Key()
				if a.Via != "" || regexp.MustCompile(`^!?next\(range\(.*\)\)#0$`).MatchString(k) || strings.HasPrefix(k, "(phi(") || strings.HasPrefix(k, "!(phi(") || strings.HasPrefix(k, "((phi(") || strings.HasPrefix(k, "!((phi(") {
					continue // the loop tests themselves
				}
				if regexp.MustCompile(`^isnil\(types\.AddressFromHex\(.*\)#1\)$`).MatchString(k) {
					continue
				}
				if a.If != nil {
					if silent, _ := P.bypassIsSilent(a); !silent {
						continue // a sanity panic, not a skip
					}
				}
				extra = append(extra, k)
			}
			r.Check(len(extra) == 0, rule, "InitGenesis/"+short(w.callee)+"/every-entry", P.InstrPos(c), "unconditional per entry", "the import of "+w.from+" is skipped unless {"+strings.Join(extra, " ; ")+"}: entries of the genesis file are silently dropped")
		}
	}
	if n < 2 {
		r.Viol(rule, "InitGenesis/imports", P.Pos(f.Pos()), fmt.Sprintf("%d of the 2 import loops (signing infos, missed blocks) found", n))
	}
}

func init() {
	extend("C12", func(r *Run) { pruningStrategyTable(r, "C12-R13") })
	extend("C14", func(r *Run) {
		pruningStrategyTable(r, "C14-R12")
		queryRequestUntouched(r, "C14-R13")
	})
	extend("C15", func(r *Run) { memIteratorHandsOutStoredSlices(r, "C15-R14") })
	extend("C18", func(r *Run) { uintOrderHelpers(r, "C18-R14") })
	extend("C05", func(r *Run) { managerKeepsValidatorUpdates(r, "C05-R11") })
	extend("C08", func(r *Run) { genesisImportUnconditional(r, "C08-R10") })
	extend("C09", func(r *Run) { genesisImportUnconditional(r, "C09-R8") })
}

// feeTableComplete: every governance message has its price (C03): GetFee looks the message type up in GovFeeMap, and a
// type missing from the map literal is looked up as 0 — the transaction is accepted without paying.
func feeTableComplete(r *Run, rule string) {
	P := r.P
	r.Rule(rule, "every message type whose GetFee reads GovFeeMap[msg.Type()] is a key of the GovFeeMap literal (a missing key reads as fee 0)", 3)
	pkg := P.Pkg("x/gov/types")
	if pkg == nil {
		r.Undecided(rule, "pkg", "-", "package x/gov/types not loaded")
		return
	}
	sp := P.SSA.Package(pkg.Types)
	if sp == nil {
		r.Undecided(rule, "pkg", "-", "package x/gov/types has no SSA form")
		return
	}
	g, _ := sp.Members["GovFeeMap"].(*ssa.Global)
	initFn := sp.Func("init")
	if g == nil || initFn == nil {
		r.Undecided(rule, "GovFeeMap", "-", "global GovFeeMap (or the package initialiser) not found")
		return
	}
	keys := map[string]bool{}
	InstrsRaw(initFn, func(in ssa.Instruction) {
		st, ok := in.(*ssa.Store)
		if !ok || st.Addr != ssa.Value(g) {
			return
		}
		mm, ok := st.Val.(*ssa.MakeMap)
		if !ok {
			return
		}
		for _, ref := range *mm.Referrers() {
			if mu, ok := ref.(*ssa.MapUpdate); ok {
				if c, ok := mu.Key.(*ssa.Const); ok && c.Value != nil {
					keys[c.Value.ExactString()] = true
				}
			}
		}
	})
	n := 0
	for _, f := range P.RepoFns {
		if f.Pkg != sp || f.Name() != "GetFee" || f.Signature.Recv() == nil || len(f.Blocks) == 0 {
			continue
		}
		InstrsRaw(f, func(in ssa.Instruction) {
			lk, ok := in.(*ssa.Lookup)
			if !ok {
				return
			}
			ld, ok := lk.X.(*ssa.UnOp)
			if !ok || ld.X != ssa.Value(g) {
				return
			}
			c, ok := lk.Index.(*ssa.Call)
			callee := (*ssa.Function)(nil)
			if ok {
				callee = staticCallee(&c.Call)
			}
			if callee == nil || len(callee.Blocks) == 0 {
				r.Viol(rule, "GetFee/"+short(f.String())+"/key", P.InstrPos(lk), short(f.String())+" looks the fee up under "+oneLine(P.TermAt(lk.Index, lk).String())+" ; expected the message's own Type()")
				return
			}
			for _, ret := range Returns(callee) {
				k, ok := ret.Results[0].(*ssa.Const)
				if !ok || k.Value == nil {
					r.Viol(rule, "GetFee/"+short(f.String())+"/key", P.InstrPos(ret), short(callee.String())+" does not return a constant")
					continue
				}
				n++
				r.Check(keys[k.Value.ExactString()], rule, "GovFeeMap/has:"+short(f.String()), P.InstrPos(lk), "key present", "message type "+k.Value.ExactString()+" ("+short(f.String())+") is not a key of the GovFeeMap literal: its fee is looked up as 0 and the transaction is accepted without paying")
			}
		})
	}
	if n == 0 {
		r.Viol(rule, "GovFeeMap/lookups", "-", "no GetFee method reads GovFeeMap any more")
	}
}

func init() {
	extend("C03", func(r *Run) { feeTableComplete(r, "C03-R10") })
	extend("C17", func(r *Run) { feeTableComplete(r, "C17-R12") })
}

// moduleForwardersVettedFailures: paying out of / into a module account fails only for the causes the callers know
// (C04/C02/C10): callers such as the reward minting ignore or merely log the error, so a new refusal here leaves coins
// behind in the pool.
func moduleForwardersVettedFailures(r *Run, rule string) {
	P := r.P
	r.Rule(rule, "the module-account forwarders of the bank keeper add no refusal of their own: each return of SendCoinsFromModuleToAccount / SendCoinsFromAccountToModule is either SendCoins' own result or the `module account missing` error under the nil test of the module address / account", 2)
	for _, w := range []struct{ fn, nilOf string }{
		{"(x/auth/keeper.Keeper).SendCoinsFromModuleToAccount", `\(x/auth/keeper\.Keeper\)\.GetModuleAddress\(param:k, param:senderModule\)`},
		{"(x/auth/keeper.Keeper).SendCoinsFromAccountToModule", `\(x/auth/keeper\.Keeper\)\.GetModuleAccount\(param:k, param:ctx, param:recipientModule\)`},
	} {
		f := r.fn(w.fn)
		if f == nil {
			continue
		}
		idx, _ := errIndex(f.Signature)
		if idx < 0 {
			idx = 0
		}
		var vetted func(g *ssa.Function, idx int, nilRe string, depth int) (bool, string)
		vetted = func(g *ssa.Function, idx int, nilRe string, depth int) (bool, string) {
			for _, a := range P.RetAlternatives(g, idx) {
				t := a.T.String()
				missing, _ := HasAtom(a.G, nilRe)
				if strings.HasPrefix(t, "(x/auth/keeper.Keeper).SendCoins(param:k, param:ctx, ") || t == "nil" || strings.HasPrefix(t, "zero:") ||
					(missing && (strings.HasPrefix(t, "types.ErrUnknownAddress(") || strings.HasPrefix(t, "types.ErrModuleAccountCreate("))) {
					continue
				}
				// the error of a helper split off by a refactoring: judged by the helper's own returns
				if a.T.Op == "extract" && len(a.T.Args) == 1 && a.T.Args[0].Op == "call" && depth < 2 {
					if h := P.Fn(a.T.Args[0].Name); h != nil && P.isNewHelper(h) {
						if hi, _ := errIndex(h.Signature); hi >= 0 {
							if ok, why := vetted(h, hi, `^isnil\(\(x/auth/keeper\.Keeper\)\.GetModule(Address|Account)\(`, depth+1); ok {
								continue
							} else {
								return false, why
							}
						}
					}
				}
				return false, short(g.String()) + " returns " + oneLine(t) + " under {" + strings.Join(atomStrings(a.G), " ; ") + "}"
			}
			return true, ""
		}
		ok, why := vetted(f, idx, `^isnil\(`+w.nilOf+`\)$`, 0)
		r.Check(ok, rule, short(w.fn)+"/returns/vetted", P.Pos(f.Pos()), "SendCoins' result or module-missing", why+": a refusal of its own, which callers that only log the error (reward minting) turn into coins left behind")
	}
}

// borrow re-states a rule of another property's main check under this property (the clause is shared).
var borrowCache = map[*Prog]map[string]*Run{}

func (r *Run) borrow(fromProp, fromRule, asRule string) {
	if borrowCache[r.P] == nil {
		borrowCache[r.P] = map[string]*Run{}
	}
	sub := borrowCache[r.P][fromProp]
	if sub == nil {
		sub = NewRun(r.P, fromProp, "quick")
		checks[fromProp](sub)
		borrowCache[r.P][fromProp] = sub
	}
	text, ok := sub.RuleText[fromRule]
	if !ok {
		r.Undecided(asRule, "borrowed:"+fromRule, "-", "rule "+fromRule+" does not exist")
		return
	}
	r.Rule(asRule, text+" [clause shared with "+fromRule+"]", sub.floors[fromRule])
	for _, o := range sub.Obls {
		if o.Rule == fromRule {
			r.add(asRule, strings.TrimPrefix(o.Key, fromRule+"/"), o.Site, o.Verdict, o.Detail)
		}
	}
}

func init() {
	extend("C01", func(r *Run) { freshAddressCopies(r, "C01-R12") })
	extend("C09", func(r *Run) { freshAddressCopies(r, "C09-R9") })
	extend("C03", func(r *Run) { coinsIsValidShape(r, "C03-R11") })
	extend("C04", func(r *Run) {
		moduleForwardersVettedFailures(r, "C04-R9")
		loadVersionRules(r, "C04-R10")
	})
	extend("C02", func(r *Run) { moduleForwardersVettedFailures(r, "C02-R17") })
	extend("C10", func(r *Run) { moduleForwardersVettedFailures(r, "C10-R10") })
	extend("C05", func(r *Run) { mergeIteratorCompare(r, "C05-R12") })
	extend("C06", func(r *Run) { r.borrow("C05", "C05-R5", "C06-R15") })
	extend("C11", func(r *Run) {
		r.borrow("C04", "C04-R1", "C11-R20")
		pruningWiring(r, "C11-R21")
		// a governance message that must be refused never reaches ModifyParam's subspace lookup (which ends the
		// process on a miss): the ACL test and the address comparison it rests on
		r.borrow("C17", "C17-R1", "C11-R26")
		addressEquals(r, "C11-R27")
	})
	extend("C12", func(r *Run) { r.borrow("C11", "C11-R7", "C12-R14") })
	extend("C14", func(r *Run) {
		r.borrow("C11", "C11-R7", "C14-R14")
		loadVersionRules(r, "C14-R15")
	})
	extend("C13", func(r *Run) { r.borrow("C01", "C01-R5", "C13-R9") })
	extend("C15", func(r *Run) { r.borrow("C16", "C16-R4", "C15-R15") })
	extend("C17", func(r *Run) { r.borrow("C03", "C03-R2", "C17-R13") })
	extend("C20", func(r *Run) { r.borrow("C05", "C05-R3", "C20-R9") })
	for _, p := range []string{"C04", "C05", "C07", "C08", "C09", "C10"} {
		pkgScope[p] = append(pkgScope[p], "x/pos/types")
	}
	pkgScope["C01"] = append(pkgScope["C01"], "x/pos/keeper", "x/pos", "x/auth/keeper", "x/auth/types", "x/pos/types")
}
