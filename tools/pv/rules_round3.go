package main

import (
	"fmt"
	"regexp"
	"strings"

	"golang.org/x/tools/go/ssa"
)

// rules added after the third wave of seeded changes

// govReadsAreFresh: governance reads of ACL / DAO owner / upgrade come straight from the parameter store on every call
// (no in-memory copy that a parameter change through ModifyParam would leave stale).
func govReadsAreFresh(r *Run, rule string) {
	P := r.P
	r.Rule(rule, "authorisation data is read from the store on every use: GetACL, GetDAOOwner and GetUpgrade return exactly what Subspace.Get decodes for their key in this call; the gov Keeper has no field that caches it", 4)
	for _, w := range []struct{ fn, key string }{{"GetACL", "ACLKey"}, {"GetDAOOwner", "DAOOwnerKey"}, {"GetUpgrade", "UpgradeKey"}} {
		f := r.fn(govK + w.fn)
		if f == nil {
			continue
		}
		for i, ret := range Returns(f) {
			t := P.TermAt(ret.Results[0], ret).String()
			want := "out:<T>←(types.Subspace).Get(param:k.paramstore, param:ctx, global:x/gov/types." + w.key + ", addr:<T>)"
			okT := false
			if m := regexp.MustCompile(`^out:([^←]+)←\(types\.Subspace\)\.Get\(param:k\.paramstore, param:ctx, global:x/gov/types\.` + w.key + `, addr:([^)]+)\)$`).FindStringSubmatch(t); m != nil && m[1] == m[2] {
				okT = true
			}
			r.Check(okT, rule, fmt.Sprintf("%s/returns-store-read#%d", w.fn, i), P.InstrPos(ret), t, w.fn+" returns "+t+" ; required the value decoded from the store in this call: "+want+" (a cached copy goes stale when the parameter is changed through governance)")
		}
		for _, c := range CallsIn(f, "(types.Subspace).Get") {
			r.Check(len(P.Guards(c, 0)) == 0, rule, w.fn+"/reads-unconditionally", P.InstrPos(c), "unconditional store read", w.fn+" reads the store only under "+strings.Join(atomStrings(P.Guards(c, 0)), " ; "))
		}
	}
	if kt := P.NamedType("x/gov/keeper", "Keeper"); kt != nil {
		got := strings.Join(structFieldNames(kt), ",")
		want := "cdc,key,tkey,codespace,paramstore,AuthKeeper,spaces"
		r.Check(got == want, rule, "gov.Keeper/fields", "-", got, "the gov Keeper's fields are now {"+got+"} (vetted: {"+want+"}): a new field may hold authorisation state outside the store — the table must be re-confirmed")
	}
}

// roundingShapes: the three chop helpers keep the shape their rounding direction needs (C18-R4).
func roundingShapes(r *Run, rule string) {
	P := r.P
	r.Rule(rule, "rounding direction is fixed by the shape of the chop helpers: chopPrecisionAndTruncate = d.Quo(d, 10^18) (toward zero); chopPrecisionAndRoundUp handles a negative value by negate-truncate-negate (toward +inf) and a positive one by quotient+1 iff the remainder is non-zero; chopPrecisionAndRound handles a negative value by negate-round-negate (symmetric) and rounds half to even: remainder<half -> quo, >half -> quo+1, ==half -> quo+1 iff quo is odd", 8)
	quo := "(*math/big.Int).QuoRem(param:d, param:d, global:types.precisionReuse, math/big.NewInt(0))#0"
	rem := "(*math/big.Int).QuoRem(param:d, param:d, global:types.precisionReuse, math/big.NewInt(0))#1"
	inc := "(*math/big.Int).Add(" + quo + ", " + quo + ", global:types.oneInt)"
	eq := func(x, c string) string { return `(\(` + x + ` == ` + c + `\)|\(` + c + ` == ` + x + `\))` }
	sign := func(x string) string { return `\(\*math/big\.Int\)\.Sign\(` + x + `\)` }
	neg := `^` + eq(sign("param:d"), "-1") + `$`
	if f := r.fn("types.chopPrecisionAndTruncate"); f != nil {
		for _, ret := range Returns(f) {
			t := P.TermAt(ret.Results[0], ret).String()
			r.Check(t == "(*math/big.Int).Quo(param:d, param:d, global:types.precisionReuse)", rule, "Truncate/quo", P.InstrPos(ret), t, "chopPrecisionAndTruncate returns "+t)
		}
	}
	if f := r.fn("types.chopPrecisionAndRoundUp"); f != nil {
		for i, alt := range P.RetAlternatives(f, 0) { // early returns or one result variable alike
			ret, t, gs := alt.Ret, alt.T.String(), alt.G
			isNeg, _ := HasAtom(gs, neg)
			key := fmt.Sprintf("RoundUp/return#%d", i)
			switch {
			case isNeg:
				want := "(*math/big.Int).Neg(types.chopPrecisionAndTruncate((*math/big.Int).Neg(param:d, param:d)), types.chopPrecisionAndTruncate((*math/big.Int).Neg(param:d, param:d)))"
				r.Check(t == want, rule, key+"/negative=negate-truncate-negate", P.InstrPos(ret), t, "for a negative value chopPrecisionAndRoundUp returns "+t+" ; required "+want+" (rounding a negative value up means truncating its magnitude)")
			case t == quo:
				ok, _ := HasAtom(gs, `^`+eq(sign(q(rem)), "0")+`$`)
				r.Check(ok, rule, key+"/exact=>quotient", P.InstrPos(ret), "quotient only when the remainder is zero", "the bare quotient is returned under "+strings.Join(atomStrings(gs), " ; "))
			case t == inc:
				ok, _ := HasAtom(gs, `^!`+eq(sign(q(rem)), "0")+`$`)
				r.Check(ok, rule, key+"/inexact=>quotient+1", P.InstrPos(ret), "quotient+1 when the remainder is non-zero", "quotient+1 is returned under "+strings.Join(atomStrings(gs), " ; "))
			default:
				r.Viol(rule, key+"/unknown-shape", P.InstrPos(ret), "chopPrecisionAndRoundUp returns "+t)
			}
		}
	}
	if f := r.fn("types.chopPrecisionAndRound"); f != nil {
		cmp := `\(\*math/big\.Int\)\.Cmp\(` + q(rem) + `, global:types\.fivePrecision\)`
		cmpSw := `\(\*math/big\.Int\)\.Cmp\(global:types\.fivePrecision, ` + q(rem) + `\)` // atoms spell "above half" as Cmp(half, rem) < 0
		for i, alt := range P.RetAlternatives(f, 0) {
			ret, t, gs := alt.Ret, alt.T.String(), alt.G
			isNeg, _ := HasAtom(gs, neg)
			key := fmt.Sprintf("Round/return#%d", i)
			switch {
			case isNeg:
				want := "(*math/big.Int).Neg(types.chopPrecisionAndRound((*math/big.Int).Neg(param:d, param:d)), types.chopPrecisionAndRound((*math/big.Int).Neg(param:d, param:d)))"
				r.Check(t == want, rule, key+"/negative=negate-round-negate", P.InstrPos(ret), t, "for a negative value chopPrecisionAndRound returns "+t+" ; required "+want)
			case t == quo:
				z, _ := HasAtom(gs, `^`+eq(sign(q(rem)), "0")+`$`)
				lt, _ := HasAtom(gs, `^(`+eq(cmp, "-1")+`|\(`+cmp+` < 0\))$`)
				even, _ := HasAtom(gs, `^`+eq(`\(\*math/big\.Int\)\.Bit\(`+q(quo)+`, 0\)`, "0")+`$`)
				nb, _ := HasAtom(gs, `^!(`+eq(cmp, "-1")+`|\(`+cmp+` < 0\))$`)
				na, _ := HasAtom(gs, `^!\(`+cmpSw+` < 0\)$`)
				tie0, _ := HasAtom(gs, `^`+eq(cmp, "0")+`$`)
				tieD := (nb && na) || tie0
				r.Check(z || lt || (even && tieD), rule, key+"/down-iff-below-half-or-even-tie", P.InstrPos(ret), "quotient kept for remainder 0, < half, or an even quotient at the tie", "the quotient is kept under "+strings.Join(atomStrings(gs), " ; "))
			case t == inc:
				gt, _ := HasAtom(gs, `^\(`+cmpSw+` < 0\)$`)
				odd, _ := HasAtom(gs, `^!`+eq(`\(\*math/big\.Int\)\.Bit\(`+q(quo)+`, 0\)`, "0")+`$`)
				// Cmp yields -1, 0 or 1: the tie is "neither below nor above", however the comparison is spelled
				tie1, _ := HasAtom(gs, `^!(`+eq(cmp, "-1")+`|\(`+cmp+` < 0\))$`)
				tie2, _ := HasAtom(gs, `^!\(`+cmpSw+` < 0\)$`)
				if tie, _ := HasAtom(gs, `^`+eq(cmp, "0")+`$`); tie {
					tie1, tie2 = true, true
				}
				r.Check(gt || (odd && tie1 && tie2), rule, key+"/up-iff-above-half-or-odd-tie", P.InstrPos(ret), "quotient+1 for remainder > half or an odd quotient at the tie", "quotient+1 is returned under "+strings.Join(atomStrings(gs), " ; "))
			default:
				r.Viol(rule, key+"/unknown-shape", P.InstrPos(ret), "chopPrecisionAndRound returns "+t)
			}
		}
	}
}

// coinsMergeSiblings: the three arms of Coins.safeAdd drop exactly the zero coins (C18-R5).
func coinsMergeSiblings(r *Run, rule string) {
	P := r.P
	r.Rule(rule, "sibling agreement in Coins.safeAdd (used by Add, Sub, SafeSub): each of the three merge arms appends its coin under the same test !coin.IsZero() — negative coins must survive so that SafeSub can report them; the tails are appended through removeZeroCoins", 4)
	f := r.fn("(types.Coins).safeAdd")
	if f == nil {
		return
	}
	n := 0
	isAppend := func(in ssa.Instruction) bool {
		ci, ok := in.(ssa.CallInstruction)
		if !ok {
			return false
		}
		op, nm := calleeName(ci.Common())
		return op == "builtin" && nm == "append"
	}
	// append sites are counted per calling context, so the three arms may share an extracted helper
	for _, s := range P.CtxSites(f, isAppend) {
		in := s.In
		ci := in.(ssa.CallInstruction)
		if len(ci.Common().Args) < 2 {
			continue
		}
		el := P.CtxTerm(s, ci.Common().Args[1]).String()
		if strings.HasPrefix(el, "types.removeZeroCoins(") {
			n++
			r.OK(rule, fmt.Sprintf("safeAdd/tail#%d", n), P.InstrPos(in), el)
			continue
		}
		if !strings.HasPrefix(el, "list(") {
			continue
		}
		n++
		coin := strings.TrimSuffix(strings.TrimPrefix(el, "list("), ")")
		gs := P.CtxGuards(s, 0)
		ok2, _ := HasAtom(gs, `^!\(types\.Coin\)\.IsZero\(`+q(coin)+`\)$`)
		// no narrower sign test on the same coin
		narrower := false
		for _, a := range gs {
			k := a.Key()
			if strings.Contains(k, "IsPositive(") || strings.Contains(k, "IsNegative(") {
				narrower = true
			}
		}
		r.Check(ok2 && !narrower, rule, fmt.Sprintf("safeAdd/append#%d/non-zero-kept", n), P.InstrPos(in), "appended iff !IsZero", "the merge arm appends "+coin+" under {"+strings.Join(atomStrings(gs), " ; ")+"} ; required exactly !IsZero (a sign test drops negative coins, so SafeSub would not report the overdraft)")
	}
	r.Check(n == 5, rule, "safeAdd/five-appends", P.Pos(f.Pos()), "three arms + two tails", fmt.Sprintf("%d append sites in safeAdd (expected 5)", n))
	if g := r.fn("(types.Coins).SafeSub"); g != nil {
		for _, ret := range Returns(g) {
			a, b := P.TermAt(ret.Results[0], ret).String(), P.TermAt(ret.Results[1], ret).String()
			ok := a == "(types.Coins).safeAdd(param:coins, (types.Coins).negative(param:coinsB))" && b == "(types.Coins).IsAnyNegative("+a+")"
			r.Check(ok, rule, "SafeSub/shape", P.InstrPos(ret), a+" , "+b, "SafeSub returns ("+a+", "+b+") ; required (coins.safeAdd(coinsB.negative()), that.IsAnyNegative())")
		}
	}
}

// passphraseKDF: the key derivation uses the whole passphrase (C19-R5).
func passphraseKDF(r *Run, rule string) {
	P := r.P
	r.Rule(rule, "a wrong passphrase never yields a key: encryptPrivKey and decryptPrivKey derive the AES key with scrypt over the complete passphrase bytes and the stored salt; decryption failure is returned as an error before any key is constructed", 4)
	for _, w := range []struct{ fn, salt string }{{"crypto/keys/mintkey.encryptPrivKey", "github.com/tendermint/tendermint/crypto.CRandBytes(16)"}, {"crypto/keys/mintkey.decryptPrivKey", "param:saltBytes"}} {
		f := r.fn(w.fn)
		if f == nil {
			continue
		}
		if c := r.oneCall(rule, w.fn, f, "golang.org/x/crypto/scrypt.Key"); c != nil {
			t := P.callTerm(c)
			r.Check(argTerm(t, 0).String() == "param:passphrase" && argTerm(t, 1).String() == w.salt, rule, w.fn+"/kdf-over-whole-passphrase", P.InstrPos(c), t.String(), "the key is derived as "+t.String()+" ; required scrypt.Key([]byte(passphrase), "+w.salt+", …) over the unmodified passphrase")
			r.Check(len(P.Guards(c, 0)) == 0, rule, w.fn+"/kdf-unconditional", P.InstrPos(c), "unconditional", "conditional key derivation")
		}
	}
	if f := r.fn("crypto/keys/mintkey.decryptPrivKey"); f != nil {
		if c := r.oneCall(rule, "decryptPrivKey", f, "crypto.NewPrivateKeyBz"); c != nil {
			r.requireAtoms(rule, "decryptPrivKey/key-only-after-authenticated-decrypt", c, P.Guards(c, 0), []req{{"aes-gcm-open-ok", `^isnil\(crypto/keys/mintkey\.DecryptAESGCM\(golang\.org/x/crypto/scrypt\.Key\(param:passphrase, param:saltBytes, .*\)#0, param:encBytes\)#1\)$`}})
		}
	}
	if f := r.fn("crypto/keys/mintkey.UnarmorDecryptPrivKey"); f != nil {
		if c := r.oneCall(rule, "UnarmorDecryptPrivKey", f, "crypto/keys/mintkey.decryptPrivKey"); c != nil {
			t := P.callTerm(c)
			r.Check(argTerm(t, 2).String() == "param:passphrase", rule, "UnarmorDecryptPrivKey/passes-passphrase", P.InstrPos(c), t.String(), "decryptPrivKey receives passphrase "+argTerm(t, 2).String())
		}
	}
	if f := r.fn("crypto/keys/mintkey.DecryptAESGCM"); f != nil {
		for i, ret := range P.successReturns(f, 1, "nil") {
			ok, _ := HasAtom(P.Guards(ret, 0), `^isnil\(crypto/cipher\.AEAD\.Open\(`)
			r.Check(ok, rule, fmt.Sprintf("DecryptAESGCM/success-only-if-authenticated#%d", i), P.InstrPos(ret), "success only after gcm.Open succeeded", "DecryptAESGCM can return success without a successful authenticated decryption")
		}
	}
	_ = ssa.Instruction(nil)
}
