package main

import (
	"fmt"
	"strings"

	"golang.org/x/tools/go/ssa"
)

// Rules added after the third round of seeded changes (second half).

// loadVersionCommitsLast: LoadVersion changes the store's own state only once nothing can fail any more (C12-R11, C13-R8).
func loadVersionCommitsLast(r *Run, rule string) {
	P := r.P
	r.Rule(rule, "a failed (re)load leaves the multistore as it was: in rootmulti.LoadVersion no assignment to rs.lastCommitID or rs.stores is followed, on any path, by a return of a non-nil error", 2)
	f := r.fn(rmS + "LoadVersion")
	if f == nil {
		return
	}
	isFail := func(in ssa.Instruction) bool {
		ret, ok := in.(*ssa.Return)
		if !ok || ret.Parent() != f {
			return false
		}
		c, _ := P.retClass(ret, 0)
		return c != "nil"
	}
	n := 0
	Instrs(f, func(in ssa.Instruction) {
		st, ok := in.(*ssa.Store)
		if !ok {
			return
		}
		a := P.TermAt(st.Addr, st).String()
		if a != "&param:rs.lastCommitID" && a != "&param:rs.stores" {
			return
		}
		n++
		reach, w, path := ReachWithout(f, st, isFail, nil, nil)
		r.Check(!reach, rule, fmt.Sprintf("LoadVersion/%s#%d/no-failure-after", strings.TrimPrefix(a, "&param:rs."), n), P.InstrPos(st), "nothing can fail after this assignment", fmt.Sprintf("after %s is assigned a path still returns an error (%s): a failed load reports the requested version while the substores stay where they were: %s", strings.TrimPrefix(a, "&param:"), P.InstrPos(w), P.blockPathString(path)))
	})
	if n == 0 {
		r.Viol(rule, "LoadVersion/assigns-state", P.Pos(f.Pos()), "LoadVersion no longer assigns rs.lastCommitID / rs.stores")
	}
}

// dirtyItemsValue: the sorted dirty list carries the cached value itself, nil-ness included (C15-R10).
func dirtyItemsValue(r *Run, rule string) {
	P := r.P
	r.Rule(rule, "a cached value and a tombstone stay distinguishable in iteration: dirtyItems puts cacheValue.value itself into the sorted list (nil = deleted, empty = set to empty); no copy or conversion that maps an empty value to nil", 1)
	f := r.fn(ckS + "dirtyItems")
	if f == nil {
		return
	}
	n := 0
	Instrs(f, func(in ssa.Instruction) {
		st, ok := in.(*ssa.Store)
		if !ok {
			return
		}
		if a := P.TermAt(st.Addr, st).String(); a != "&addr:complit.Value" {
			return
		}
		n++
		v := P.TermAt(st.Val, st).String()
		ok2 := strings.HasPrefix(v, "param:store.cache[") && strings.HasSuffix(v, "].value")
		r.Check(ok2, rule, "dirtyItems/value-is-cached-value", P.InstrPos(st), v, "the dirty item's Value is "+oneLine(v)+" ; required the cached value itself (store.cache[key].value)")
	})
	if n == 0 {
		r.Viol(rule, "dirtyItems/value-is-cached-value", P.Pos(f.Pos()), "no KVPair with a Value is built in dirtyItems")
	}
}

// int64ConversionsTestTheirOperand: the range test and the conversion are applied to the same value (C18-R6).
func int64ConversionsTestTheirOperand(r *Run, rule string) {
	P := r.P
	r.Rule(rule, "narrowing conversions test what they convert: Int.Int64, Uint.Uint64, Dec.RoundInt64 and Dec.TruncateInt64 return X.Int64()/X.Uint64() only under X.IsInt64()/X.IsUint64() of the very same X", 4)
	for _, w := range []struct{ fn, conv, test string }{
		{"(types.Int).Int64", "(*math/big.Int).Int64", "(*math/big.Int).IsInt64"},
		{"(types.Uint).Uint64", "(*math/big.Int).Uint64", "(*math/big.Int).IsUint64"},
		{"(types.Dec).RoundInt64", "(*math/big.Int).Int64", "(*math/big.Int).IsInt64"},
		{"(types.Dec).TruncateInt64", "(*math/big.Int).Int64", "(*math/big.Int).IsInt64"},
	} {
		f := r.fnOpt(w.fn)
		if f == nil {
			continue
		}
		for i, ret := range Returns(f) {
			t := P.TermAt(ret.Results[0], ret)
			key := fmt.Sprintf("%s/return#%d/same-operand", w.fn, i)
			if t.Op != "call" || t.Name != w.conv || len(t.Args) == 0 {
				r.Viol(rule, key, P.InstrPos(ret), w.fn+" returns "+oneLine(t.String())+" ; required "+w.conv+"(X)")
				continue
			}
			x := t.Args[0].String()
			ok, _ := HasAtom(P.Guards(ret, 0), `^`+q(w.test+"("+x+")")+`$`)
			r.Check(ok, rule, key, P.InstrPos(ret), "tested and converted: "+oneLine(x), w.fn+" converts "+oneLine(x)+" but the range test on the way is {"+strings.Join(atomStrings(P.Guards(ret, 0)), " ; ")+"}: the value converted is not the value tested, so an out-of-range result wraps silently")
		}
	}
}

// removeZeroCoinsShape: after removing an element the same index is examined again (C18-R7, C02-R12).
func removeZeroCoinsShape(r *Run, rule string) {
	P := r.P
	r.Rule(rule, "removeZeroCoins examines every element: the index advances only when the element at it was kept (after a removal the element that slid into the position is tested too), and the result is the prefix up to that index", 2)
	f := r.fn("types.removeZeroCoins")
	if f == nil {
		return
	}
	for _, c := range CallsIn(f, "(types.Coin).IsZero") {
		// the index operand of coins[i]
		var idx *Term
		a := argTerm(P.callTerm(c), 0)
		if a != nil && a.Op == "index" && len(a.Args) >= 2 {
			idx = a.Args[1]
		}
		if idx == nil {
			s := a.String()
			r.Check(strings.Contains(s, ", loop:"), rule, "removeZeroCoins/index-kept-after-removal", P.InstrPos(c), "index phi has an unchanged alternative", "IsZero is applied to "+oneLine(s))
			continue
		}
		keeps := false
		if idx.Op == "phi" {
			for _, e := range idx.Args {
				if e.Op == "loop" {
					keeps = true
				}
			}
		}
		r.Check(keeps, rule, "removeZeroCoins/index-kept-after-removal", P.InstrPos(c), "the loop index has an alternative in which it is unchanged (the removal path)", "the loop index is "+oneLine(idx.String())+": it advances on every iteration, so the element that slides into a removed position is never tested (two adjacent zero coins leave one behind)")
		for _, ret := range Returns(f) {
			t := P.TermAt(ret.Results[0], ret).String()
			r.Check(strings.HasSuffix(t, "[_, "+idx.String()+", _]"), rule, "removeZeroCoins/returns-prefix-up-to-index", P.InstrPos(ret), "coins[:i]", "removeZeroCoins returns "+oneLine(t)+" ; required the prefix up to the scan index")
		}
	}
	if len(CallsIn(f, "(types.Coin).IsZero")) == 0 {
		r.Viol(rule, "removeZeroCoins/tests-IsZero", P.Pos(f.Pos()), "removeZeroCoins no longer tests IsZero")
	}
}

// bigHelperTable: the arithmetic helpers every Int/Uint operation goes through call the big.Int method of their name (C18-R8).
func bigHelperTable(r *Run, rule string) {
	P := r.P
	r.Rule(rule, "the helper table of types/int.go is what it says: add/sub/mul/div/mod/neg return new(big.Int).{Add,Sub,Mul,Quo,Mod,Neg} of their operands in order (div truncates toward zero: Quo, not the Euclidean Div); equal/gt/gte/lt/lte compare Cmp(i, i2) with 0, 1, >=0, -1, <=0", 11)
	want := map[string]string{
		"add": "(*math/big.Int).Add(addr:new, param:i, param:i2)", "sub": "(*math/big.Int).Sub(addr:new, param:i, param:i2)",
		"mul": "(*math/big.Int).Mul(addr:new, param:i, param:i2)", "div": "(*math/big.Int).Quo(addr:new, param:i, param:i2)",
		"mod": "(*math/big.Int).Mod(addr:new, param:i, param:i2)", "neg": "(*math/big.Int).Neg(addr:new, param:i)",
		"equal": "((*math/big.Int).Cmp(param:i, param:i2) == 0)", "gt": "((*math/big.Int).Cmp(param:i2, param:i) == -1)",
		"gte": "((*math/big.Int).Cmp(param:i2, param:i) <= 0)", "lt": "((*math/big.Int).Cmp(param:i, param:i2) == -1)",
		"lte": "((*math/big.Int).Cmp(param:i, param:i2) <= 0)",
	}
	// terms are canonical (a > b is spelled b < a, Cmp(a,b) == 1 is spelled Cmp(b,a) == -1); == -1 and < 0 are the same test
	alt := map[string][]string{
		"gt": {"((*math/big.Int).Cmp(param:i2, param:i) < 0)"},
		"lt": {"((*math/big.Int).Cmp(param:i, param:i2) < 0)"},
	}
	for _, n := range []string{"add", "sub", "mul", "div", "mod", "neg", "equal", "gt", "gte", "lt", "lte"} {
		f := r.fn("types." + n)
		if f == nil {
			continue
		}
		for _, ret := range Returns(f) {
			t := P.TermAt(ret.Results[0], ret).String()
			ok := t == want[n]
			for _, a := range alt[n] {
				if t == a {
					ok = true
				}
			}
			r.Check(ok, rule, "types."+n, P.InstrPos(ret), t, "types."+n+" returns "+t+" ; required "+want[n])
		}
	}
}

func init() {
	extend("C12", func(r *Run) { loadVersionCommitsLast(r, "C12-R11") })
	extend("C13", func(r *Run) { loadVersionCommitsLast(r, "C13-R8") })
	extend("C15", func(r *Run) { dirtyItemsValue(r, "C15-R10") })
	extend("C18", func(r *Run) {
		int64ConversionsTestTheirOperand(r, "C18-R6")
		removeZeroCoinsShape(r, "C18-R7")
		bigHelperTable(r, "C18-R8")
	})
	extend("C02", func(r *Run) { removeZeroCoinsShape(r, "C02-R12") })
}

// govExportShape: the gov genesis export carries every governance parameter (C17-R8).
func govExportShape(r *Run, rule string) {
	P := r.P
	r.Rule(rule, "export and import of governance state compose: gov Keeper.ExportGenesis returns NewGenesisState(k.GetParams(ctx), k.GetDAOTokens(ctx)) — the complete parameter set (ACL, DAO owner, upgrade plan), not a re-assembled subset", 1)
	if f := r.fn("(x/gov/keeper.Keeper).ExportGenesis"); f != nil {
		for _, ret := range Returns(f) {
			t := P.TermAt(ret.Results[0], ret).String()
			want := "x/gov/types.NewGenesisState((x/gov/keeper.Keeper).GetParams(param:k, param:ctx), (x/gov/keeper.Keeper).GetDAOTokens(param:k, param:ctx))"
			r.Check(t == want, rule, "ExportGenesis/shape", P.InstrPos(ret), t, "ExportGenesis returns "+oneLine(t)+" ; required "+want+" (a parameter left out of the export silently reverts to its zero value on import, without any governance message)")
		}
	}
}

// decodeErrorsChecked: a failed decode is never mistaken for a decoded value (C20-R7).
func decodeErrorsChecked(r *Run, rule string) {
	P := r.P
	r.Rule(rule, "malformed input is rejected: the error result of every non-panicking amino / encoding-json decode call in the repo (Codec.UnmarshalJSON, UnmarshalBinaryBare, UnmarshalBinaryLengthPrefixed, json.Unmarshal) is used — never discarded or overwritten before it is looked at", 5)
	isDecode := func(name string) bool {
		switch name {
		case "(*github.com/tendermint/go-amino.Codec).UnmarshalJSON", "(*github.com/tendermint/go-amino.Codec).UnmarshalBinaryBare",
			"(*github.com/tendermint/go-amino.Codec).UnmarshalBinaryLengthPrefixed", "encoding/json.Unmarshal",
			"(*codec.Codec).UnmarshalJSON", "(*codec.Codec).UnmarshalBinaryBare", "(*codec.Codec).UnmarshalBinaryLengthPrefixed":
			return true
		}
		return false
	}
	n := 0
	for _, f := range P.RepoFns {
		f := f
		InstrsRaw(f, func(in ssa.Instruction) {
			c, ok := in.(*ssa.Call)
			if !ok {
				return
			}
			_, name := calleeName(c.Common())
			if !isDecode(name) {
				return
			}
			n++
			used := false
			for _, u := range *c.Referrers() {
				if _, dbg := u.(*ssa.DebugRef); !dbg {
					used = true
				}
			}
			key := "decode-error-used@" + short(P.liftToPinned(f).String())
			if used {
				r.OK(rule, key, P.InstrPos(c), name)
			} else {
				r.Viol(rule, key, P.InstrPos(c), short(f.String())+" ignores the error of "+name+": input that does not decode is accepted with whatever was decoded so far (zero values for the rest)")
			}
		})
	}
	r.Stats["decode_calls_checked"] = n
}

func init() {
	extend("C17", func(r *Run) { govExportShape(r, "C17-R8") })
	extend("C20", func(r *Run) { decodeErrorsChecked(r, "C20-R7") })
	extend("C14", func(r *Run) { pruningWiring(r, "C14-R8") })
}

// creditCannotFailLate: the credit half of a transfer fails only for the vetted causes (C11-R12, C02-R13). The E5
// table entry that declares "SubtractCoins wrote, then AddCoins failed" infeasible rests on exactly this.
func creditCannotFailLate(r *Run, rule string) {
	P := r.P
	r.Rule(rule, "the credit side of SendCoins has no failure of its own: every failure return of AddCoins, Keeper.SetCoins and NewAccountWithAddress is caused by one of the vetted tests (invalid amount, negative sum, account construction via SetAddress, the account's own SetCoins) — a new refusal there would reject a transfer after the sender was already debited", 6)
	type spec struct {
		fn     string
		idx    int
		causes []string
	}
	for _, w := range []spec{
		{"(x/auth/keeper.Keeper).AddCoins", 1, []string{`^!\(types\.Coins\)\.IsValid\(param:amt\)$`, `^\(types\.Coins\)\.IsAnyNegative\(`, `^!isnil\(\(x/auth/keeper\.Keeper\)\.SetCoins\(`}},
		{"(x/auth/keeper.Keeper).SetCoins", 0, []string{`^!\(types\.Coins\)\.IsValid\(param:amt\)$`, `^!isnil\(\(x/auth/keeper\.Keeper\)\.NewAccountWithAddress\(param:k, param:ctx, param:addr\)#1\)$`, `^!isnil\(x/auth/exported\.Account\.SetCoins\(`}},
		{"(x/auth/keeper.Keeper).NewAccountWithAddress", 1, []string{`^!isnil\(\(\*x/auth/types\.BaseAccount\)\.SetAddress\(`}},
	} {
		f := r.fn(w.fn)
		if f == nil {
			continue
		}
		for i, a := range P.RetAlternatives(f, w.idx) {
			t := a.T.String()
			if t == "nil" {
				continue
			}
			// `return x, err` forwarding a callee's error: the cause is that callee's failure
			if a.T.Op == "call" || a.T.Op == "invoke" || a.T.Op == "extract" {
				if c, _ := P.retClass(a.Ret, w.idx); c == "unknown" {
					ok := false
					for _, re := range w.causes {
						if reMatch(re, "!isnil("+t+")") {
							ok = true
						}
					}
					r.Check(ok, rule, fmt.Sprintf("%s/failure#%d/vetted-cause", w.fn, i), P.InstrPos(a.Ret), "forwards "+oneLine(t), w.fn+" forwards the error of "+oneLine(t)+", which is not one of the vetted failure causes")
					continue
				}
			}
			ok := false
			for _, re := range w.causes {
				if h, _ := HasAtom(a.G, re); h {
					ok = true
				}
			}
			if !ok && P.deadNilBranch(a.G) {
				r.OK(rule, fmt.Sprintf("%s/failure#%d/dead-branch", w.fn, i), P.InstrPos(a.Ret), "unreachable: tests a freshly constructed value for nil")
				continue
			}
			r.Check(ok, rule, fmt.Sprintf("%s/failure#%d/vetted-cause", w.fn, i), P.InstrPos(a.Ret), "vetted cause", w.fn+" fails under {"+strings.Join(atomStrings(a.G), " ; ")+"}: not one of the vetted causes — SendCoins has already debited the sender when this is reached (rejected transfer leaves the debit behind)")
		}
	}
}

// exitOnlyAfterACL: the wiring-error exits of the gov keeper are unreachable for an unauthorised sender (C11-R13, C17-R9).
func exitOnlyAfterACL(r *Run, rule string) {
	r.Rule(rule, "no transaction can stop the node: the os.Exit on an unknown subspace in ModifyParam / HandleUpgrade is reached only after VerifyACL accepted the sender for that key (an unknown key has no owner, so the exit is then unreachable from a transaction)", 2)
	for _, n := range []string{"(x/gov/keeper.Keeper).ModifyParam", "(x/gov/keeper.Keeper).HandleUpgrade"} {
		f := r.fn(n)
		if f == nil {
			continue
		}
		for _, c := range CallsIn(f, "os.Exit") {
			r.requireCut(rule, n+"/exit", nil, c, "acl-verified", `^isnil\(\(x/gov/keeper\.Keeper\)\.VerifyACL\(param:k, param:ctx, param:aclKey, param:owner\)\)$`)
		}
	}
}

func init() {
	extend("C11", func(r *Run) {
		creditCannotFailLate(r, "C11-R12")
		exitOnlyAfterACL(r, "C11-R13")
	})
	extend("C02", func(r *Run) { creditCannotFailLate(r, "C02-R13") })
	extend("C17", func(r *Run) { exitOnlyAfterACL(r, "C17-R9") })
}

// deadNilBranch: the guards require result #0 of a repo call to be nil although the call succeeded (its error result
// is nil) and every success return of that callee yields the address of a fresh object: the branch cannot be taken.
func (P *Prog) deadNilBranch(gs []Atom) bool {
	for _, a := range gs {
		if !a.Pos || a.T.Op != "call" || a.T.Name != "isnil" || len(a.T.Args) != 1 {
			continue
		}
		x := a.T.Args[0]
		if x.Op != "extract" || x.Name != "0" || len(x.Args) != 1 || x.Args[0].Op != "call" {
			continue
		}
		callee := P.Fn(x.Args[0].Name)
		if callee == nil {
			continue
		}
		ei, _ := errIndex(callee.Signature)
		if ei < 0 {
			continue
		}
		// the same call's error result is known nil on this path
		okErr, _ := HasAtom(gs, `^`+q("isnil("+x.Args[0].String()+"#"+itoa(ei)+")")+`$`)
		if !okErr {
			continue
		}
		fresh := true
		n := 0
		for _, ret := range Returns(callee) {
			if c, _ := P.retClass(ret, ei); c != "nil" {
				continue
			}
			n++
			t := P.TermAt(ret.Results[0], ret).String()
			if !(strings.HasPrefix(t, "&") || strings.HasPrefix(t, "addr:")) {
				fresh = false
			}
		}
		if fresh && n > 0 {
			return true
		}
	}
	return false
}
