package main

import (
	"fmt"
	"strings"

	"golang.org/x/tools/go/ssa"
)

func init() {
	register("C06", checkC06)
	register("C09", checkC09)
}

const (
	unstIt  = posK + "unstakingValidatorsIterator(param:k, param:ctx, types.Ctx.BlockHeader(param:ctx).Time)"
	blkTime = "types.Ctx.BlockHeader(param:ctx).Time"
)

func checkC06(r *Run) {
	P := r.P
	r.NotDecided("pay-out timing as a multi-block fact (decided: the queue key is begin-time+UnstakingTime from the block header, the maturity scan is inclusive of the block time, every scanned entry is finished or skipped and the queue key deleted)")
	r.NotDecided("the minimum-stake invariant as a state property (decided: the guards on each transition)")

	// ------------------------------------------------------------------ R1
	r.Rule("C06-R1", "transition table: Validator.Status is assigned only by UpdateStatus / constructors / decoding; each UpdateStatus(X) site lies in its vetted function and is reached only under its vetted status guard: ->Staked in StakeValidator (callers validated IsUnstaked, amount>=MinimumStake, HasCoins), ->Unstaking in BeginUnstakingValidator (found, IsStaked), ->Unstaked in FinishUnstakingValidator (IsUnstaking) and ForceValidatorUnstake", 14)
	checkFieldWriters(r, "C06-R1", "x/pos/types", "Validator", "Status", []string{vT + "UpdateStatus", "x/pos/types.NewValidator", "(*x/pos/types.Validator).UnmarshalJSON", "x/pos.stakeNewValidator"})
	// UpdateStatus sites
	allowedSites := map[string]string{
		posK + "StakeValidator":           "2",
		posK + "BeginUnstakingValidator":  "1",
		posK + "FinishUnstakingValidator": "0",
		posK + "ForceValidatorUnstake":    "0",
	}
	if us := r.fn(vT + "UpdateStatus"); us != nil {
		for _, e := range r.edgesTo(us) {
			n := short(e.Caller.String())
			st := argTerm(P.callTerm(e.Site), 1).String()
			want, ok := allowedSites[n]
			r.Check(ok && st == want, "C06-R1", "UpdateStatus@"+n, P.InstrPos(e.Site), "status "+st+" assigned in its vetted function", fmt.Sprintf("%s assigns status %s (vetted sites: StakeValidator→2, BeginUnstakingValidator→1, FinishUnstakingValidator→0, ForceValidatorUnstake→0)", n, st))
		}
		for _, ret := range Returns(us) {
			t := P.TermAt(ret.Results[0], ret).String()
			r.Check(t == "upd(param:v, Status=param:newStatus)", "C06-R1", "UpdateStatus/body", P.InstrPos(ret), t, "UpdateStatus returns "+t)
		}
	}
	// callers and their guards
	stakeGuards(r, "C06-R1")
	if f := r.fn("x/pos.stakeNewValidator"); f != nil {
		// new validator: not registered before, status forced to Unstaked before validation
		if c := r.oneCall("C06-R1", "stakeNewValidator", f, posK+"RegisterValidator"); c != nil {
			r.requireAtoms("C06-R1", "stakeNewValidator/register", c, P.Guards(c, 0), []req{
				{"not-registered", `^!` + q(posK+"GetValidator(param:k, param:ctx, ") + `.*param:msg\.PubKey.*\)#1$`},
			})
		}
	}
	if f := r.fn(posK + "BeginUnstakingValidator"); f != nil {
		r.callersExactly("C06-R1", "BeginUnstakingValidator", r.edgesTo(f), []string{"x/pos.handleMsgBeginUnstake"})
		for _, e := range r.edgesTo(f) {
			t := P.callTerm(e.Site)
			v := argTerm(t, 2).String()
			r.requireAtoms("C06-R1", "BeginUnstakingValidator@handleMsgBeginUnstake", e.Site, P.Guards(e.Site, 2), []req{
				{"found", `^` + q(posK+"GetValidator(param:k, param:ctx, param:msg.Address)#1") + `$`},
				{"is-staked", `^` + q(vT+"IsStaked("+v+")") + `$`},
			})
			r.Check(v == posK+"GetValidator(param:k, param:ctx, param:msg.Address)#0", "C06-R1", "BeginUnstakingValidator/subject", P.InstrPos(e.Site), v, "begins unstaking "+v)
		}
	}
	if f := r.fn(posK + "FinishUnstakingValidator"); f != nil {
		r.callersExactly("C06-R1", "FinishUnstakingValidator", r.edgesTo(f), []string{posK + "unstakeAllMatureValidators"})
		for _, e := range r.edgesTo(f) {
			v := argTerm(P.callTerm(e.Site), 2).String()
			gs := P.Guards(e.Site, 2)
			r.requireAtoms("C06-R1", "FinishUnstakingValidator@unstakeAllMatureValidators", e.Site, gs, []req{
				{"is-unstaking", `^` + q(vT+"IsUnstaking("+v+")") + `$`},
				{"validated", `^isnil\(` + q(posK+"ValidateValidatorFinishUnstaking(param:k, param:ctx, "+v+")") + `\)$`},
			})
		}
	}
	if f := r.fn(posK + "ForceValidatorUnstake"); f != nil {
		r.callersExactly("C06-R1", "ForceValidatorUnstake", r.edgesTo(f), []string{posK + "slash", posK + "handleDoubleSign"})
	}
	for _, w := range []struct{ m, val string }{{"IsUnstaked", "0"}, {"IsUnstaking", "1"}, {"IsStaked", "2"}} {
		if f := r.fn(vT + w.m); f != nil {
			for _, ret := range Returns(f) {
				t := P.TermAt(ret.Results[0], ret).String()
				r.Check(t == "(types.StakeStatus).Equal(param:v.Status, "+w.val+")", "C06-R1", "Validator."+w.m, P.InstrPos(ret), t, w.m+" is "+t)
			}
		}
	}

	// ------------------------------------------------------------------ R2
	r.Rule("C06-R2", "queue coupling: BeginUnstakingValidator removes the validator from the power index, sets status Unstaking and UnstakingCompletionTime = block header time + params.UnstakingTime, persists the record and queues the same value; the queue is keyed by val.UnstakingCompletionTime", 9)
	if f := r.fn(posK + "BeginUnstakingValidator"); f != nil {
		newV := "upd(" + vT + "UpdateStatus(param:validator, 1), UnstakingCompletionTime=(time.Time).Add(" + blkTime + ", " + posK + "GetParams(param:k, param:ctx).UnstakingTime))"
		if c := r.oneCall("C06-R2", "BeginUnstaking", f, posK+"deleteValidatorFromStakingSet"); c != nil {
			r.Check(argTerm(P.callTerm(c), 2).String() == "param:validator", "C06-R2", "BeginUnstaking/leaves-power-index", P.InstrPos(c), "removes the entry of the still-staked record", "removes "+argTerm(P.callTerm(c), 2).String())
		}
		for _, n := range []string{"SetValidator", "SetUnstakingValidator"} {
			if c := r.oneCall("C06-R2", "BeginUnstaking", f, posK+n); c != nil {
				got := argTerm(P.callTerm(c), 2).String()
				r.Check(got == newV, "C06-R2", "BeginUnstaking/"+n+"-value", P.InstrPos(c), got, n+" receives "+got+" ; required "+newV)
				r.Check(len(P.Guards(c, 0)) == 0, "C06-R2", "BeginUnstaking/"+n+"-unconditional", P.InstrPos(c), "unconditional", n+" is conditional")
			}
		}
		for _, n := range []string{"deleteValidatorFromStakingSet", "SetValidator", "SetUnstakingValidator"} {
			reach, _, path := ReachWithout(f, nil, isReturn, CallTo(posK+n), nil)
			r.Check(!reach, "C06-R2", "BeginUnstaking/always:"+n, P.Pos(f.Pos()), "on every path", "a path returns without "+n+": "+P.blockPathString(path))
		}
	}
	if f := r.fn(posK + "SetUnstakingValidator"); f != nil {
		if c := r.oneCall("C06-R2", "SetUnstakingValidator", f, posK+"setUnstakingValidators"); c != nil {
			t := P.callTerm(c).String()
			want := posK + "setUnstakingValidators(param:k, param:ctx, param:val.UnstakingCompletionTime, append(" + posK + "getUnstakingValidators(param:k, param:ctx, param:val.UnstakingCompletionTime), list(param:val.Address)))"
			r.Check(t == want, "C06-R2", "SetUnstakingValidator/appends-at-completion-time", P.InstrPos(c), t, "queue write is "+t+" ; required "+want)
		}
		r.callersExactly("C06-R2", "SetUnstakingValidator", r.edgesTo(f), []string{posK + "BeginUnstakingValidator", "x/pos.InitGenesis"})
	}
	for _, w := range []struct{ fn, op string }{{"setUnstakingValidators", "Set"}, {"deleteUnstakingValidators", "Delete"}, {"getUnstakingValidators", "Get"}} {
		if f := r.fn(posK + w.fn); f != nil {
			for _, c := range CallsIn(f, "store/types.KVStore."+w.op) {
				got := argTerm(P.callTerm(c), 1).String()
				r.Check(got == "x/pos/types.KeyForUnstakingValidators(param:unstakingTime)", "C06-R2", w.fn+"/key", P.InstrPos(c), got, w.fn+" uses key "+got)
			}
		}
	}
	// the queue helpers have exactly their vetted callers (a whole-slot delete anywhere else drops other validators' entries)
	for fn, callers := range map[string][]string{
		"setUnstakingValidators":    {posK + "SetUnstakingValidator", posK + "deleteUnstakingValidator"},
		"deleteUnstakingValidators": {posK + "deleteUnstakingValidator"},
		"deleteUnstakingValidator":  {posK + "FinishUnstakingValidator", posK + "ForceValidatorUnstake"},
	} {
		if f := r.fn(posK + fn); f != nil {
			r.callersExactly("C06-R2", fn, r.edgesTo(f), callers)
		}
	}
	if f := r.fn(posK + "deleteUnstakingValidator"); f != nil {
		// removes only the given address: the slot is deleted only when no other address remains
		for _, c := range CallsIn(f, posK+"deleteUnstakingValidators") {
			ok, _ := HasAtom(P.Guards(c, 0), `^\(0 == len\(phi\(`)
			ok2, _ := HasAtom(P.Guards(c, 0), `^\(len\(phi\(.*\)\) == 0\)$`)
			r.Check(ok || ok2, "C06-R2", "deleteUnstakingValidator/slot-deleted-only-when-empty", P.InstrPos(c), "whole slot removed only when no address remains", "the whole queue slot is deleted under "+strings.Join(atomStrings(P.Guards(c, 0)), " ; "))
		}
	}
	checkStoreKeyWriters(r, "C06-R2", "x/pos/types", "UnstakingValidatorsKey", []string{posK + "setUnstakingValidators", posK + "deleteUnstakingValidators", posK + "unstakeAllMatureValidators"})

	// ------------------------------------------------------------------ R3
	r.Rule("C06-R3", "maturity scan: unstakeAllMatureValidators and getMatureValidators iterate [UnstakingValidatorsKey, InclusiveEndBytes(KeyForUnstakingValidators(block header time))) ascending — bound derived from the block time, inclusive", 3)
	if f := r.fn(posK + "unstakingValidatorsIterator"); f != nil {
		for _, ret := range Returns(f) {
			t := P.TermAt(ret.Results[0], ret).String()
			want := "store/types.KVStore.Iterator(types.Ctx.KVStore(param:ctx, param:k.storeKey), global:x/pos/types.UnstakingValidatorsKey, types.InclusiveEndBytes(x/pos/types.KeyForUnstakingValidators(param:endTime)))"
			r.Check(t == want, "C06-R3", "unstakingValidatorsIterator/range", P.InstrPos(ret), t, "range is "+t+" ; required "+want)
		}
	}
	for _, n := range []string{"unstakeAllMatureValidators", "getMatureValidators"} {
		if f := r.fn(posK + n); f != nil {
			if c := r.oneCall("C06-R3", n, f, posK+"unstakingValidatorsIterator"); c != nil {
				t := P.callTerm(c).String()
				r.Check(t == unstIt, "C06-R3", n+"/end=block-time", P.InstrPos(c), t, "scans up to "+t+" ; required the block header time")
			}
		}
	}
	if f := r.fn("types.InclusiveEndBytes"); f != nil {
		for _, ret := range Returns(f) {
			t := P.TermAt(ret.Results[0], ret).String()
			r.Check(t == "store/types.InclusiveEndBytes(param:inclusiveBytes)", "C06-R3", "InclusiveEndBytes/wrapper", P.InstrPos(ret), t, "types.InclusiveEndBytes is "+t)
		}
	}
	if f := r.fn("store/types.InclusiveEndBytes"); f != nil {
		for _, ret := range Returns(f) {
			t := P.TermAt(ret.Results[0], ret).String()
			r.Check(t == "append(param:inclusiveBytes, list(0))", "C06-R3", "InclusiveEndBytes", P.InstrPos(ret), t, "InclusiveEndBytes is "+t+" ; required append(inclusiveBytes, 0x00)")
		}
	}

	// ------------------------------------------------------------------ R4
	r.Rule("C06-R4", "time keys order like times: FormatTimeBytes normalises to UTC before formatting with the fixed-width SortableTimeFormat; KeyForUnstakingValidators = prefix ++ FormatTimeBytes(t)", 2)
	if f := r.fn("types.FormatTimeBytes"); f != nil {
		for _, ret := range Returns(f) {
			t := P.TermAt(ret.Results[0], ret).String()
			want := `(time.Time).Format((time.Time).Round((time.Time).UTC(param:t), 0), "2006-01-02T15:04:05.000000000")`
			r.Check(t == want, "C06-R4", "FormatTimeBytes", P.InstrPos(ret), t, "FormatTimeBytes is "+t+" ; required "+want)
		}
	}
	if f := r.fn("x/pos/types.KeyForUnstakingValidators"); f != nil {
		for _, ret := range Returns(f) {
			t := P.TermAt(ret.Results[0], ret).String()
			r.Check(t == "append(global:x/pos/types.UnstakingValidatorsKey, types.FormatTimeBytes(param:unstakingTime))", "C06-R4", "KeyForUnstakingValidators", P.InstrPos(ret), t, "key is "+t)
		}
	}
	// ------------------------------------------------------------------ R5
	unstakeAllRules(r, "C06-R5")

	// ------------------------------------------------------------------ R6
	powerIndexRules(r, "C06-R6")

	// ------------------------------------------------------------------ R7
	r.Rule("C06-R7", "below-minimum => forced unstake: in slash, ForceValidatorUnstake of the updated validator is called under tokens < MinimumStake and on every path where that holds; ValidateValidatorFinishUnstaking / ValidateValidatorBeginUnstaking keep their minimum-stake tests", 3)
	if f := r.fn(posK + "slash"); f != nil {
		if c := r.oneCall("C06-R7", "slash", f, posK+"ForceValidatorUnstake"); c != nil {
			v := argTerm(P.callTerm(c), 2).String()
			r.Check(strings.HasPrefix(v, posK+"removeValidatorTokens("), "C06-R7", "slash/force-unstakes-updated-validator", P.InstrPos(c), "acts on the validator returned by removeValidatorTokens", "ForceValidatorUnstake receives "+v)
			re := `^\(types\.Int\)\.LT\(` + q(v+".StakedTokens") + `, types\.NewInt\(` + q(posK+"MinimumStake(param:k, param:ctx)") + `\)\)$`
			r.requireAtoms("C06-R7", "slash/force-unstake", c, P.Guards(c, 0), []req{{"tokens<minimum", re}})
			r.mustFollowEdge("C06-R7", "slash/below-minimum=>forced", f, re, func(in ssa.Instruction) bool { return in == ssa.Instruction(c) }, nil, "ForceValidatorUnstake")
		}
	}
}

func checkC09(r *Run) {
	P := r.P
	r.NotDecided("'from the update following its jailing' as a multi-block fact (decided: jailing removes the index entry in the same call; the index never admits a jailed validator; EndBlocker builds updates from the index)")
	r.NotDecided("MaxValidators cut-off interplay after unjail (C05)")

	// ------------------------------------------------------------------ R1
	r.Rule("C09-R1", "unjail guards: UnjailValidator in handleMsgUnjail is reached only after validateUnjailMessage succeeded, whose success requires: validator found, tokens >= MinimumStake, IsJailed, signing info found, not Tombstoned, block time not before JailedUntil", 7)
	if h := r.fn("x/pos.handleMsgUnjail"); h != nil {
		if c := r.oneCall("C09-R1", "handleMsgUnjail", h, posK+"UnjailValidator"); c != nil {
			val := posK + "Validator(param:k, param:ctx, param:msg.ValidatorAddr)"
			info := posK + "GetValidatorSigningInfo(param:k, param:ctx, crypto.PublicKey.Address(x/pos/exported.ValidatorI.GetPublicKey(" + val + ")))"
			r.requireAtoms("C09-R1", "handleMsgUnjail/unjail", c, P.Guards(c, 2), []req{
				{"validated", `^isnil\(x/pos\.validateUnjailMessage\(param:ctx, param:msg, param:k\)#1\)$`},
				{"validator-found", `^!isnil\(` + q(val) + `\)$`},
				{"tokens>=minimum", `^!\(types\.Int\)\.LT\(x/pos/exported\.ValidatorI\.GetTokens\(` + q(val) + `\), types\.NewInt\(` + q(posK+"MinimumStake(param:k, param:ctx)") + `\)\)$`},
				{"is-jailed", `^x/pos/exported\.ValidatorI\.IsJailed\(` + q(val) + `\)$`},
				{"signing-info-found", `^` + q(info+"#1") + `$`},
				{"not-tombstoned", `^!` + q(info+"#0.Tombstoned") + `$`},
				{"jail-time-served", `^!\(time\.Time\)\.Before\(types\.Ctx\.BlockHeader\(param:ctx\)\.Time, ` + q(info+"#0.JailedUntil") + `\)$`},
			})
		}
	}
	if f := r.fn(posK + "UnjailValidator"); f != nil {
		r.callersExactly("C09-R1", "UnjailValidator", r.edgesTo(f), []string{"x/pos.handleMsgUnjail"})
	}

	// ------------------------------------------------------------------ R2
	r.Rule("C09-R2", "jailing: JailValidator sets Jailed=true on the stored record, persists it and deletes its power-index entry on every path; UnjailValidator clears the flag, persists and re-inserts through SetStakedValidator (which admits only staked, unjailed validators); Jailed has no other writers", 9)
	checkFieldWriters(r, "C09-R2", "x/pos/types", "Validator", "Jailed", []string{posK + "JailValidator", posK + "UnjailValidator", "x/pos/types.NewValidator", "(*x/pos/types.Validator).UnmarshalJSON"})
	if f := r.fn(posK + "JailValidator"); f != nil {
		rec := posK + "mustGetValidator(param:k, param:ctx, param:addr)"
		want := "upd(" + rec + ", Jailed=true)"
		for _, n := range []string{"SetValidator", "deleteValidatorFromStakingSet"} {
			if c := r.oneCall("C09-R2", "JailValidator", f, posK+n); c != nil {
				got := argTerm(P.callTerm(c), 2).String()
				r.Check(got == want, "C09-R2", "JailValidator/"+n, P.InstrPos(c), got, n+" receives "+got+" ; required "+want)
			}
			reach, _, path := ReachWithout(f, nil, isReturn, CallTo(posK+n), nil)
			r.Check(!reach, "C09-R2", "JailValidator/always:"+n, P.Pos(f.Pos()), "on every returning path", "a path returns without "+n+": "+P.blockPathString(path))
		}
	}
	if f := r.fn(posK + "UnjailValidator"); f != nil {
		rec := posK + "mustGetValidator(param:k, param:ctx, param:addr)"
		want := "upd(" + rec + ", Jailed=false)"
		for _, n := range []string{"SetValidator", "SetStakedValidator"} {
			if c := r.oneCall("C09-R2", "UnjailValidator", f, posK+n); c != nil {
				got := argTerm(P.callTerm(c), 2).String()
				r.Check(got == want, "C09-R2", "UnjailValidator/"+n, P.InstrPos(c), got, n+" receives "+got+" ; required "+want)
			}
		}
		// no direct index write here
		for _, c := range CallsIn(f, "store/types.KVStore.Set") {
			r.Viol("C09-R2", "UnjailValidator/direct-index-write", P.InstrPos(c), "UnjailValidator writes the store directly instead of going through SetStakedValidator")
		}
	}

	// ------------------------------------------------------------------ R3
	r.Rule("C09-R3", "tombstone: handleDoubleSign, on the confirmed path, slashes, jails (if not jailed), force-unstakes, then sets Tombstoned=true and JailedUntil=DoubleSignJailEndTime and persists the signing info; no code sets Tombstoned back to false", 6)
	checkTombstone(r, "C09-R3")

	// ------------------------------------------------------------------ R4
	powerIndexRules(r, "C09-R4")
}

// checkTombstone: tail of handleDoubleSign + Tombstoned writers (C07-R4 / C09-R3).
func checkTombstone(r *Run, rule string) {
	P := r.P
	f := r.fn(posK + "handleDoubleSign")
	if f == nil {
		return
	}
	vds := posK + "validateDoubleSign(param:k, param:ctx, param:addr, param:infractionHeight, param:timestamp)"
	if c := r.oneCall(rule, "handleDoubleSign", f, posK+"SetValidatorSigningInfo"); c != nil {
		t := P.callTerm(c)
		want := "upd(upd(" + vds + "#1, Tombstoned=true), JailedUntil=global:x/pos/types.DoubleSignJailEndTime)"
		got := argTerm(t, 3).String()
		r.Check(got == want, rule, "handleDoubleSign/tombstones", P.InstrPos(c), got, "signing info written is "+got+" ; required "+want)
		r.Check(argTerm(t, 2).String() == vds+"#0", rule, "handleDoubleSign/tombstones-offender", P.InstrPos(c), "keyed by the offender's address", "keyed by "+argTerm(t, 2).String())
		// order
		r.orderedCalls(rule, "handleDoubleSign", f, posK+"slash", posK+"ForceValidatorUnstake", posK+"SetValidatorSigningInfo")
		// confirmed path always ends in the tombstone write: from the non-nil validator edge every return passes it
		r.mustFollowEdge(rule, "handleDoubleSign/confirmed=>tombstoned", f, `^!isnil\(`+q(vds+"#2")+`\)$`, func(in ssa.Instruction) bool { return in == ssa.Instruction(c) }, nil, "the tombstone write")
	}
	if c := r.oneCall(rule, "handleDoubleSign", f, posK+"JailValidator"); c != nil {
		r.requireAtoms(rule, "handleDoubleSign/jail", c, P.Guards(c, 0), []req{{"only-if-not-jailed", `^!x/pos/exported\.ValidatorI\.IsJailed\(` + q(vds+"#2") + `\)$`}})
		r.mustFollowEdge(rule, "handleDoubleSign/not-jailed=>jailed", f, `^!x/pos/exported\.ValidatorI\.IsJailed\(`+q(vds+"#2")+`\)$`, func(in ssa.Instruction) bool { return in == ssa.Instruction(c) }, nil, "JailValidator")
		r.Check(argTerm(P.callTerm(c), 2).String() == vds+"#0", rule, "handleDoubleSign/jails-offender", P.InstrPos(c), "jails the offender", "jails "+argTerm(P.callTerm(c), 2).String())
	}
	if c := r.oneCall(rule, "handleDoubleSign", f, posK+"ForceValidatorUnstake"); c != nil {
		got := argTerm(P.callTerm(c), 2).String()
		want := posK + "GetValidator(param:k, param:ctx, x/pos/exported.ValidatorI.GetAddress(" + vds + "#2))#0"
		r.Check(got == want, rule, "handleDoubleSign/force-unstakes-offender", P.InstrPos(c), got, "force-unstakes "+got+" ; required the offender re-read from the store")
	}
	checkFieldWriters(r, rule, "x/pos/types", "ValidatorSigningInfo", "Tombstoned", []string{posK + "handleDoubleSign"})
	// a fresh (zero-based) signing info may replace the stored one only when none exists: otherwise Tombstoned / JailedUntil would be wiped
	if sv := r.fn(posK + "SetValidatorSigningInfo"); sv != nil {
		r.callersExactly(rule, "SetValidatorSigningInfo", r.edgesTo(sv), []string{posK + "StakeValidator", posK + "handleDoubleSign", posK + "handleValidatorSignature", "x/pos.InitGenesis"})
		for _, e := range r.edgesTo(sv) {
			info := argTerm(P.callTerm(e.Site), 3).String()
			fresh := strings.Contains(info, "zero:x/pos/types.ValidatorSigningInfo") || strings.HasPrefix(info, "complit:x/pos/types.ValidatorSigningInfo")
			if !fresh {
				continue
			}
			n := short(e.Caller.String())
			addr := argTerm(P.callTerm(e.Site), 2).String()
			gs := P.Guards(e.Site, 0)
			ok, _ := HasAtom(gs, `^!`+q(posK+"GetValidatorSigningInfo(param:k, param:ctx, "+addr+")#1")+`$`)
			ok2, _ := HasAtom(gs, `^!\(x/pos/keeper\.Keeper\)\.GetValidatorSigningInfo\(.*\)#1$`)
			exact := len(gs) == 1 || n == "x/pos.InitGenesis"
			r.Check((ok || ok2) && exact, rule, "fresh-signing-info-only-when-absent@"+n, P.InstrPos(e.Site), "a fresh signing info is stored only when none exists",
				n+" stores a fresh signing info (Tombstoned=false, JailedUntil reset) under {"+strings.Join(atomStrings(gs), " ; ")+"} ; required: exactly when no signing info exists for the address — otherwise re-staking lifts the tombstone and the jail time")
		}
	}
	// the only stores to Tombstoned store the constant true
	for _, fn := range P.RepoFns {
		InstrsRaw(fn, func(in ssa.Instruction) {
			st, ok := in.(*ssa.Store)
			if !ok {
				return
			}
			if strings.HasSuffix(P.TermAt(st.Addr, st).String(), ".Tombstoned") {
				v := P.TermAt(st.Val, st).String()
				r.Check(v == "true", rule, "Tombstoned/only-set-true@"+short(enclosingTop(fn).String()), P.InstrPos(st), "set to true", "Tombstoned is assigned "+v)
			}
		})
	}
}

// stakeGuards: StakeValidator is reached only after a successful validation of the same validator and amount (C06-R1, C11-R8).
func stakeGuards(r *Run, rule string) {
	P := r.P
	if f := r.fn(posK + "StakeValidator"); f != nil {
		r.callersExactly(rule, "StakeValidator", r.edgesTo(f), []string{"x/pos.stakeNewValidator", "x/pos.stakeRegisteredValidator"})
		for _, e := range r.edgesTo(f) {
			n := short(e.Caller.String())
			t := P.callTerm(e.Site)
			v, amt := argTerm(t, 2).String(), argTerm(t, 3).String()
			gs := P.Guards(e.Site, 2)
			// ValidateValidatorStaking(ctx, v, amt) == nil on the same validator and amount
			okV, _ := HasAtom(gs, `^isnil\(`+q(posK+"ValidateValidatorStaking(param:k, param:ctx, "+v+", "+amt+")")+`\)$`)
			r.Check(okV, rule, "StakeValidator@"+n+"/validated-same-validator-and-amount", P.InstrPos(e.Site), "ValidateValidatorStaking(v, amount)=nil for the staked (v, amount)", "StakeValidator("+v+", "+amt+") is not dominated by a successful ValidateValidatorStaking of the same validator and amount; guards: "+strings.Join(atomStrings(gs), " ; "))
			r.requireAtoms(rule, "StakeValidator@"+n, e.Site, gs, []req{
				{"is-unstaked", `^` + q(vT+"IsUnstaked("+v+")") + `$`},
				{"amount>=minimum", `^!\(types\.Int\)\.LT\(` + q(amt) + `, types\.NewInt\(` + q(posK+"MinimumStake(param:k, param:ctx)") + `\)\)$`},
				{"has-coins", `^x/pos/types\.AuthKeeper\.HasCoins\(param:k\.authKeeper, param:ctx, ` + q(v) + `\.Address, ` + q("types.NewCoins(list(types.NewCoin("+posK+"StakeDenom(param:k, param:ctx), "+amt+")))") + `\)$`},
			})
			r.Check(amt == "param:msg.Value", rule, "StakeValidator@"+n+"/amount-is-msg-value", P.InstrPos(e.Site), amt, "stakes "+amt+" instead of msg.Value")
		}
	}
}

// unstakeAllRules: maturity processing finishes, pays out and deletes together (C06-R5, C04-R5, C09-R5).
func unstakeAllRules(r *Run, rule string) {
	P := r.P
	r.Rule(rule, "unstakeAllMatureValidators: every queued address is either finished (ValidateValidatorFinishUnstaking ok -> FinishUnstakingValidator -> DeleteValidator of the same address) or skipped; the queue entry (iterator key) is deleted on every outer iteration before Next", 5)
	if f := r.fn(posK + "unstakeAllMatureValidators"); f != nil {
		fin := r.oneCall(rule, "unstakeAll", f, posK+"FinishUnstakingValidator")
		del := r.oneCall(rule, "unstakeAll", f, posK+"DeleteValidator")
		if fin != nil && del != nil {
			v := argTerm(P.callTerm(fin), 2).String()
			a := argTerm(P.callTerm(del), 2).String()
			r.Check(strings.HasPrefix(v, posK+"GetValidator(param:k, param:ctx, "+a+")#0"), rule, "unstakeAll/finish-and-delete-same-address", P.InstrPos(del), "finishes and deletes "+a, "finishes "+v+" but deletes "+a)
			r.Check(fin.Block() == del.Block() || sameGuards(P, fin, del), rule, "unstakeAll/finish⇔delete", P.InstrPos(del), "together", "FinishUnstakingValidator and DeleteValidator are not executed under the same condition")
			r.Check(Precedes(fin, del), rule, "unstakeAll/finish-before-delete", P.InstrPos(del), "record deleted after pay-out", "DeleteValidator not preceded by FinishUnstakingValidator")
			// validated ok => always finished
			r.mustFollowEdge(rule, "unstakeAll/valid=>finished", f, `^isnil\(`+q(posK+"ValidateValidatorFinishUnstaking(")+``, func(in ssa.Instruction) bool { return in == ssa.Instruction(fin) }, CallTo("github.com/tendermint/tm-db.Iterator.Next"), "FinishUnstakingValidator")
		}
		// queue key deleted on every outer iteration
		isNext := CallTo("github.com/tendermint/tm-db.Iterator.Next")
		delKey := func(in ssa.Instruction) bool {
			ci, ok := in.(ssa.CallInstruction)
			if !ok || !CallTo("store/types.KVStore.Delete")(in) {
				return false
			}
			return argTerm(P.callTerm(ci), 1).String() == "github.com/tendermint/tm-db.Iterator.Key("+unstIt+")"
		}
		r.mustFollowEdge(rule, "unstakeAll/queue-entry-deleted", f, `^`+q("github.com/tendermint/tm-db.Iterator.Valid("+unstIt+")")+`$`, delKey, isNext, "store.Delete(iterator.Key())")
	}
	if f := r.fn(posK + "DeleteValidator"); f != nil {
		r.callersExactly(rule, "DeleteValidator", r.edgesTo(f), []string{posK + "unstakeAllMatureValidators"})
	}
	checkStoreKeyWriters(r, rule, "x/pos/types", "AllValidatorsKey", []string{posK + "SetValidator", posK + "DeleteValidator"})
	if f := r.fn(posK + "FinishUnstakingValidator"); f != nil {
		if c := r.oneCall(rule, "FinishUnstaking", f, posK+"deleteUnstakingValidator"); c != nil {
			r.Check(argTerm(P.callTerm(c), 2).String() == "param:validator", rule, "FinishUnstaking/leaves-queue", P.InstrPos(c), "removes itself from the queue", "deleteUnstakingValidator receives "+argTerm(P.callTerm(c), 2).String())
		}
	}
}
