package main

import (
	"fmt"
	"go/token"
	"go/types"
	"regexp"
	"sort"
	"strings"

	"golang.org/x/tools/go/ssa"
)

// fn resolves an anchor function; an unresolved anchor is UNDECIDED, never a silent pass.
// otherReceiver: the same method name with the other receiver kind ((*T).m <-> (T).m).
func otherReceiver(name string) string {
	if strings.HasPrefix(name, "(*") {
		return "(" + name[2:]
	}
	if strings.HasPrefix(name, "(") {
		return "(*" + name[1:]
	}
	return ""
}

func (r *Run) fn(name string) *ssa.Function {
	f := r.P.Fn(name)
	if f == nil || len(f.Blocks) == 0 {
		// a method whose receiver changed between value and pointer is still that method: analyse it (a lost write
		// on the new by-value receiver is what RG1 reports)
		if o := otherReceiver(name); o != "" {
			if g := r.P.Fn(o); g != nil && len(g.Blocks) > 0 && g.Synthetic == "" {
				r.Anchors[g] = true
				return g
			}
		}
	}
	if f == nil || len(f.Blocks) == 0 {
		r.Undecided("anchor", name, "-", "anchor function "+name+" does not resolve in the current tree (renamed or removed): the rule tables must be re-confirmed")
		return nil
	}
	r.Anchors[f] = true
	return f
}

// fnOpt resolves a function that may legitimately be absent.
func (r *Run) fnOpt(name string) *ssa.Function {
	f := r.P.Fn(name)
	if f == nil || len(f.Blocks) == 0 {
		return nil
	}
	r.Anchors[f] = true
	return f
}

type req struct {
	name string
	re   string
}

// requireAtoms emits one obligation per required atom: it must be in the guard set.
func (r *Run) requireAtoms(rule, key string, site ssa.Instruction, atoms []Atom, reqs []req) bool {
	all := true
	for _, q := range reqs {
		ok, which := HasAtom(atoms, q.re)
		if ok {
			r.OK(rule, key+"/"+q.name, r.P.InstrPos(site), "guard present on every path: "+which)
		} else {
			all = false
			r.Viol(rule, key+"/"+q.name, r.P.InstrPos(site), fmt.Sprintf("required guard «%s» (pattern %s) is not established on every path to this site; guards that do hold: %s", q.name, q.re, strings.Join(atomStrings(atoms), " ; ")))
		}
	}
	return all
}

// requireCut emits one obligation: every path from the entry of site's function
// (or from block from when non-nil) to site crosses an edge establishing one of the atoms.
func (r *Run) requireCut(rule, key string, from *ssa.BasicBlock, site ssa.Instruction, name string, res ...string) bool {
	fn := site.Parent()
	if from == nil {
		from = fn.Blocks[0]
	}
	var rs []*regexp.Regexp
	for _, s := range res {
		rs = append(rs, regexp.MustCompile(s))
	}
	matched := map[string]bool{}
	cutEdge := func(a Atom) bool {
		k := a.Key()
		for _, x := range rs {
			if x.MatchString(k) {
				matched[k] = true
				return true
			}
		}
		return false
	}
	ok := r.P.RequiresCut(from, site.Block(), cutEdge)
	// the site lies in a helper introduced by a refactoring: every path to it also crosses the helper's call site
	for cur, n := site, 0; !ok && n < 4 && from == cur.Parent().Blocks[0]; n++ {
		cs := helperSite(cur.Parent())
		if cs == nil {
			break
		}
		from = cs.Parent().Blocks[0]
		ok = r.P.RequiresCut(from, cs.Block(), cutEdge)
		cur = cs
	}
	var ms []string
	for k := range matched {
		ms = append(ms, k)
	}
	sort.Strings(ms)
	if ok {
		r.OK(rule, key+"/"+name, r.P.InstrPos(site), "every path crosses one of: "+strings.Join(ms, " | "))
	} else {
		r.Viol(rule, key+"/"+name, r.P.InstrPos(site), fmt.Sprintf("some path reaches this site without crossing any edge establishing «%s» (patterns %s); matching edges found: %s", name, strings.Join(res, " | "), strings.Join(ms, " | ")))
	}
	return ok
}

// callTerm renders a call instruction as a term.
func (P *Prog) callTerm(ci ssa.CallInstruction) *Term {
	tb := &termBuilder{P: P, stack: map[ssa.Value]bool{}}
	return tb.callTerm(ci.Common(), ci.Value(), ci)
}

// successReturns returns the Return instructions on which result idx may be nil/true (or is unknown).
func (P *Prog) successReturns(fn *ssa.Function, idx int, want string) []*ssa.Return {
	var out []*ssa.Return
	for _, ret := range Returns(fn) {
		c, _ := P.retClass(ret, idx)
		if c == want || c == "unknown" {
			out = append(out, ret)
		}
	}
	return out
}

// oneCall returns the unique call in fn to a callee with the given name suffix; a
// missing call is a violation of the must-call rule (the effect cannot happen), more than one is reported too.
func (r *Run) oneCall(rule, key string, fn *ssa.Function, suffix string) ssa.CallInstruction {
	cs := CallsIn(fn, suffix)
	if len(cs) == 0 {
		for _, g := range r.P.newlyCalled(fn) {
			if gs := CallsIn(g, suffix); len(gs) > 0 {
				return gs[0] // the call moved into a function of the pinned tree that fn newly calls
			}
		}
	}
	if len(cs) == 0 {
		r.Viol(rule, key+"/calls:"+suffix, r.P.Pos(fn.Pos()), short(fn.String())+" no longer calls "+suffix+" (required by the rule)")
		return nil
	}
	return cs[0]
}

func reMatch(re, s string) bool { return regexp.MustCompile(re).MatchString(s) }

// calleeNames lists the distinct resolved callee names called in fn (incl. closures when deep).
func calleeNames(fn *ssa.Function, deep bool) []string {
	seen := map[string]bool{}
	var visit func(f *ssa.Function)
	visit = func(f *ssa.Function) {
		Instrs(f, func(in ssa.Instruction) {
			if ci, ok := in.(ssa.CallInstruction); ok {
				_, n := calleeName(ci.Common())
				if n != "" {
					seen[n] = true
				}
			}
		})
		if deep {
			for _, a := range f.AnonFuncs {
				visit(a)
			}
		}
	}
	visit(fn)
	var out []string
	for n := range seen {
		out = append(out, n)
	}
	sort.Strings(out)
	return out
}

// argTerm returns the i-th argument term of a call term, counting the receiver as argument 0.
func argTerm(t *Term, i int) *Term {
	if t == nil || i >= len(t.Args) {
		return &Term{Op: "other", Name: "missing"}
	}
	return t.Args[i]
}

// orderedCalls checks that the calls named by suffixes occur in fn in this dominance order:
// each one precedes (dominates) the next and each exists.
func (r *Run) orderedCalls(rule, key string, fn *ssa.Function, suffixes ...string) bool {
	var prev ssa.CallInstruction
	okAll := true
	for i, s := range suffixes {
		cs := CallsIn(fn, s)
		if len(cs) == 0 {
			r.Viol(rule, key+"/has:"+s, r.P.Pos(fn.Pos()), short(fn.String())+" does not call "+s)
			okAll = false
			continue
		}
		c := cs[0]
		if prev != nil {
			// every call to s must be preceded by prev on all paths
			for _, c2 := range cs {
				ok := Precedes(prev, c2)
				r.Check(ok, rule, fmt.Sprintf("%s/order:%s<%s", key, suffixes[i-1], s), r.P.InstrPos(c2),
					suffixes[i-1]+" is executed on every path before "+s,
					"a path reaches "+s+" without first executing "+suffixes[i-1])
				if !ok {
					okAll = false
				}
			}
		}
		prev = c
	}
	return okAll
}

func structFieldNames(n *types.Named) []string {
	st, ok := n.Underlying().(*types.Struct)
	if !ok {
		return nil
	}
	var out []string
	for i := 0; i < st.NumFields(); i++ {
		out = append(out, st.Field(i).Name())
	}
	return out
}

// callersExactly: the set of repo functions with a call edge to target (outermost
// named function of each call site) must be a subset of allowed; every allowed
// caller that disappeared is only noted. Violations name the new caller.
func (r *Run) callersExactly(rule, key string, edges []*Edge, allowed []string) {
	allow := map[string]bool{}
	for _, a := range allowed {
		allow[a] = true
	}
	seen := map[string]*Edge{}
	// a caller that is a helper introduced by a refactoring (absent from the pinned tree) stands for its own
	// callers: extracting statements of a vetted caller into a new function does not create a new caller
	var lift func(e *Edge, depth int)
	lift = func(e *Edge, depth int) {
		c := e.Caller
		for c.Parent() != nil && r.P.isNewHelper(c) {
			c = c.Parent()
		}
		if depth < 4 && r.P.isNewHelper(c) {
			ins := r.P.CG().In[c]
			if len(ins) > 0 {
				for _, up := range ins {
					lift(&Edge{Caller: up.Caller, Site: up.Site, Callee: e.Callee, Kind: e.Kind, Label: e.Label}, depth+1)
				}
				return
			}
		}
		n := short(e.Caller.String())
		if c != e.Caller && depth > 0 {
			n = short(c.String())
		}
		if _, ok := seen[n]; !ok {
			seen[n] = e
		}
	}
	for _, e := range edges {
		lift(e, 0)
	}
	var names []string
	for n := range seen {
		names = append(names, n)
	}
	sort.Strings(names)
	for _, n := range names {
		e := seen[n]
		if allow[n] {
			r.OK(rule, key+"/caller:"+n, r.P.InstrPos(e.Site), "vetted caller")
		} else {
			r.Viol(rule, key+"/caller:"+n, r.P.InstrPos(e.Site), n+" calls "+e.Label+" but is not in the vetted caller set {"+strings.Join(allowed, ", ")+"}")
		}
	}
}

// edgesTo returns the call edges whose resolved callee is fn.
func (r *Run) edgesTo(fn *ssa.Function) []*Edge {
	if fn == nil {
		return nil
	}
	return r.P.CG().In[fn]
}

// edgesToLabel returns call edges whose label matches the regexp (library callees, interface invokes).
func (r *Run) edgesToLabel(re string) []*Edge {
	rx := regexp.MustCompile(re)
	return r.P.CG().SitesByLabel(func(l string) bool { return rx.MatchString(l) })
}

// ifEdgesFor returns the (If, successor index) pairs of fn whose edge establishes an atom matching re.
func (P *Prog) ifEdgesFor(fn *ssa.Function, re string) []struct {
	B *ssa.BasicBlock
	I int
} {
	rx := regexp.MustCompile(re)
	var out []struct {
		B *ssa.BasicBlock
		I int
	}
	for _, b := range flatBlocks(fn) {
		if len(b.Instrs) == 0 || len(b.Succs) != 2 {
			continue
		}
		ifi, ok := b.Instrs[len(b.Instrs)-1].(*ssa.If)
		if !ok {
			continue
		}
		for i := 0; i < 2; i++ {
			as := P.condAtoms(ifi.Cond, ifi, i == 0, 0)
			for _, a := range append([]Atom{}, as...) {
				// a test delegated to a boolean helper of the repo counts as the helper's own condition
				as = append(as, P.boolEquiv(a)...)
			}
			for _, a := range as {
				if rx.MatchString(a.Key()) {
					out = append(out, struct {
						B *ssa.BasicBlock
						I int
					}{b, i})
					break
				}
			}
		}
	}
	return out
}

// mustFollowEdge: on every path from each edge establishing atom `re` to a Return (or to an
// instruction matching until), an instruction matching pred is executed. Missing edge = violation.
func (r *Run) mustFollowEdge(rule, key string, fn *ssa.Function, re string, pred, until func(ssa.Instruction) bool, what string) bool {
	edges := append(r.P.ifEdgesFor(fn, re), r.P.phiValueEdges(fn, re)...)
	if len(edges) == 0 {
		r.Viol(rule, key, r.P.Pos(fn.Pos()), "no branch establishing "+re+" exists in "+short(fn.String())+" any more")
		return false
	}
	ok := true
	for _, e := range edges {
		tgt := func(in ssa.Instruction) bool { return isReturn(in) || (until != nil && until(in)) }
		reach, w, path := ReachFromEdge(e.B, e.I, tgt, pred, nil)
		if reach {
			ok = false
			r.Viol(rule, key, r.P.InstrPos(w), "a path from the branch «"+re+"» reaches "+r.P.InstrPos(w)+" without "+what+": "+r.P.blockPathString(path))
		}
	}
	if ok {
		r.OK(rule, key, r.P.Pos(fn.Pos()), "every path after the branch executes "+what)
	}
	return ok
}

// loopBodyAlways: every path from instruction `after` to the next execution of `until` (or a Return) executes pred.
func (r *Run) loopBodyAlways(rule, key string, after ssa.Instruction, pred, until func(ssa.Instruction) bool, what string) bool {
	fn := after.Parent()
	tgt := func(in ssa.Instruction) bool { return isReturn(in) || until(in) }
	reach, w, path := ReachWithout(fn, after, tgt, pred, nil)
	if reach {
		r.Viol(rule, key, r.P.InstrPos(w), "a path from "+r.P.InstrPos(after)+" reaches "+r.P.InstrPos(w)+" without "+what+": "+r.P.blockPathString(path))
		return false
	}
	r.OK(rule, key, r.P.InstrPos(after), "every path executes "+what)
	return true
}

// neverAfter: both calls exist and no path leads from a call to `second` to a call to `first`
// (first is never executed after second).
func (r *Run) neverAfter(rule, key string, fn *ssa.Function, first, second string) bool {
	fs, ss := CallsIn(fn, first), CallsIn(fn, second)
	if len(fs) == 0 || len(ss) == 0 {
		missing := first
		if len(fs) > 0 {
			missing = second
		}
		r.Viol(rule, key+"/has:"+missing, r.P.Pos(fn.Pos()), short(fn.String())+" does not call "+missing)
		return false
	}
	ok := true
	isFirst := CallTo(first)
	for _, s := range ss {
		reach, w, path := ReachWithout(fn, s, isFirst, nil, nil)
		if reach {
			ok = false
			r.Viol(rule, key+"/never:"+first+"-after-"+second, r.P.InstrPos(w), first+" can execute after "+second+": "+r.P.blockPathString(path))
		}
	}
	if ok {
		r.OK(rule, key+"/never:"+first+"-after-"+second, r.P.InstrPos(ss[0]), first+" is never executed after "+second)
	}
	return ok
}

// PointeeAt renders what pointer value v designates as seen at instruction at (for locals whose address is returned).
func (P *Prog) PointeeAt(v ssa.Value, at ssa.Instruction) *Term {
	tb := &termBuilder{P: P, stack: map[ssa.Value]bool{}}
	if al, ok := v.(*ssa.Alloc); ok {
		return tb.loadLocal(al, nil, at)
	}
	return tb.term(v, at)
}

// phiValueEdges: the condition was first stored in a boolean (`c := a || b; if c {`): the If tests a Phi whose
// incoming value on some edge is the expression establishing the atom. The returned edge is the If's successor
// taken when that incoming value has the polarity that establishes the atom — a superset of the paths on which the
// atom holds, which is what a must-follow obligation needs.
func (P *Prog) phiValueEdges(fn *ssa.Function, re string) []struct {
	B *ssa.BasicBlock
	I int
} {
	rx := regexp.MustCompile(re)
	var out []struct {
		B *ssa.BasicBlock
		I int
	}
	for _, b := range flatBlocks(fn) {
		if len(b.Instrs) == 0 || len(b.Succs) != 2 {
			continue
		}
		ifi, ok := b.Instrs[len(b.Instrs)-1].(*ssa.If)
		if !ok {
			continue
		}
		c := ifi.Cond
		neg := false
		for {
			if u, ok := c.(*ssa.UnOp); ok && u.Op == token.NOT {
				neg = !neg
				c = u.X
				continue
			}
			break
		}
		phi, ok := c.(*ssa.Phi)
		if !ok {
			continue
		}
		seen := map[int]bool{}
		for _, v := range phi.Edges {
			if _, isC := v.(*ssa.Const); isC {
				continue
			}
			for _, pol := range []bool{true, false} {
				for _, a := range P.condAtoms(v, ifi, pol, 0) {
					if !rx.MatchString(a.Key()) {
						continue
					}
					// v == pol establishes the atom; phi == pol; the If takes succ 0 when cond is true
					condTrue := pol != neg
					i := 1
					if condTrue {
						i = 0
					}
					if !seen[i] {
						seen[i] = true
						out = append(out, struct {
							B *ssa.BasicBlock
							I int
						}{b, i})
					}
				}
			}
		}
	}
	return out
}
