package main

import (
	_ "embed"
	"encoding/json"
	"fmt"
	"go/types"
	"sort"
	"strings"

	"golang.org/x/tools/go/ssa"
)

// Field writes are frozen. For every struct type declared in the repo, pinned_field_writes.json records which
// (pinned) functions assign which fields, by assignment or in a composite literal they build (`pv -dump fieldwrites`). On the current tree
// (RF1) a function that assigns a field it did not assign before is a new writer of that piece of state, and (RF2) a
// function that no longer assigns a field it used to assign has dropped an effect (a reset, a counter update, a
// status change). Helpers introduced by a refactoring stand for their callers. Scope: functions that are anchors of
// the property's rules or lie in its packages.

//go:embed pinned_field_writes.json
var pinnedFieldWritesJSON []byte

// fieldWrites: function -> "pkg.Type.Field" it assigns (assignment and composite-literal initialisation alike, so
// that `x := T{}; x.F = v` and `x := T{F: v}` are the same).
func (P *Prog) fieldWrites() map[string]map[string]ssa.Instruction {
	out := map[string]map[string]ssa.Instruction{}
	for _, f := range P.RepoFns {
		f := f
		InstrsRaw(f, func(in ssa.Instruction) {
			st, ok := in.(*ssa.Store)
			if !ok {
				return
			}
			fa, ok := st.Addr.(*ssa.FieldAddr)
			if !ok {
				return
			}
			if !P.isNewHelper(enclosingTop(f)) && isParamCopy(f, fa.X) {
				return // a field of the function's own copy of a by-value argument: a local variable, not state
			}
			base := deref(fa.X.Type())
			named, ok := types.Unalias(base).(*types.Named)
			if !ok || named.Obj().Pkg() == nil || !isRepoPkg(named.Obj().Pkg()) {
				return
			}
			s, ok := named.Underlying().(*types.Struct)
			if !ok {
				return
			}
			key := short(named.Obj().Pkg().Path()) + "." + named.Obj().Name() + "." + s.Field(fa.Field).Name()
			for _, pf := range P.pinnedCallersOf(f) {
				n := short(enclosingTop(pf).String())
				if out[n] == nil {
					out[n] = map[string]ssa.Instruction{}
				}
				if _, has := out[n][key]; !has {
					out[n][key] = in
				}
			}
		})
	}
	return out
}

// isParamCopy: v is the local copy (spill) of a by-value struct parameter other than the receiver.
func isParamCopy(f *ssa.Function, v ssa.Value) bool {
	a, ok := v.(*ssa.Alloc)
	if !ok || a.Referrers() == nil {
		return false
	}
	for _, ref := range *a.Referrers() {
		st, ok := ref.(*ssa.Store)
		if !ok || st.Addr != ssa.Value(a) {
			continue
		}
		p, ok := st.Val.(*ssa.Parameter)
		if !ok {
			continue
		}
		if f.Signature.Recv() != nil && len(f.Params) > 0 && f.Params[0] == p {
			return false
		}
		return true
	}
	return false
}

func dumpFieldWrites(P *Prog) {
	m := map[string][]string{}
	for fn, fs := range P.fieldWrites() {
		for k := range fs {
			m[fn] = append(m[fn], k)
		}
		sort.Strings(m[fn])
	}
	b, _ := json.MarshalIndent(m, "", " ")
	fmt.Println(string(b))
}

func fieldWritesFrozen(r *Run, ruleNew, ruleGone string) {
	P := r.P
	r.Rule(ruleNew, "no new writer of a piece of in-memory state: a function assigns only the struct fields (of repo types) it assigned on the pinned tree (pinned_field_writes.json); scope: anchors of this property's rules and its packages", 1)
	r.Rule(ruleGone, "no dropped effect on in-memory state: a function still assigns every struct field it assigned on the pinned tree (a removed reset, counter update or status change)", 1)
	var pinned map[string][]string
	if err := json.Unmarshal(pinnedFieldWritesJSON, &pinned); err != nil || len(pinned) == 0 {
		r.Undecided(ruleNew, "table", "-", "pinned_field_writes.json is empty or unreadable")
		return
	}
	cur := P.fieldWrites()
	names := map[string]bool{}
	for n := range pinned {
		names[n] = true
	}
	for n := range cur {
		names[n] = true
	}
	var ns []string
	for n := range names {
		f := P.Fn(n)
		if f == nil {
			continue
		}
		if r.Anchors[f] || inScope(r.Prop, f) {
			ns = append(ns, n)
		}
	}
	sort.Strings(ns)
	added, gone := 0, 0
	for _, n := range ns {
		f := P.Fn(n)
		if !isPinnedFn(n) {
			continue // a brand-new function: its callers and store writes are judged by RW1 / ownership rules
		}
		want := map[string]bool{}
		for _, k := range pinned[n] {
			want[k] = true
		}
		var have []string
		for k := range cur[n] {
			have = append(have, k)
		}
		sort.Strings(have)
		for _, k := range have {
			if !want[k] {
				added++
				r.Viol(ruleNew, "new-field-writer:"+n+":"+k, P.InstrPos(cur[n][k]), n+" now assigns "+k+"; on the pinned tree it did not (fields it assigned: {"+strings.Join(pinned[n], ", ")+"})")
			}
		}
		for _, k := range pinned[n] {
			if _, ok := cur[n][k]; !ok {
				if P.fieldWriteMovedIntoNewCallee(f, k, pinned) {
					continue
				}
				gone++
				r.Viol(ruleGone, "field-write-removed:"+n+":"+k, P.Pos(f.Pos()), n+" no longer assigns "+k+" (it did on the pinned tree): the effect it had on that state is gone")
			}
		}
	}
	r.OK(ruleNew, "field-writers-compared", "-", fmt.Sprintf("%d functions in scope compared, %d new field writes", len(ns), added))
	r.OK(ruleGone, "field-writes-kept", "-", fmt.Sprintf("%d functions in scope compared, %d field writes removed", len(ns), gone))
}

func init() {
	for i := 1; i <= 20; i++ {
		p := fmt.Sprintf("C%02d", i)
		extend(p, func(r *Run) { fieldWritesFrozen(r, p+"-RF1", p+"-RF2") })
	}
}
