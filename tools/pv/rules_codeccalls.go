package main

import (
	_ "embed"
	"encoding/json"
	"fmt"
	"sort"
	"strings"

	"golang.org/x/tools/go/ssa"
)

// Encode/decode steps are not dropped. Every value that crosses the store or the wire goes through an amino
// (Must)Marshal* / (Must)Unmarshal* call; pinned_codec_calls.json records, per repo function, how many such calls
// of each kind it makes (`pv -dump codeccalls`; MustX and X count as the same kind). RCD1: a function still makes (at least) the decode/encode calls it
// made on the pinned tree — a deleted Unmarshal leaves the caller with a zero value that looks like data (an empty
// unstaking queue slot, an all-false missed-block window, a zero signing info). Helpers introduced by a refactoring
// stand for their callers.

//go:embed pinned_codec_calls.json
var pinnedCodecCallsJSON []byte

func isCodecCall(name string) bool {
	if !strings.Contains(name, "go-amino.Codec).") && !strings.Contains(name, "codec.Codec).") && !strings.HasPrefix(name, "github.com/tendermint/go-amino.") {
		return false
	}
	m := name[strings.LastIndex(name, ".")+1:]
	return strings.HasPrefix(m, "MustMarshal") || strings.HasPrefix(m, "MustUnmarshal") || strings.HasPrefix(m, "Marshal") || strings.HasPrefix(m, "Unmarshal")
}

func (P *Prog) codecCalls() map[string]map[string]int {
	out := map[string]map[string]int{}
	for _, f := range P.RepoFns {
		f := f
		InstrsRaw(f, func(in ssa.Instruction) {
			ci, ok := in.(ssa.CallInstruction)
			if !ok {
				return
			}
			_, name := calleeName(ci.Common())
			if !isCodecCall(name) {
				return
			}
			kind := strings.TrimPrefix(name[strings.LastIndex(name, ".")+1:], "Must") // Must* and its error-returning twin are one kind
			for _, pf := range P.pinnedCallersOf(f) {
				n := short(enclosingTop(pf).String())
				if out[n] == nil {
					out[n] = map[string]int{}
				}
				out[n][kind]++
			}
		})
	}
	return out
}

func dumpCodecCalls(P *Prog) {
	b, _ := json.MarshalIndent(P.codecCalls(), "", " ")
	fmt.Println(string(b))
}

func codecCallsKept(r *Run, rule string) {
	P := r.P
	r.Rule(rule, "no encode/decode step is dropped: every function in scope still makes at least as many amino (Must)Marshal*/(Must)Unmarshal* calls of each kind as on the pinned tree (pinned_codec_calls.json)", 1)
	var pinned map[string]map[string]int
	if err := json.Unmarshal(pinnedCodecCallsJSON, &pinned); err != nil || len(pinned) == 0 {
		r.Undecided(rule, "table", "-", "pinned_codec_calls.json is empty or unreadable")
		return
	}
	cur := P.codecCalls()
	var names []string
	for n := range pinned {
		if f := P.Fn(n); f != nil && (r.Anchors[f] || inScope(r.Prop, f)) {
			names = append(names, n)
		}
	}
	sort.Strings(names)
	lost := 0
	for _, n := range names {
		for kind, want := range pinned[n] {
			if have := cur[n][kind]; have < want {
				lost++
				f := P.Fn(n)
				r.Viol(rule, "codec-call-dropped:"+n+":"+kind, P.Pos(f.Pos()), fmt.Sprintf("%s made %d %s call(s) on the pinned tree and makes %d now: a value is no longer encoded/decoded, so what is stored or returned is a zero value or stale bytes", n, want, kind, have))
			}
		}
	}
	r.OK(rule, "codec-calls-compared", "-", fmt.Sprintf("%d functions in scope compared, %d dropped calls", len(names), lost))
}

func init() {
	for i := 1; i <= 20; i++ {
		p := fmt.Sprintf("C%02d", i)
		extend(p, func(r *Run) { codecCallsKept(r, p+"-RCD1") })
	}
}
