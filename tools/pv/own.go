package main

import (
	"go/types"
	"sort"
	"strings"

	"golang.org/x/tools/go/ssa"
)

// keyBuilders returns the repo functions that (transitively through calls
// within the repo) mention the package-level variable g — the key-builder
// closure of a store-key prefix.
func (P *Prog) keyBuilders(g *ssa.Global) map[*ssa.Function]bool {
	direct := map[*ssa.Function]bool{}
	for _, fn := range P.RepoFns {
		InstrsRaw(fn, func(in ssa.Instruction) {
			for _, op := range in.Operands(nil) {
				if *op == ssa.Value(g) {
					direct[fn] = true
				}
			}
		})
	}
	// close under callers that return []byte (key builders built from key builders)
	cg := P.CG()
	changed := true
	for changed {
		changed = false
		for f := range direct {
			for _, e := range cg.In[f] {
				c := e.Caller
				if direct[c] {
					continue
				}
				if returnsBytes(c) && c.Pkg == f.Pkg {
					direct[c] = true
					changed = true
				}
			}
		}
	}
	return direct
}

func returnsBytes(f *ssa.Function) bool {
	res := f.Signature.Results()
	if res.Len() != 1 {
		return false
	}
	s, ok := res.At(0).Type().Underlying().(*types.Slice)
	if !ok {
		return false
	}
	b, ok := s.Elem().Underlying().(*types.Basic)
	return ok && b.Kind() == types.Byte
}

// storeWriteSites lists KVStore.Set/Delete invocations in repo code with their key terms.
type storeWrite struct {
	fn   *ssa.Function
	site ssa.CallInstruction
	op   string
	key  *Term
}

func (P *Prog) storeWrites() []storeWrite {
	var out []storeWrite
	for _, fn := range P.RepoFns {
		fn := fn
		InstrsRaw(fn, func(in ssa.Instruction) {
			ci, ok := in.(ssa.CallInstruction)
			if !ok {
				return
			}
			c := ci.Common()
			if !c.IsInvoke() {
				return
			}
			m := c.Method.Name()
			if m != "Set" && m != "Delete" {
				return
			}
			if !isKVStoreType(c.Value.Type()) {
				return
			}
			if len(c.Args) == 0 {
				return
			}
			out = append(out, storeWrite{fn: fn, site: ci, op: m, key: P.TermAt(c.Args[0], in)})
		})
	}
	return out
}

func isKVStoreType(t types.Type) bool {
	s := typeStr(t)
	return s == "types.KVStore" || s == "store/types.KVStore" || s == "store/types.CacheKVStore" || s == "types.CacheKVStore"
}

// checkStoreKeyWriters: every KVStore.Set/Delete whose key is built from the
// prefix variable pkg.name happens in one of the allowed functions.
func checkStoreKeyWriters(r *Run, rule, pkg, name string, allowed []string) {
	P := r.P
	sp := P.SSA.Package(P.Pkg(pkg).Types)
	if sp == nil {
		r.Undecided(rule, "key:"+name, "-", "package "+pkg+" not found")
		return
	}
	g, _ := sp.Members[name].(*ssa.Global)
	if g == nil {
		r.Undecided(rule, "key:"+name, "-", "store key "+pkg+"."+name+" does not resolve")
		return
	}
	kb := P.keyBuilders(g)
	var kbNames []string
	for f := range kb {
		kbNames = append(kbNames, short(f.String()))
	}
	gname := "global:" + short(g.Pkg.Pkg.Path()) + "." + g.Name()
	allow := map[string]bool{}
	for _, a := range allowed {
		allow[a] = true
	}
	n := 0
	for _, w := range P.storeWrites() {
		uses := w.key.Has(func(t *Term) bool {
			if t.Op == "global" && "global:"+t.Name == gname {
				return true
			}
			if t.Op == "call" {
				for _, k := range kbNames {
					if t.Name == k {
						return true
					}
				}
			}
			return false
		})
		if !uses {
			continue
		}
		n++
		fnName := short(P.liftToPinned(w.fn).String())
		if allow[fnName] {
			r.OK(rule, "key:"+name+"/writer:"+fnName+"/"+w.op, P.InstrPos(w.site), "vetted writer of "+name+": "+w.key.String())
		} else {
			r.Viol(rule, "key:"+name+"/writer:"+fnName+"/"+w.op, P.InstrPos(w.site), fnName+" writes ("+w.op+") a key built from "+name+" ("+w.key.String()+") but is not a vetted writer {"+strings.Join(allowed, ", ")+"}")
		}
	}
	if n == 0 {
		r.Viol(rule, "key:"+name+"/writers", "-", "no writer of store key "+name+" found at all (expected "+strings.Join(allowed, ", ")+")")
	}
}

// checkFieldWriters: every store to field typ.field (outside composite literals of vetted constructors) is in an allowed function.
func checkFieldWriters(r *Run, rule, pkg, typ, field string, allowed []string) {
	P := r.P
	n := P.NamedType(pkg, typ)
	if n == nil {
		r.Undecided(rule, "field:"+typ+"."+field, "-", "type does not resolve")
		return
	}
	allow := map[string]bool{}
	for _, a := range allowed {
		allow[a] = true
	}
	found := map[string]ssa.Instruction{}
	for _, fn := range P.RepoFns {
		fn := fn
		InstrsRaw(fn, func(in ssa.Instruction) {
			st, ok := in.(*ssa.Store)
			if !ok {
				return
			}
			fa, ok := st.Addr.(*ssa.FieldAddr)
			if !ok {
				return
			}
			base := deref(fa.X.Type())
			if !types.Identical(types.Unalias(base), n) {
				return
			}
			s := n.Underlying().(*types.Struct)
			if s.Field(fa.Field).Name() != field {
				return
			}
			found[short(P.liftToPinned(fn).String())] = in
		})
	}
	var names []string
	for k := range found {
		names = append(names, k)
	}
	sort.Strings(names)
	for _, k := range names {
		if allow[k] {
			r.OK(rule, "field:"+typ+"."+field+"/writer:"+k, P.InstrPos(found[k]), "vetted writer")
		} else {
			r.Viol(rule, "field:"+typ+"."+field+"/writer:"+k, P.InstrPos(found[k]), k+" assigns "+typ+"."+field+" but is not a vetted writer {"+strings.Join(allowed, ", ")+"}")
		}
	}
}
