package main

import (
	_ "embed"
	"encoding/json"
	"fmt"
	"sort"
	"strings"

	"golang.org/x/tools/go/ssa"
)

// Re-routing through an existing function. When a function is changed to call a function of the pinned tree it did
// not call before (`SendCoinsFromModuleToModule` now ends in `return k.SendCoinsFromAccountToModule(…)`, whose body is
// the code that was removed), effects and checks that moved into the callee are still performed. The table-driven
// rules consult pinned_call_edges.json (`pv -dump calledges`: caller -> static repo callees) to recognise such newly
// called functions and look for a "lost" guard, write, field assignment or call one level down in them.

//go:embed pinned_call_edges.json
var pinnedCallEdgesJSON []byte

var pinnedCallEdges map[string]map[string]bool

func loadPinnedCallEdges() {
	if pinnedCallEdges != nil {
		return
	}
	pinnedCallEdges = map[string]map[string]bool{}
	var raw map[string][]string
	if json.Unmarshal(pinnedCallEdgesJSON, &raw) == nil {
		for k, vs := range raw {
			pinnedCallEdges[k] = map[string]bool{}
			for _, v := range vs {
				pinnedCallEdges[k][v] = true
			}
		}
	}
}

// staticCallees: top-level function -> repo functions it (or its closures) calls statically.
func (P *Prog) staticCallees() map[*ssa.Function]map[*ssa.Function]bool {
	out := map[*ssa.Function]map[*ssa.Function]bool{}
	for _, f := range P.RepoFns {
		top := enclosingTop(f)
		InstrsRaw(f, func(in ssa.Instruction) {
			ci, ok := in.(ssa.CallInstruction)
			if !ok {
				return
			}
			g := staticCallee(ci.Common())
			if g == nil || len(g.Blocks) == 0 || !P.IsRepoFn(g) {
				return
			}
			if out[top] == nil {
				out[top] = map[*ssa.Function]bool{}
			}
			out[top][enclosingTop(g)] = true
		})
	}
	return out
}

func dumpCallEdges(P *Prog) {
	m := map[string][]string{}
	for f, gs := range P.staticCallees() {
		for g := range gs {
			m[short(f.String())] = append(m[short(f.String())], short(g.String()))
		}
		sort.Strings(m[short(f.String())])
	}
	b, _ := json.MarshalIndent(m, "", " ")
	fmt.Println(string(b))
}

var newlyCalledCache = map[*Prog]map[*ssa.Function][]*ssa.Function{}

// newlyCalled: functions of the pinned tree that f (a function of the pinned tree) calls now and did not call then.
func (P *Prog) newlyCalled(f *ssa.Function) []*ssa.Function {
	loadPinnedCallEdges()
	loadPinned()
	if len(pinnedCallEdges) == 0 {
		return nil
	}
	if newlyCalledCache[P] == nil {
		m := map[*ssa.Function][]*ssa.Function{}
		for caller, gs := range P.staticCallees() {
			cn := short(caller.String())
			if _, pinned := pinnedParams[cn]; !pinned {
				continue
			}
			for g := range gs {
				gn := short(g.String())
				if _, pinned := pinnedParams[gn]; !pinned || gn == cn {
					continue
				}
				if !pinnedCallEdges[cn][gn] {
					m[caller] = append(m[caller], g)
				}
			}
			sort.Slice(m[caller], func(i, j int) bool { return m[caller][i].String() < m[caller][j].String() })
		}
		newlyCalledCache[P] = m
	}
	return newlyCalledCache[P][enclosingTop(f)]
}

// atomHead: the atom without its arguments ("!isnil((x/auth/keeper.Keeper).SendCoins" for "!isnil((…).SendCoins(a, b))").
func atomHead(a string) string {
	depth := 0
	for i := 0; i < len(a); i++ {
		switch a[i] {
		case '(':
			// the "(" that opens an argument list follows an identifier character
			if i > 0 && (a[i-1] == '_' || a[i-1] >= 'a' && a[i-1] <= 'z' || a[i-1] >= 'A' && a[i-1] <= 'Z' || a[i-1] >= '0' && a[i-1] <= '9') && !strings.HasSuffix(a[:i], "isnil") {
				return a[:i]
			}
			depth++
		}
	}
	return a
}

// reroutedWrites: caller newly calls the writer callee, and every writer reachable from callee on the pinned tree was
// reachable from caller already.
func (P *Prog) reroutedWrites(caller, callee *ssa.Function, writers map[string]map[string]bool) bool {
	isNew := false
	for _, g := range P.newlyCalled(caller) {
		if g == enclosingTop(callee) {
			isNew = true
		}
	}
	if !isNew {
		return false
	}
	reach := func(from string) map[string]bool {
		seen := map[string]bool{from: true}
		work := []string{from}
		for len(work) > 0 {
			x := work[len(work)-1]
			work = work[:len(work)-1]
			for y := range pinnedCallEdges[x] {
				if !seen[y] {
					seen[y] = true
					work = append(work, y)
				}
			}
		}
		return seen
	}
	fromCaller, fromCallee := reach(short(enclosingTop(caller).String())), reach(short(enclosingTop(callee).String()))
	for w := range fromCallee {
		if _, isWriter := writers[w]; !isWriter || fromCaller[w] {
			continue
		}
		// a writer the caller could not reach before: tolerable only if it merely passes on to writers that were
		// reachable (it makes no store write of its own)
		if wf := P.Fn(w); wf == nil || P.writesDirectly(wf) {
			return false
		}
	}
	return true
}

// pairMovedIntoNewCallee: f no longer calls the writer `label` itself, but newly calls a pinned function that does.
func (P *Prog) pairMovedIntoNewCallee(f *ssa.Function, label string, pinnedPairs map[string][][]string) bool {
	if f == nil {
		return false
	}
	for _, g := range P.newlyCalled(f) {
		if _, ok := pinnedPairs[short(g.String())+" → "+label]; ok {
			return true
		}
	}
	return false
}

// guardsMovedIntoNewCallee: every guard a success return lost is (by spelling, or by its head when parameter names
// differ) a success condition of a pinned function that f newly calls and whose success this return requires.
func (P *Prog) guardsMovedIntoNewCallee(f *ssa.Function, missing, have []string, pinnedSuccess map[string][][]string) bool {
	if f == nil || len(missing) == 0 {
		return false
	}
	provided := map[string]bool{}
	heads := map[string]bool{}
	any := false
	for _, g := range P.newlyCalled(f) {
		gn := short(g.String())
		required := false
		for _, h := range have {
			if strings.HasPrefix(h, "isnil("+gn+"(") || h == gn || strings.HasPrefix(h, gn+"(") {
				required = true
			}
		}
		if !required {
			continue
		}
		any = true
		for _, set := range pinnedSuccess[gn] {
			for _, a := range set {
				provided[a] = true
				heads[atomHead(a)] = true
			}
		}
	}
	if !any {
		return false
	}
	for _, m := range missing {
		if !provided[m] && !heads[atomHead(m)] {
			return false
		}
	}
	return true
}

// fieldWriteMovedIntoNewCallee: the field is assigned by a pinned function that f newly calls.
func (P *Prog) fieldWriteMovedIntoNewCallee(f *ssa.Function, field string, pinnedFields map[string][]string) bool {
	for _, g := range P.newlyCalled(f) {
		for _, k := range pinnedFields[short(g.String())] {
			if k == field {
				return true
			}
		}
	}
	return false
}

// writesDirectly: f (or one of its closures) contains a store-writing operation itself.
func (P *Prog) writesDirectly(f *ssa.Function) bool {
	found := false
	var visit func(g *ssa.Function)
	visit = func(g *ssa.Function) {
		InstrsRaw(g, func(in ssa.Instruction) {
			if ci, ok := in.(ssa.CallInstruction); ok && isStoreWrite(ci.Common()) {
				found = true
			}
		})
		for _, a := range g.AnonFuncs {
			visit(a)
		}
	}
	visit(f)
	return found
}
