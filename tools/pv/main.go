// pv — "posmint vet": decides structural clauses of the properties C01–C20 of
// pokt-network/posmint from the type-checked program, its SSA form, CFG cuts and
// the repo call graph. Nothing in /repo is executed.
package main

import (
	"encoding/json"
	"flag"
	"fmt"
	"os"
	"path/filepath"
	"sort"
	"strings"
	"time"

	"golang.org/x/tools/go/ssa"
)

type checkFn func(r *Run)

var checks = map[string]checkFn{}

func register(id string, f checkFn) { checks[id] = f }

// extensions: rules added to a property after its main check function was written (rule sharing between
// properties, later rounds); run after the main function on the same Run.
var extensions = map[string][]checkFn{}

func extend(id string, f checkFn) { extensions[id] = append(extensions[id], f) }

func main() {
	prop := flag.String("prop", "", "property id (C01..C20) or 'all'")
	tier := flag.String("tier", "quick", "quick | thorough")
	repo := flag.String("repo", "/repo", "repository working tree")
	verif := flag.String("verif", "/verif", "verif directory (evidence, known findings)")
	dump := flag.String("dump", "", "debug: dump guards/terms of the named function")
	explain := flag.String("explain", "", "print a violations file in readable form")
	list := flag.Bool("list", false, "list functions")
	flag.Parse()
	if t := os.Getenv("VERIF_TIER"); t != "" && *tier == "" {
		*tier = t
	}
	if *explain != "" {
		os.Exit(doExplain(*explain))
	}
	start := time.Now()
	P, err := Load(*repo, nil, nil)
	if err != nil {
		fmt.Printf("UNDECIDED property=%s load failed: %v\n", *prop, err)
		os.Exit(2)
	}
	if *dump == "pinned" {
		out := map[string][]string{}
		for _, f := range P.RepoFns {
			var ns []string
			for _, p := range f.Params {
				ns = append(ns, p.Name())
			}
			out[short(f.String())] = ns
			if len(f.FreeVars) > 0 {
				var fs []string
				for _, v := range f.FreeVars {
					fs = append(fs, v.Name())
				}
				out["free|"+short(f.String())] = fs
			}
		}
		b, _ := json.MarshalIndent(out, "", " ")
		fmt.Println(string(b))
		return
	}
	if *list {
		for _, f := range P.RepoFns {
			fmt.Println(short(f.String()))
		}
		return
	}
	if *dump == "calledges" {
		dumpCallEdges(P)
		return
	}
	if *dump == "returnvalues" {
		dumpReturnValues(P)
		return
	}
	if *dump == "writeargs" {
		dumpWriteArgs(P)
		return
	}
	if *dump == "switchatoms" {
		dumpSwitchAtoms(P)
		return
	}
	if *dump == "codeccalls" {
		dumpCodecCalls(P)
		return
	}
	if *dump == "leafterms" {
		dumpLeafTerms(P)
		return
	}
	if *dump == "fieldwrites" {
		dumpFieldWrites(P)
		return
	}
	if *dump == "panicguards" {
		dumpPanicGuards(P)
		return
	}
	if *dump == "failureguards" {
		dumpFailureGuards(P)
		return
	}
	if *dump == "successguards" {
		dumpSuccessGuards(P)
		return
	}
	if *dump == "writeguards" {
		dumpWriteGuards(P)
		return
	}
	if *dump == "mustwrite" {
		dumpMustWrite(P)
		return
	}
	if *dump == "writeredges" {
		dumpWriterEdges(P)
		return
	}
	if *dump == "effects" {
		E := P.Effects()
		for _, f := range P.RepoFns {
			if w := E.dirtyFail[f]; w != nil {
				fmt.Println("DIRTYFAIL", w.String(P))
			}
		}
		return
	}
	if *dump != "" {
		doDump(P, *dump)
		return
	}
	ids := []string{*prop}
	if *prop == "all" {
		ids = nil
		for id := range checks {
			ids = append(ids, id)
		}
		sort.Strings(ids)
	}
	code := 0
	for _, id := range ids {
		f, ok := checks[id]
		if !ok {
			fmt.Printf("UNDECIDED property=%s no such check\n", id)
			os.Exit(2)
		}
		t0 := start
		if len(ids) > 1 {
			t0 = time.Now()
		}
		c := runOne(P, id, *tier, *verif, f, t0)
		if c > code {
			if code != 1 {
				code = c
			}
		}
		if c == 1 {
			code = 1
		}
	}
	os.Exit(code)
}

func runOne(P *Prog, id, tier, verif string, f0 checkFn, start time.Time) (code int) {
	f := func(r *Run) {
		f0(r)
		for _, x := range extensions[id] {
			x(r)
		}
	}
	r := NewRun(P, id, tier)
	defer func() {
		if e := recover(); e != nil {
			fmt.Printf("UNDECIDED property=%s checker panic: %v\n", id, e)
			if os.Getenv("PV_DEBUG") != "" {
				panic(e)
			}
			code = 2
		}
	}()
	r.Stats["repo_packages"] = len(P.Pkgs)
	r.Stats["repo_functions"] = len(P.RepoFns)
	if tier == "thorough" {
		miss, total := P.CG().CrossCheckVTA()
		r.Stats["vta_repo_edges"] = total
		r.Stats["vta_edges_missing_from_repo_graph"] = len(miss)
		r.Extra["callgraph_crosscheck"] = map[string]interface{}{"rule": "every repo→repo edge of VTA(CHA) over the whole program is an edge of the repo call graph; missing ones are added before the rules run", "vta_repo_edges": total, "added": miss}
	}
	f(r)
	if tier == "thorough" {
		runThorough(P, P.RepoDir, verif, id, f, r)
		sens := sensitivityReplay(P.RepoDir, verif, id)
		fired := 0
		for _, s := range sens {
			if s.Status == "fired" {
				fired++
			}
		}
		r.Stats["sensitivity_patches"] = len(sens)
		r.Stats["sensitivity_fired"] = fired
		r.Extra["sensitivity_replay"] = map[string]interface{}{"what": "recorded property-breaking patches applied to a scratch copy of the current tree; the quick rules must report VIOLATION there (informational: does not change the verdict)", "results": sens}
	}
	return r.Finish(verif, start)
}

func doExplain(path string) int {
	b, err := os.ReadFile(path)
	if err != nil {
		fmt.Println(err)
		return 2
	}
	var v struct {
		Property   string            `json:"property"`
		Violations []Obligation      `json:"violations"`
		Rules      map[string]string `json:"rules"`
	}
	if err := json.Unmarshal(b, &v); err != nil {
		fmt.Println(err)
		return 2
	}
	for _, o := range v.Violations {
		fmt.Printf("property %s — rule %s\n  rule text: %s\n  instance : %s\n  site     : %s\n  detail   : %s\n\n", v.Property, o.Rule, v.Rules[o.Rule], o.Key, o.Site, o.Detail)
	}
	return 0
}

func doDump(P *Prog, name string) {
	var fns []*ssa.Function
	for _, f := range P.RepoFns {
		if strings.Contains(short(f.String()), name) {
			fns = append(fns, f)
		}
	}
	for _, fn := range fns {
		fmt.Printf("=== %s (%s)\n", short(fn.String()), P.Pos(fn.Pos()))
		InstrsRaw(fn, func(in ssa.Instruction) {
			switch x := in.(type) {
			case ssa.CallInstruction:
				t := (&termBuilder{P: P, stack: map[ssa.Value]bool{}}).callTerm(x.Common(), x.Value(), in)
				fmt.Printf("  %s CALL %s\n", P.InstrPos(in), t)
				for _, a := range P.Guards(in, 2) {
					fmt.Printf("        guard %s\n", a)
				}
			case *ssa.Return:
				var rs []string
				for i := range x.Results {
					c, t := P.retClass(x, i)
					rs = append(rs, fmt.Sprintf("%s[%s]", t, c))
				}
				fmt.Printf("  %s RETURN %s\n", P.InstrPos(in), strings.Join(rs, ", "))
				for _, a := range P.Guards(in, 2) {
					fmt.Printf("        guard %s\n", a)
				}
			case *ssa.Store:
				fmt.Printf("  %s STORE %s := %s\n", P.InstrPos(in), P.TermAt(x.Addr, in), P.TermAt(x.Val, in))
			}
		})
	}
	g := P.CG()
	fmt.Printf("callgraph: %d edges, %d unresolved dynamic calls, %d address-taken\n", g.NEdges, len(g.Unresolved), len(g.addrTaken))
	for _, u := range g.Unresolved {
		fmt.Printf("  unresolved %s in %s\n", P.InstrPos(u), short(u.Parent().String()))
	}
}

var _ = filepath.Join
