package main

import (
	"fmt"
	"go/types"
	"strings"

	"golang.org/x/tools/go/ssa"
)

// Rules added after the fifth round of seeded changes.

// mergeTails: when one operand of the sorted merge is exhausted the rest of the OTHER operand is appended from its own
// cursor (C18-R11; Coins and DecCoins are siblings).
func mergeTails(r *Run, rule string) {
	P := r.P
	r.Rule(rule, "sibling agreement of Coins.safeAdd and DecCoins.safeAdd: when set A is exhausted the tail coinsB[indexB:] is appended, when set B is exhausted the tail coins[indexA:] — each operand from its own cursor", 4)
	for _, w := range []struct{ fn, rz string }{{"(types.Coins).safeAdd", "types.removeZeroCoins"}, {"(types.DecCoins).safeAdd", "types.removeZeroDecCoins"}} {
		f := r.fnOpt(w.fn)
		if f == nil {
			continue
		}
		n := 0
		for _, c := range CallsIn(f, w.rz) {
			ci, ok := c.(*ssa.Call)
			if !ok || len(ci.Call.Args) == 0 {
				continue
			}
			sl, ok := ci.Call.Args[0].(*ssa.Slice)
			if !ok || sl.Low == nil {
				continue
			}
			n++
			base := P.TermAt(sl.X, ci).String()
			low := P.TermAt(sl.Low, ci).String() // raw: the two cursors differ only in their SSA register
			// which cursor is it? the cursor of A indexes param:coins in this function, the cursor of B indexes param:coinsB
			idxOf := func(param string) string {
				var t string
				Instrs(f, func(in ssa.Instruction) {
					if ia, ok := in.(*ssa.IndexAddr); ok && P.TermAt(ia.X, in).String() == param {
						t = P.TermAt(ia.Index, in).String()
					}
				})
				return t
			}
			want := idxOf(base)
			r.Check(want != "" && low == want, rule, fmt.Sprintf("%s/tail#%d/own-cursor", w.fn, n), P.InstrPos(c), base+"["+low+":]", fmt.Sprintf("%s appends the tail %s[%s:] ; the cursor that walks %s is %s: the rest of the set is taken from the other set's position (coins dropped or duplicated)", w.fn, base, low, base, want))
		}
		r.Check(n == 2, rule, w.fn+"/two-tails", P.Pos(f.Pos()), "two tails", fmt.Sprintf("%s has %d tail appends (expected 2)", w.fn, n))
	}
}

// coinsIsValidShape: what a valid coin set is (C18-R12, C11-R18, C02-R15).
func coinsIsValidShape(r *Run, rule string) {
	P := r.P
	r.Rule(rule, "Coins.IsValid refuses a multi-coin set only for: an invalid first coin, a denomination that is not lower-case, denominations not strictly increasing, a non-positive amount — and for nothing else (SetCoins relies on it after the sender of a transfer was already debited, so a new reason to refuse is a new way to reject a transfer half-way)", 5)
	f := r.fn("(types.Coins).IsValid")
	if f == nil {
		return
	}
	causes := []string{
		`^!isnil\(types\.validateDenom\(param:coins\[0\]\.Denom\)\)$`,
		`^!\(types\.Coins\)\.IsValid\(list\(param:coins\[0\]\)\)$`,
		`^!\(.*\.Denom == strings\.ToLower\(.*\.Denom\)\)$`,
		`^!\(strings\.ToLower\(.*\.Denom\) == .*\.Denom\)$`,
		`^!\(phi\(.* < .*\.Denom\)$`,
		`^!\(types\.Coin\)\.IsPositive\(`,
	}
	for i, a := range P.RetAlternatives(f, 0) {
		if a.T.String() != "false" {
			continue
		}
		ok := false
		for _, re := range causes {
			if h, _ := HasAtom(a.G, re); h {
				ok = true
			}
		}
		r.Check(ok, rule, fmt.Sprintf("Coins.IsValid/false#%d/vetted-cause", i), P.InstrPos(a.Ret), "vetted cause", "Coins.IsValid answers false under {"+strings.Join(atomStrings(a.G), " ; ")+"}: not one of the vetted causes")
	}
}

// assertValidShape: keys and values are refused exactly when nil (C16-R10).
func assertValidShape(r *Run, rule string) {
	P := r.P
	r.Rule(rule, "store wrappers accept what the wrapped store accepts: AssertValidKey panics exactly under key == nil and AssertValidValue exactly under value == nil (an empty non-nil key — the key equal to a prefix — is legal)", 2)
	for _, w := range []struct{ fn, p string }{{"store/types.AssertValidKey", "key"}, {"store/types.AssertValidValue", "value"}} {
		f := r.fnOpt(w.fn)
		if f == nil {
			continue
		}
		n := 0
		Instrs(f, func(in ssa.Instruction) {
			if _, ok := in.(*ssa.Panic); ok {
				n++
				gs := P.Guards(in, 0)
				ok2 := len(gs) == 1 && gs[0].Key() == "isnil(param:"+w.p+")"
				r.Check(ok2, rule, w.fn+"/panics-iff-nil", P.InstrPos(in), "panic under "+w.p+" == nil", w.fn+" panics under {"+strings.Join(atomStrings(gs), " ; ")+"} ; required exactly "+w.p+" == nil")
			}
		})
		if n == 0 {
			r.Viol(rule, w.fn+"/panics-iff-nil", P.Pos(f.Pos()), w.fn+" no longer panics on nil")
		}
	}
}

// aclValidateComplete: an ACL that leaves a registered parameter without an owner is refused (C17-R11).
func aclValidateComplete(r *Run, rule string) {
	P := r.P
	r.Rule(rule, "no parameter is born ownerless: ACL.Validate marks every listed key in the adjacency map, collects the registered parameters that stayed unmarked and returns an error when there is any (an ownerless parameter can be changed by an empty sender)", 2)
	f := r.fn("(x/gov/types.ACL).Validate")
	if f == nil {
		return
	}
	// the failure return guarded by len(unowned) != 0
	found := false
	for _, a := range P.RetAlternatives(f, 0) {
		if a.T.String() == "nil" {
			continue
		}
		for _, g := range a.G {
			k := g.Key()
			if strings.HasPrefix(k, "!(0 == len(") {
				found = true
			}
		}
	}
	r.Check(found, rule, "ACL.Validate/unowned-params-refused", P.Pos(f.Pos()), "error when some parameter has no owner", "ACL.Validate no longer returns an error for registered parameters without an owner")
	// and the collection loop ranges over the adjacency map
	rng := false
	Instrs(f, func(in ssa.Instruction) {
		if x, ok := in.(*ssa.Range); ok && P.TermAt(x.X, in).String() == "param:adjacencyMap" {
			rng = true
		}
	})
	r.Check(rng, rule, "ACL.Validate/walks-registered-params", P.Pos(f.Pos()), "ranges over the registered parameters", "ACL.Validate no longer walks the registered parameters")
}

// decStringSign: the sign is decided on the value as given (C20-R8, C18-R13).
func decStringSign(r *Run, rule string) {
	P := r.P
	r.Rule(rule, "Dec text encoding keeps the sign: Dec.String prefixes \"-\" exactly under IsNegative(d) of the receiver as given (decided before the value is negated for printing)", 2)
	f := r.fn("(types.Dec).String")
	if f == nil {
		return
	}
	n := 0
	for _, ret := range Returns(f) {
		t := P.TermAt(ret.Results[0], ret).String()
		if !strings.HasPrefix(t, `("-" + `) {
			continue
		}
		n++
		ok, _ := HasAtom(P.Guards(ret, 0), `^\(types\.Dec\)\.IsNegative\(param:d\)$`)
		r.Check(ok, rule, "Dec.String/minus-iff-negative", P.InstrPos(ret), "\"-\" under IsNegative(d)", "the \"-\" prefix is written under {"+strings.Join(atomStrings(P.Guards(ret, 0)), " ; ")+"} ; required IsNegative of the original receiver")
	}
	if n == 0 {
		r.Viol(rule, "Dec.String/minus-iff-negative", P.Pos(f.Pos()), "Dec.String never writes a minus sign")
	}
	for _, ret := range Returns(f) {
		t := P.TermAt(ret.Results[0], ret).String()
		if strings.HasPrefix(t, "phi(") || strings.HasPrefix(t, "string(") || strings.HasPrefix(t, "convert") {
			neg, _ := HasAtom(P.Guards(ret, 0), `^!\(types\.Dec\)\.IsNegative\(param:d\)$`)
			r.Check(neg, rule, "Dec.String/no-minus-iff-not-negative", P.InstrPos(ret), "unsigned text under !IsNegative(d)", "the unsigned text is returned under {"+strings.Join(atomStrings(P.Guards(ret, 0)), " ; ")+"}")
		}
	}
}

// genesisPoolEquality: a pre-funded pool must equal the recorded stake (C04-R8).
func genesisPoolEquality(r *Run, rule string) {
	P := r.P
	r.Rule(rule, "a genesis that brings its own staked-pool balance is accepted only if the balance EQUALS the stake recorded for staked and unstaking validators: InitGenesis panics under !pool.GetCoins().IsEqual(stakedCoins)", 1)
	f := r.fn("x/pos.InitGenesis")
	if f == nil {
		return
	}
	ok := false
	Instrs(f, func(in ssa.Instruction) {
		if _, isPanic := in.(*ssa.Panic); !isPanic {
			return
		}
		for _, a := range P.Guards(in, 0) {
			k := a.Key()
			if strings.HasPrefix(k, "!(types.Coins).IsEqual(x/auth/exported.ModuleAccountI.GetCoins(") && strings.Contains(k, "GetStakedPool(") {
				ok = true
			}
		}
	})
	r.Check(ok, rule, "InitGenesis/prefunded-pool-must-equal-stake", P.Pos(f.Pos()), "panic under !IsEqual", "InitGenesis no longer refuses a pre-funded staked pool whose balance differs from the recorded stake (an under-funded pool would be accepted)")
}

var _ = types.Typ

func init() {
	extend("C18", func(r *Run) {
		mergeTails(r, "C18-R11")
		coinsIsValidShape(r, "C18-R12")
		decStringSign(r, "C18-R13")
	})
	extend("C02", func(r *Run) {
		mergeTails(r, "C02-R15")
		coinsIsValidShape(r, "C02-R16")
	})
	extend("C11", func(r *Run) { coinsIsValidShape(r, "C11-R18") })
	extend("C16", func(r *Run) { assertValidShape(r, "C16-R10") })
	extend("C17", func(r *Run) { aclValidateComplete(r, "C17-R11") })
	extend("C20", func(r *Run) { decStringSign(r, "C20-R8") })
	extend("C04", func(r *Run) { genesisPoolEquality(r, "C04-R8") })
	pkgScope["C11"] = append(pkgScope["C11"], "x/gov/keeper", "x/auth/keeper", "x/gov", "x/auth")
	pkgScope["C12"] = append(pkgScope["C12"], "store/types")
	pkgScope["C13"] = append(pkgScope["C13"], "store/rootmulti", "store/iavl", "store/types")
	pkgScope["C14"] = append(pkgScope["C14"], "store/iavl", "store/rootmulti")
	pkgScope["C20"] = append(pkgScope["C20"], "x/auth")
	pkgScope["C03"] = append(pkgScope["C03"], "x/auth", "x/auth/types", "crypto")
	pkgScope["C01"] = append(pkgScope["C01"], "baseapp", "types/module")
}

// runMsgPropagatesFailure: a failed handler makes a failed transaction (C11-R19).
func runMsgPropagatesFailure(r *Run, rule string) {
	P := r.P
	r.Rule(rule, "a handler's refusal is the transaction's result: in runMsg the code and codespace of the returned Result are the handler result's own exactly under !msgResult.IsOK() and zero / empty otherwise", 2)
	f := r.fn("(*baseapp.BaseApp).runMsg")
	if f == nil {
		return
	}
	n := 0
	Instrs(f, func(in ssa.Instruction) {
		st, ok := in.(*ssa.Store)
		if !ok {
			return
		}
		a := P.TermAt(st.Addr, st).String()
		if !strings.HasSuffix(a, ".Code") && !strings.HasSuffix(a, ".Codespace") {
			return
		}
		a = a[strings.LastIndex(a, ".")+1:]
		phi, ok := st.Val.(*ssa.Phi)
		if !ok {
			r.Viol(rule, "runMsg/"+a+"-selected-by-IsOK", P.InstrPos(st), "the result's "+a+" is "+oneLine(P.TermAt(st.Val, st).String())+" ; required: the handler's value on failure, zero on success")
			return
		}
		n++
		good := true
		for i, e := range phi.Edges {
			t := P.TermAt(e, phi).String()
			p := phi.Block().Preds[i]
			k := 0
			for j, s := range p.Succs {
				if s == phi.Block() {
					k = j
				}
			}
			gs := P.EdgeGuards(p, k)
			failed, _ := HasAtom(gs, `^!\(types\.Result\)\.IsOK\(`)
			fromHandler := t != "0" && t != `""`
			if fromHandler != failed {
				good = false
			}
		}
		r.Check(good, rule, "runMsg/"+a+"-selected-by-IsOK", P.InstrPos(st), "handler's value iff !IsOK", "the result's "+a+" is taken from the handler's result on the wrong branch: a failed message would be reported as successful (and its ante-handler cache committed)")
	})
	if n == 0 {
		r.Viol(rule, "runMsg/code-selected-by-IsOK", P.Pos(f.Pos()), "runMsg no longer derives the result code from the handler's result")
	}
}

// nameToKeyShape: the store a query names is the store that answers (C14-R11).
func nameToKeyShape(r *Run, rule string) {
	P := r.P
	r.Rule(rule, "a store query is answered by the store it names: rootmulti.nameToKey returns the mounted key whose Name() equals the requested name", 1)
	f := r.fn(rmS + "nameToKey")
	if f == nil {
		return
	}
	n := 0
	for i, a := range P.RetAlternatives(f, 0) {
		t := a.T.String()
		if t == "nil" || strings.HasPrefix(t, "zero:") {
			continue
		}
		n++
		ok := false
		for _, g := range a.G {
			k := canonAtom(g.Key())
			if g.Pos && strings.Contains(k, ".Name(") && strings.Contains(k, "param:name") && strings.Contains(k, "==") {
				ok = true
			}
		}
		r.Check(ok, rule, fmt.Sprintf("nameToKey/return#%d/name-matches", i), P.InstrPos(a.Ret), "under key.Name() == name", "nameToKey returns a key under {"+strings.Join(atomStrings(a.G), " ; ")+"} ; required key.Name() == name")
	}
	if n == 0 {
		r.Viol(rule, "nameToKey/returns-key", P.Pos(f.Pos()), "nameToKey returns no key")
	}
}

func init() {
	extend("C11", func(r *Run) { runMsgPropagatesFailure(r, "C11-R19") })
	extend("C14", func(r *Run) { nameToKeyShape(r, "C14-R11") })
}
