package main

import (
	"fmt"
	"regexp"
	"strings"

	"golang.org/x/tools/go/ssa"
)

func init() {
	register("C12", checkC12)
	register("C13", checkC13)
	register("C14", checkC14)
}

const (
	rmS      = "(*store/rootmulti.Store)."
	newVer   = "(param:rs.lastCommitID.Version + 1)"
	cStores  = "store/rootmulti.commitStores(" + newVer + ", param:rs.stores)"
	theBatch = "github.com/tendermint/tm-db.DB.NewBatch(param:rs.DB)"
	iavlSave = "store/iavl.Tree.SaveVersion(param:st.tree)"
)

// commitShape: the rootmulti Commit sequence (C12-R1/R2, C13-R1).
func commitShape(r *Run, rule string) {
	P := r.P
	f := r.fn(rmS + "Commit")
	if f == nil {
		return
	}
	cs := r.oneCall(rule, "Commit", f, "store/rootmulti.commitStores")
	ci := r.oneCall(rule, "Commit", f, "store/rootmulti.setCommitInfo")
	lv := r.oneCall(rule, "Commit", f, "store/rootmulti.setLatestVersion")
	wr := r.oneCall(rule, "Commit", f, "github.com/tendermint/tm-db.Batch.Write")
	if cs == nil || ci == nil || lv == nil || wr == nil {
		return
	}
	r.Check(P.callTerm(cs).String() == cStores, rule, "Commit/version=last+1", P.InstrPos(cs), cStores, "substores are committed as "+P.callTerm(cs).String()+" ; required version lastCommitID.Version+1 over rs.stores")
	want := "store/rootmulti.setCommitInfo(" + theBatch + ", " + newVer + ", " + cStores + ")"
	r.Check(P.callTerm(ci).String() == want, rule, "Commit/commit-info-in-batch", P.InstrPos(ci), want, "commit info write is "+P.callTerm(ci).String()+" ; required "+want)
	want = "store/rootmulti.setLatestVersion(" + theBatch + ", " + newVer + ")"
	r.Check(P.callTerm(lv).String() == want, rule, "Commit/latest-marker-in-same-batch", P.InstrPos(lv), want, "latest-version marker write is "+P.callTerm(lv).String()+" ; required "+want)
	r.Check(argTerm(P.callTerm(wr), 0).String() == theBatch, rule, "Commit/flushes-that-batch", P.InstrPos(wr), theBatch, "flushes "+argTerm(P.callTerm(wr), 0).String())
	// one batch object: NewBatch called once
	r.Check(len(CallsIn(f, "github.com/tendermint/tm-db.DB.NewBatch")) == 1, rule, "Commit/one-batch", P.Pos(f.Pos()), "one batch", "Commit creates several batches: marker and commit info may not be written atomically")
	// order: substore commits -> batch fill -> flush -> lastCommitID
	r.Check(Precedes(cs, wr) && Precedes(ci, wr) && Precedes(lv, wr), rule, "Commit/order", P.InstrPos(wr), "commitStores, setCommitInfo, setLatestVersion precede the flush on every path", "the batch is flushed before the substores were committed or before it was filled")
	for _, c := range []ssa.CallInstruction{cs, ci, lv, wr} {
		r.Check(len(P.Guards(c, 0)) == 0, rule, "Commit/unconditional:"+P.callTerm(c).Name, P.InstrPos(c), "unconditional", "conditional: "+strings.Join(atomStrings(P.Guards(c, 0)), " ; "))
	}
	// the in-memory last commit id is set from the same version and info, after the flush
	var st *ssa.Store
	Instrs(f, func(in ssa.Instruction) {
		if s, ok := in.(*ssa.Store); ok && P.TermAt(s.Addr, s).String() == "&param:rs.lastCommitID" {
			st = s
		}
	})
	if st == nil {
		r.Viol(rule, "Commit/lastCommitID", P.Pos(f.Pos()), "Commit no longer updates rs.lastCommitID")
	} else {
		v := P.TermAt(st.Val, st).String()
		wantV := "complit:store/types.CommitID{Hash=(store/rootmulti.commitInfo).Hash(" + cStores + "), Version=" + newVer + "}"
		r.Check(v == wantV, rule, "Commit/lastCommitID", P.InstrPos(st), v, "lastCommitID := "+v+" ; required "+wantV)
		r.Check(Precedes(wr, st), rule, "Commit/lastCommitID-after-flush", P.InstrPos(st), "set after the flush", "lastCommitID is advanced before the batch is flushed")
		for _, ret := range Returns(f) {
			rv := P.TermAt(ret.Results[0], ret).String()
			r.Check(rv == wantV, rule, "Commit/returns-that-id", P.InstrPos(ret), rv, "Commit returns "+rv)
		}
	}
}

func markerOwnership(r *Run, rule string) {
	P := r.P
	// the two keys are written only by their helpers, which take a Batch and are called only from Commit
	for _, h := range []string{"store/rootmulti.setCommitInfo", "store/rootmulti.setLatestVersion"} {
		if f := r.fn(h); f != nil {
			r.callersExactly(rule, h, r.edgesTo(f), []string{rmS + "Commit"})
			r.Check(typeStr(f.Params[0].Type()) == "github.com/tendermint/tm-db.Batch", rule, h+"/writes-through-batch", P.Pos(f.Pos()), "takes a dbm.Batch", h+" no longer writes through a Batch parameter ("+typeStr(f.Params[0].Type())+")")
			for _, c := range CallsIn(f, "github.com/tendermint/tm-db.Batch.Set") {
				r.Check(argTerm(P.callTerm(c), 0).String() == "param:batch", rule, h+"/Set-on-param-batch", P.InstrPos(c), "batch.Set", "writes to "+argTerm(P.callTerm(c), 0).String())
			}
		}
	}
	checkConstUsers(r, rule, "s/latest", []string{"store/rootmulti.setLatestVersion", "store/rootmulti.getLatestVersion"})
	checkConstUsers(r, rule, "s/%d", []string{"store/rootmulti.setCommitInfo", "store/rootmulti.getCommitInfo"})
	// nothing else in rootmulti writes rs.DB directly
	for _, fn := range P.RepoFns {
		if fn.Pkg == nil || short(fn.Pkg.Pkg.Path()) != "store/rootmulti" {
			continue
		}
		InstrsRaw(fn, func(in ssa.Instruction) {
			ci, ok := in.(ssa.CallInstruction)
			if !ok || !ci.Common().IsInvoke() {
				return
			}
			m := ci.Common().Method.Name()
			ts := typeStr(ci.Common().Value.Type())
			if ts == "github.com/tendermint/tm-db.DB" && (m == "Set" || m == "SetSync" || m == "Delete" || m == "DeleteSync") {
				n := short(enclosingTop(fn).String())
				if strings.Contains(n, "dbadapter") || strings.Contains(n, "commitDBStoreAdapter") {
					return
				}
				r.Viol(rule, "rootmulti-direct-db-write@"+n, P.InstrPos(in), n+" writes the multistore DB directly ("+m+") outside the commit batch")
			}
		})
	}
}

func checkC12(r *Run) {
	P := r.P
	moreC12(r)
	r.NotDecided("content equality after reopen (IAVL and the DB are libraries)")
	r.NotDecided("which versions a pruning policy retains as a function of the whole history (decided: the delete argument and its guards in one Commit)")

	r.Rule("C12-R1", "Commit advances the version by exactly one: commitStores, commit info, latest marker and lastCommitID all use lastCommitID.Version+1; marker and commit info go into one batch that is flushed after every substore committed; lastCommitID = {version, commitInfo.Hash()} is set after the flush and returned", 12)
	commitShape(r, "C12-R1")

	r.Rule("C12-R3", "the keys s/latest and s/<version> are written only by setLatestVersion/setCommitInfo, through a Batch, called only from Commit; nothing else writes the multistore DB directly", 6)
	markerOwnership(r, "C12-R3")

	r.Rule("C12-R4", "LoadVersion(ver) reads the commit info of ver, loads every mounted substore with the CommitID recorded for it in that commit info, and sets lastCommitID = cInfo.CommitID(); Info/LastCommitID report rs.lastCommitID; LoadLatestVersion loads getLatestVersion(DB)", 6)
	if f := r.fn(rmS + "LoadVersion"); f != nil {
		if c := r.oneCall("C12-R4", "LoadVersion", f, "store/rootmulti.getCommitInfo"); c != nil {
			r.Check(P.callTerm(c).String() == "store/rootmulti.getCommitInfo(param:rs.DB, param:ver)", "C12-R4", "LoadVersion/reads-requested-version", P.InstrPos(c), "getCommitInfo(rs.DB, ver)", "reads "+P.callTerm(c).String())
		}
		n := 0
		for _, c := range CallsIn(f, rmS+"loadCommitStoreFromParams") {
			id := argTerm(P.callTerm(c), 2).String()
			if strings.Contains(id, "Core.CommitID") {
				n++
				r.Check(strings.Contains(id, "store/rootmulti.getCommitInfo(param:rs.DB, param:ver)#0.StoreInfos") || strings.Contains(id, "makemap"), "C12-R4", "LoadVersion/substore-commit-id", P.InstrPos(c), id, "substore is loaded at "+id+" which does not come from the commit info of the requested version")
			}
		}
		r.Check(n == 1, "C12-R4", "LoadVersion/substores-from-commit-info", P.Pos(f.Pos()), "substores are loaded at the recorded CommitID", "no substore load uses the CommitID recorded in the commit info")
		okSet := false
		Instrs(f, func(in ssa.Instruction) {
			if s, ok := in.(*ssa.Store); ok && P.TermAt(s.Addr, s).String() == "&param:rs.lastCommitID" {
				if P.TermAt(s.Val, s).String() == "(store/rootmulti.commitInfo).CommitID(store/rootmulti.getCommitInfo(param:rs.DB, param:ver)#0)" {
					okSet = true
				}
			}
		})
		r.Check(okSet, "C12-R4", "LoadVersion/lastCommitID", P.Pos(f.Pos()), "lastCommitID = cInfo.CommitID()", "LoadVersion does not set lastCommitID from the loaded commit info")
		for i, ret := range P.successReturns(f, 0, "nil") {
			_ = i
			_ = ret
		}
	}
	if f := r.fn(rmS + "LoadLatestVersion"); f != nil {
		want := rmS + "LoadVersion(param:rs, store/rootmulti.getLatestVersion(param:rs.DB))"
		for _, ret := range Returns(f) {
			t := P.TermAt(ret.Results[0], ret).String()
			// `return rs.LoadVersion(v)` may be written out: nil exactly under LoadVersion(v) == nil
			if t == "nil" {
				if ok, _ := HasAtom(P.LocalGuards(ret), `^isnil\(`+regexp.QuoteMeta(want)+`\)$`); ok {
					continue
				}
			}
			r.Check(t == want, "C12-R4", "LoadLatestVersion", P.InstrPos(ret), t, "LoadLatestVersion is "+t)
		}
	}
	if f := r.fn(rmS + "LastCommitID"); f != nil {
		for _, ret := range Returns(f) {
			t := P.TermAt(ret.Results[0], ret).String()
			r.Check(t == "param:rs.lastCommitID", "C12-R4", "LastCommitID", P.InstrPos(ret), t, "LastCommitID returns "+t)
		}
	}
	if f := r.fn("(*baseapp.BaseApp).Info"); f != nil {
		for _, ret := range Returns(f) {
			t := P.TermAt(ret.Results[0], ret).String()
			ok := strings.Contains(t, "LastBlockHeight=store/types.CommitMultiStore.LastCommitID(param:app.cms).Version") && strings.Contains(t, "LastBlockAppHash=store/types.CommitMultiStore.LastCommitID(param:app.cms).Hash")
			r.Check(ok, "C12-R4", "BaseApp.Info", P.InstrPos(ret), "Info reports cms.LastCommitID()", "Info returns "+t)
		}
	}
	if f := r.fn("(*baseapp.BaseApp).Commit"); f != nil {
		for _, ret := range Returns(f) {
			t := P.TermAt(ret.Results[0], ret).String()
			if strings.Contains(t, "Data=") {
				r.Check(strings.Contains(t, "Data=store/types.CommitMultiStore.Commit(param:app.cms).Hash"), "C12-R4", "BaseApp.Commit/returns-hash", P.InstrPos(ret), t, "Commit returns "+t)
			}
		}
	}
	if f := r.fn("(store/rootmulti.commitInfo).CommitID"); f != nil {
		for _, ret := range Returns(f) {
			t := P.TermAt(ret.Results[0], ret).String()
			r.Check(strings.Contains(t, "Version=param:ci.Version") && strings.Contains(t, "Hash=(store/rootmulti.commitInfo).Hash(param:ci)"), "C12-R4", "commitInfo.CommitID", P.InstrPos(ret), t, "commitInfo.CommitID is "+t)
		}
	}

	r.Rule("C12-R5", "transient stores are empty after every commit: transient.Store.Commit replaces its store with a fresh MemDB adapter; commitStores calls Commit on every store and omits only transient stores from StoreInfos", 4)
	if f := r.fn("(*store/transient.Store).Commit"); f != nil {
		ok := false
		Instrs(f, func(in ssa.Instruction) {
			if s, ok2 := in.(*ssa.Store); ok2 {
				a, v := P.TermAt(s.Addr, s).String(), P.TermAt(s.Val, s).String()
				if strings.HasPrefix(a, "&param:ts.Store") && strings.Contains(v, "github.com/tendermint/tm-db.NewMemDB()") {
					ok = true
				}
			}
		})
		r.Check(ok, "C12-R5", "transient.Commit/resets", P.Pos(f.Pos()), "store replaced by a fresh MemDB", "transient.Store.Commit no longer replaces its store with a fresh MemDB: transient data would survive the commit")
	}
	if f := r.fn("store/rootmulti.commitStores"); f != nil {
		cm := CallsIn(f, "store/types.CommitStore.Commit")
		r.Check(len(cm) == 1, "C12-R5", "commitStores/commits-each", P.Pos(f.Pos()), "one Commit call in the loop", fmt.Sprintf("%d Commit calls", len(cm)))
		if len(cm) == 1 {
			// Commit is called for every map entry: guard set only the loop condition
			gs := P.Guards(cm[0], 0)
			extra := 0
			for _, a := range gs {
				if !strings.Contains(a.Key(), "next(range(") {
					extra++
				}
			}
			r.Check(extra == 0, "C12-R5", "commitStores/commit-unconditional", P.InstrPos(cm[0]), "every store is committed", "a store's Commit is conditional: "+strings.Join(atomStrings(gs), " ; "))
			// skipped from StoreInfos only if transient
			var app ssa.Instruction
			Instrs(f, func(in ssa.Instruction) {
				if ci, ok := in.(ssa.CallInstruction); ok {
					if op, n := calleeName(ci.Common()); op == "builtin" && n == "append" {
						app = in
					}
				}
			})
			if app != nil {
				ok, _ := HasAtom(P.Guards(app, 0), `^!\(3 == store/types\.CommitStore\.GetStoreType\(`)
				ok2, _ := HasAtom(P.Guards(app, 0), `^!\(store/types\.CommitStore\.GetStoreType\(.*\) == 3\)$`)
				r.Check(ok || ok2, "C12-R5", "commitStores/omits-only-transient", P.InstrPos(app), "StoreInfos omits exactly the transient stores", "the StoreInfos append is guarded by "+strings.Join(atomStrings(P.Guards(app, 0)), " ; "))
				t := P.callTerm(app.(ssa.CallInstruction)).String()
				r.Check(strings.Contains(t, "Name=store/types.StoreKey.Name(") && strings.Contains(t, "Core.CommitID=store/types.CommitStore.Commit(") || strings.Contains(t, "CommitID=store/types.CommitStore.Commit("), "C12-R5", "commitStores/records-name-and-commit-id", P.InstrPos(app), "records (key.Name(), store.Commit())", "recorded store info is "+t)
			}
		}
	}

	r.Rule("C12-R6", "pruning in iavl.Store.Commit: the version deleted is (saved version - 1) - numRecent, only when numRecent < saved version - 1 and it is not a keep-every waypoint; SaveVersion errors panic; DeleteVersion errors other than ErrVersionDoesNotExist panic; the returned CommitID is SaveVersion's (version, hash)", 5)
	iavlCommitShape(r, "C12-R6")

	r.Rule("C12-R7", "pruned or future versions read as an error, never as other data: GetImmutable and the /key query test VersionExists(version) before touching the tree", 2)
	if f := r.fn("(*store/iavl.Store).GetImmutable"); f != nil {
		if c := r.oneCall("C12-R7", "GetImmutable", f, "store/iavl.Tree.GetImmutable"); c != nil {
			r.requireAtoms("C12-R7", "GetImmutable/tree-read", c, P.Guards(c, 0), []req{{"version-exists", `^\(\*store/iavl\.Store\)\.VersionExists\(param:st, param:version\)$`}})
			r.Check(argTerm(P.callTerm(c), 1).String() == "param:version", "C12-R7", "GetImmutable/same-version", P.InstrPos(c), "param:version", "reads version "+argTerm(P.callTerm(c), 1).String())
		}
	}
	queryVersionGuard(r, "C12-R7")
}

func iavlCommitShape(r *Run, rule string) {
	P := r.P
	f := r.fn("(*store/iavl.Store).Commit")
	if f == nil {
		return
	}
	if c := r.oneCall(rule, "iavl.Commit", f, "store/iavl.Tree.DeleteVersion"); c != nil {
		got := argTerm(P.callTerm(c), 1).String()
		want := "((" + iavlSave + "#1 - 1) - param:st.numRecent)"
		r.Check(got == want, rule, "iavl.Commit/deleted-version", P.InstrPos(c), got, "deletes version "+got+" ; required "+want)
		r.requireAtoms(rule, "iavl.Commit/delete", c, P.Guards(c, 0), []req{
			{"numRecent<previous", `^\(param:st\.numRecent < \(` + q(iavlSave+"#1") + ` - 1\)\)$`},
			{"save-ok", `^isnil\(` + q(iavlSave+"#2") + `\)$`},
		})
		r.requireCut(rule, "iavl.Commit/delete", nil, c, "not-a-waypoint", `^\(0 == param:st\.storeEvery\)$`, `^!\(0 == \(.* % param:st\.storeEvery\)\)$`, `^!\(\(.* % param:st\.storeEvery\) == 0\)$`)
	}
	for _, ret := range Returns(f) {
		t := P.TermAt(ret.Results[0], ret).String()
		want := "complit:store/types.CommitID{Hash=" + iavlSave + "#0, Version=" + iavlSave + "#1}"
		r.Check(t == want, rule, "iavl.Commit/returns-saved-version", P.InstrPos(ret), t, "returns "+t+" ; required "+want)
		r.requireAtoms(rule, "iavl.Commit/return", ret, P.Guards(ret, 0), []req{{"save-ok", `^isnil\(` + q(iavlSave+"#2") + `\)$`}})
	}
	// errors of DeleteVersion other than ErrVersionDoesNotExist panic
	okPanic := false
	Instrs(f, func(in ssa.Instruction) {
		if p, ok := in.(*ssa.Panic); ok {
			for _, a := range P.Guards(p, 0) {
				if strings.Contains(a.Key(), "ErrVersionDoesNotExist") && !a.Pos {
					okPanic = true
				}
			}
		}
	})
	r.Check(okPanic, rule, "iavl.Commit/delete-error-panics", P.Pos(f.Pos()), "unexpected DeleteVersion errors panic", "DeleteVersion errors are no longer turned into a panic")
}

func queryVersionGuard(r *Run, rule string) {
	P := r.P
	f := r.fn("(*store/iavl.Store).Query")
	if f == nil {
		return
	}
	h := "store/iavl.getHeight(param:st.tree, param:req)"
	for _, n := range []string{"store/iavl.Tree.GetVersionedWithProof", "store/iavl.Tree.GetVersioned"} {
		for _, c := range CallsIn(f, n) {
			r.requireAtoms(rule, "iavl.Query/"+n, c, P.Guards(c, 0), []req{{"version-exists", `^\(\*store/iavl\.Store\)\.VersionExists\(param:st, ` + q(h) + `\)$`}})
		}
	}
}

func checkC13(r *Run) {
	moreC13(r)
	r.NotDecided("crash behaviour itself (depends on IAVL's and the DB's write atomicity); decided: ordering conditions each of which is necessary")
	r.Rule("C13-R1", "the latest-version marker and the commit info are written in one batch, flushed after every substore commit, and written nowhere else (= C12-R1/R3)", 12)
	commitShape(r, "C13-R1")
	markerOwnership(r, "C13-R1")

	r.Rule("C13-R2", "no destructive work on a version the marker still points to: on the path of rootmulti Commit, a Tree.DeleteVersion(x) that executes before the marker flush must have x provably below the currently committed version", 1)
	P := r.P
	g := P.CG()
	if f := r.fn(rmS + "Commit"); f != nil {
		wr := CallsIn(f, "github.com/tendermint/tm-db.Batch.Write")
		cs := CallsIn(f, "store/rootmulti.commitStores")
		if len(wr) == 1 && len(cs) == 1 {
			// functions reachable from commitStores (i.e. before the flush)
			csf := P.Fn("store/rootmulti.commitStores")
			reached := g.Reach([]*ssa.Function{csf}, nil)
			for fn := range reached {
				for _, c := range CallsIn(fn, "store/iavl.Tree.DeleteVersion") {
					before := Precedes(cs[0], wr[0])
					x := argTerm(P.callTerm(c), 1).String()
					// provably older than the marker? the marker is the previous version = saved-1; x = (saved-1)-numRecent is older only if numRecent >= 1
					gs := P.Guards(c, 0)
					older, _ := HasAtom(gs, `^\(0 < param:st\.numRecent\)$`)
					r.Check(!before || older, "C13-R2", "prune-before-marker-flush@"+short(P.liftToPinned(fn).String()), P.InstrPos(c),
						"the pruning delete is provably below the marker version",
						"reachable from rootmulti Commit via "+g.PathTo(reached, fn)+" BEFORE batch.Write(): DeleteVersion("+x+") removes, with numRecent = 0 (PruneEverything), exactly the version the on-disk latest-version marker still names; IAVL deletes durably at once, so a crash between this delete and the marker flush leaves a marker pointing at a deleted version (reopen fails)")
				}
			}
		}
	}

	r.Rule("C13-R3", "a divergent re-save cannot be silently accepted: iavl.Store.Commit panics on any SaveVersion error (= C12-R6)", 2)
	iavlCommitShape(r, "C13-R3")
}

func checkC14(r *Run) {
	P := r.P
	moreC14(r)
	r.NotDecided("that IAVL proofs verify (library); that the tree content at a version equals what was committed (C12)")
	r.NotDecided("the /subspace query path: it iterates the live tree and ignores the height (outside the statement's key queries; recorded as an observation)")
	h := "store/iavl.getHeight(param:st.tree, param:req)"

	r.Rule("C14-R1", "one height: in iavl.Store.Query('/key') the version argument of VersionExists, GetVersionedWithProof and GetVersioned is the value stored in res.Height; only versioned accessors are used; value and proof come from the same call", 6)
	if f := r.fn("(*store/iavl.Store).Query"); f != nil {
		okH := false
		Instrs(f, func(in ssa.Instruction) {
			if s, ok := in.(*ssa.Store); ok && P.TermAt(s.Addr, s).String() == "&addr:github.com/tendermint/tendermint/abci/types.ResponseQuery.Height" {
				okH = P.TermAt(s.Val, s).String() == h
			}
		})
		r.Check(okH, "C14-R1", "Query/res.Height", P.Pos(f.Pos()), "res.Height = getHeight(tree, req)", "res.Height is not set from getHeight(tree, req)")
		for _, n := range []string{"(*store/iavl.Store).VersionExists", "store/iavl.Tree.GetVersionedWithProof", "store/iavl.Tree.GetVersioned"} {
			cs := CallsIn(f, n)
			if len(cs) == 0 {
				r.Viol("C14-R1", "Query/uses:"+n, P.Pos(f.Pos()), "the /key query no longer uses "+n)
			}
			for _, c := range cs {
				t := P.callTerm(c)
				ver := t.Args[len(t.Args)-1].String()
				r.Check(ver == h, "C14-R1", "Query/"+n+"/version", P.InstrPos(c), ver, n+" is asked for version "+ver+" ; required res.Height = "+h)
				if n != "(*store/iavl.Store).VersionExists" {
					r.Check(argTerm(t, 1).String() == "param:req.Data", "C14-R1", "Query/"+n+"/key", P.InstrPos(c), "req.Data", n+" is asked for key "+argTerm(t, 1).String())
				}
			}
		}
		// no unversioned read in the /key arm
		for _, n := range []string{"store/iavl.Tree.Get", "(*store/iavl.Store).Get"} {
			for _, c := range CallsIn(f, n) {
				if _, nm := calleeName(c.Common()); nm == n {
					r.Viol("C14-R1", "Query/unversioned-read", P.InstrPos(c), "the query reads the working tree with "+n+" (uncommitted data could be returned)")
				}
			}
		}
		// value and proof from the same call
		p := "store/iavl.Tree.GetVersionedWithProof(param:st.tree, param:req.Data, " + h + ")"
		Instrs(f, func(in ssa.Instruction) {
			if s, ok := in.(*ssa.Store); ok && P.TermAt(s.Addr, s).String() == "&addr:github.com/tendermint/tendermint/abci/types.ResponseQuery.Value" {
				v := P.TermAt(s.Val, s).String()
				ok2 := v == p+"#0" || v == "nil" || v == "store/iavl.Tree.GetVersioned(param:st.tree, param:req.Data, "+h+")#1" || strings.HasPrefix(v, "(*github.com/tendermint/go-amino.Codec).MarshalBinaryLengthPrefixed(")
				r.Check(ok2, "C14-R1", "Query/value-source:"+v[:min(len(v), 40)], P.InstrPos(s), v, "res.Value is assigned "+v)
			}
		})
		for _, n := range []string{"github.com/tendermint/iavl.NewIAVLValueOp", "github.com/tendermint/iavl.NewIAVLAbsenceOp"} {
			for _, c := range CallsIn(f, n) {
				t := P.callTerm(c)
				r.Check(argTerm(t, 0).String() == "param:req.Data" && argTerm(t, 1).String() == p+"#1", "C14-R1", "Query/"+n, P.InstrPos(c), "op built from the queried key and the proof of the same call", "proof op is "+t.String())
			}
		}
		// existence op iff value != nil
		for _, c := range CallsIn(f, "github.com/tendermint/iavl.NewIAVLValueOp") {
			r.requireAtoms("C14-R1", "Query/value-op", c, P.Guards(c, 0), []req{{"value-found", `^!isnil\(` + q(p+"#0") + `\)$`}})
		}
		for _, c := range CallsIn(f, "github.com/tendermint/iavl.NewIAVLAbsenceOp") {
			r.requireAtoms("C14-R1", "Query/absence-op", c, P.Guards(c, 0), []req{{"value-absent", `^isnil\(` + q(p+"#0") + `\)$`}})
		}
	}
	if f := r.fn("store/iavl.getHeight"); f != nil {
		var alts []string
		for _, a := range P.RetAlternatives(f, 0) {
			alts = append(alts, a.T.String())
		}
		all := strings.Join(alts, " | ")
		ok := strings.Contains(all, "param:req.Height") && strings.Contains(all, "store/iavl.Tree.Version(param:tree)")
		r.Check(ok, "C14-R1", "getHeight", P.Pos(f.Pos()), all, "getHeight returns "+all)
	}

	r.Rule("C14-R2", "multistore proof is built for the same height and store: rootmulti.Query reads the commit info of res.Height (the substore's answer), appends a multistore proof op built from that commit info's StoreInfos keyed by the queried store name; handleQueryStore injects the latest height when none is given and refuses proofs at height <= 1", 6)
	if f := r.fn(rmS + "Query"); f != nil {
		sub := "store/types.Queryable.Query("
		if c := r.oneCall("C14-R2", "rootmulti.Query", f, "store/rootmulti.getCommitInfo"); c != nil {
			t := P.callTerm(c)
			ok := argTerm(t, 0).String() == "param:rs.DB" && strings.HasPrefix(argTerm(t, 1).String(), sub) && strings.HasSuffix(argTerm(t, 1).String(), ".Height")
			r.Check(ok, "C14-R2", "rootmulti.Query/commit-info-of-answer-height", P.InstrPos(c), t.String(), "commit info is read for "+argTerm(t, 1).String()+" ; required the Height of the substore's answer")
		}
		if c := r.oneCall("C14-R2", "rootmulti.Query", f, "store/rootmulti.NewMultiStoreProof"); c != nil {
			a := argTerm(P.callTerm(c), 0).String()
			r.Check(strings.HasPrefix(a, "store/rootmulti.getCommitInfo(param:rs.DB, ") && strings.HasSuffix(a, "#0.StoreInfos"), "C14-R2", "rootmulti.Query/proof-from-that-commit-info", P.InstrPos(c), a, "multistore proof is built from "+a)
		}
		if c := r.oneCall("C14-R2", "rootmulti.Query", f, "store/rootmulti.NewMultiStoreProofOp"); c != nil {
			a := argTerm(P.callTerm(c), 0).String()
			r.Check(a == "store/rootmulti.parsePath(param:req.Path)#0", "C14-R2", "rootmulti.Query/op-key-is-store-name", P.InstrPos(c), a, "proof op key is "+a+" ; required the queried store name")
		}
		if c := r.oneCall("C14-R2", "rootmulti.Query", f, "store/types.Queryable.Query"); c != nil {
			recv := argTerm(P.callTerm(c), 0).String()
			r.Check(strings.Contains(recv, rmS+"getStoreByName(param:rs, store/rootmulti.parsePath(param:req.Path)#0)"), "C14-R2", "rootmulti.Query/routes-to-named-store", P.InstrPos(c), recv, "query is routed to "+recv)
		}
	}
	if f := r.fn("baseapp.handleQueryStore"); f != nil {
		if c := r.oneCall("C14-R2", "handleQueryStore", f, "store/types.Queryable.Query"); c != nil {
			r.requireAtoms("C14-R2", "handleQueryStore/query", c, P.Guards(c, 0), []req{{"queryable", `^param:app\.cms\.\(store/types\.Queryable\)#1$`}})
			r.requireCut("C14-R2", "handleQueryStore/query", nil, c, "no-proof-at-height<=1", `^!\(.* < 2\)$`, `^!\(2 < .*\)$`, `^\(1 < .*Height.*\)$`, `^!param:req\.Prove$`, `^!.*\.Prove$`)
		}
	}

	r.Rule("C14-R3", "pruned/future heights yield neither value nor proof: the tree reads in '/key' are dominated by VersionExists(res.Height); on its false branch only res.Log is assigned", 3)
	queryVersionGuard(r, "C14-R3")
	if f := r.fn("(*store/iavl.Store).Query"); f != nil {
		for _, e := range P.ifEdgesFor(f, `^!\(\*store/iavl\.Store\)\.VersionExists\(param:st, `+q(h)+`\)$`) {
			reach, w, _ := ReachFromBlock(e.B.Succs[e.I], func(in ssa.Instruction) bool {
				if s, ok := in.(*ssa.Store); ok {
					a := P.TermAt(s.Addr, s).String()
					return a == "&addr:github.com/tendermint/tendermint/abci/types.ResponseQuery.Value" || a == "&addr:github.com/tendermint/tendermint/abci/types.ResponseQuery.Proof"
				}
				return false
			}, nil, nil)
			r.Check(!reach, "C14-R3", "Query/missing-version-assigns-nothing", P.Pos(f.Pos()), "no value/proof assigned when the version does not exist", "when the version does not exist the query can still assign a value or proof at "+P.InstrPos(w))
		}
	}

	r.Rule("C14-R4", "hash agreement: the multistore proof recomputes the root with the same commitInfo.Hash used by Commit/LoadVersion, and the proof op accepts only when the substore root equals the CommitID hash recorded for the store whose name is the op key", 4)
	if f := r.fn("(*store/rootmulti.MultiStoreProof).ComputeRootHash"); f != nil {
		for _, ret := range Returns(f) {
			t := P.TermAt(ret.Results[0], ret).String()
			ok := strings.HasPrefix(t, "(store/rootmulti.commitInfo).Hash(") && strings.Contains(t, "StoreInfos=param:proof.StoreInfos")
			r.Check(ok, "C14-R4", "MultiStoreProof.ComputeRootHash", P.InstrPos(ret), t, "ComputeRootHash is "+t+" ; required commitInfo{StoreInfos: proof.StoreInfos}.Hash()")
		}
	}
	if f := r.fn("(store/rootmulti.commitInfo).Hash"); f != nil {
		if c := r.oneCall("C14-R4", "commitInfo.Hash", f, "github.com/tendermint/tendermint/crypto/merkle.SimpleHashFromMap"); c != nil {
			r.OK("C14-R4", "commitInfo.Hash/name-keyed-map", P.InstrPos(c), "hash goes through a map keyed by store name (order-independent)")
		}
	}
	if f := r.fn("(store/rootmulti.MultiStoreProofOp).Run"); f != nil {
		n := 0
		for _, ret := range P.successReturns(f, 1, "nil") {
			n++
			r.requireAtoms("C14-R4", "MultiStoreProofOp.Run/success", ret, P.Guards(ret, 0), []req{
				{"one-arg", `^\(1 == len\(param:args\)\)$`},
				{"store-name-matches-key", `^\(.*Name == .*param:op\.key.*\)$|^\(.*param:op\.key.* == .*Name\)$`},
				{"substore-root-matches", `^bytes\.Equal\(.*, .*Core\.CommitID\.Hash\)$|^bytes\.Equal\(.*Core\.CommitID\.Hash, .*\)$`},
			})
			t := P.TermAt(ret.Results[0], ret).String()
			r.Check(strings.Contains(t, "(*store/rootmulti.MultiStoreProof).ComputeRootHash(param:op.Proof)"), "C14-R4", "MultiStoreProofOp.Run/returns-root", P.InstrPos(ret), t, "Run returns "+t)
		}
		r.Check(n == 1, "C14-R4", "MultiStoreProofOp.Run/one-success", P.Pos(f.Pos()), "one success return", fmt.Sprintf("%d success returns", n))
	}

	r.Rule("C14-R5", "every proof-op type produced on a query path has a decoder registered in DefaultProofRuntime; RequireProof admits exactly '/key'", 4)
	if f := r.fn("store/rootmulti.DefaultProofRuntime"); f != nil {
		regs := map[string]bool{}
		for _, c := range CallsIn(f, "(*github.com/tendermint/tendermint/crypto/merkle.ProofRuntime).RegisterOpDecoder") {
			regs[argTerm(P.callTerm(c), 1).String()] = true
		}
		for _, need := range []string{`"iavl:v"`, `"iavl:a"`, `"multistore"`} {
			r.Check(regs[need], "C14-R5", "DefaultProofRuntime/decoder:"+need, P.Pos(f.Pos()), "registered", "no decoder registered for proof-op type "+need)
		}
	}
	if f := r.fn("store/rootmulti.RequireProof"); f != nil {
		for _, ret := range Returns(f) {
			t := P.TermAt(ret.Results[0], ret).String()
			r.Check(strings.Contains(t, `"/key"`) || t == "true" || t == "false", "C14-R5", "RequireProof", P.InstrPos(ret), t, "RequireProof is "+t)
		}
	}
}

func min(a, b int) int {
	if a < b {
		return a
	}
	return b
}
