package main

import (
	_ "embed"
	"encoding/json"
	"fmt"
	"sort"
	"strings"
)

// What a function answered, it still answers. For every repo function with branches (the branch-free ones are RT1's),
// pinned_return_values.json records the normalised terms of the non-error values it can return (`pv -dump
// returnvalues`; returned Phis are split into their alternatives; terms over merged or loop-carried values, constants,
// error / Result values and presentation helpers are left out). RRV1: each pinned value is still returned on some
// alternative — a function that now hands back a stale copy, the other of two similar values, or a value computed from
// the wrong operand has lost a pinned term. Monotone: additional return values are not reported.

//go:embed pinned_return_values.json
var pinnedReturnValuesJSON []byte

func (P *Prog) returnValues() map[string][]string {
	out := map[string][]string{}
	for _, f := range P.RepoFns {
		if f.Parent() != nil || len(f.Blocks) < 2 || f.Synthetic != "" || P.isNewHelper(f) {
			continue
		}
		n := short(f.String())
		if presentationName(n) {
			continue
		}
		res := f.Signature.Results()
		set := map[string]bool{}
		for i := 0; i < res.Len(); i++ {
			ts := typeStr(res.At(i).Type())
			if ts == "error" || ts == "types.Error" || ts == "types.Result" || ts == "string" || strings.HasSuffix(ts, "ResponseQuery") {
				continue
			}
			for _, a := range P.RetAlternatives(f, i) {
				if a.T.Op == "const" || a.T.Op == "zero" {
					continue
				}
				t := canonAtom(a.T.String())
				if unstableTermRe.MatchString(t) || len(t) > 600 {
					continue
				}
				// a verdict returned on the branch that tested it (`v, ok := f(); if !ok { return v, ok }`) is the
				// constant the test established, not a value of its own
				tested := false
				for _, g := range a.G {
					if g.T != nil && canonAtom(g.T.String()) == t {
						tested = true
					}
				}
				if tested {
					continue
				}
				if strings.HasPrefix(t, "makeslice(") || strings.HasPrefix(t, "addr:") || strings.Contains(t, "addr:new") {
					continue // a buffer (its content is in the stores) or an object mutated in place (judged by the rules of its type)
				}
				set[fmt.Sprintf("%d=%s", i, t)] = true
			}
		}
		for t := range set {
			out[n] = append(out[n], t)
		}
		sort.Strings(out[n])
	}
	return out
}

func dumpReturnValues(P *Prog) {
	b, _ := json.MarshalIndent(P.returnValues(), "", " ")
	fmt.Println(string(b))
}

func returnValuesKept(r *Run, rule string) {
	P := r.P
	r.Rule(rule, "what a function answered it still answers: every non-error value (normalised term) a branching function in scope could return on the pinned tree (pinned_return_values.json) is still returned on some alternative", 1)
	var pinned map[string][]string
	if err := json.Unmarshal(pinnedReturnValuesJSON, &pinned); err != nil || len(pinned) == 0 {
		r.Undecided(rule, "table", "-", "pinned_return_values.json is empty or unreadable")
		return
	}
	cur := P.returnValues()
	var names []string
	for n := range pinned {
		if f := P.Fn(n); f != nil && (r.Anchors[f] || inScope(r.Prop, f)) {
			names = append(names, n)
		}
	}
	sort.Strings(names)
	lost, n := 0, 0
	for _, fn := range names {
		f := P.Fn(fn)
		if len(f.Blocks) < 2 {
			continue // became branch-free: its single return is what RSG1 / specific rules see
		}
		have := map[string]bool{}
		for _, t := range cur[fn] {
			have[t] = true
		}
		for _, t := range pinned[fn] {
			n++
			if !have[t] {
				lost++
				r.Viol(rule, "return-value-lost:"+fn+":"+k2short(t), P.Pos(f.Pos()), fn+" could return result #"+oneLine(t)+" on the pinned tree ; no return alternative yields that value any more (now: {"+oneLine(strings.Join(cur[fn], " ; "))+"})")
			}
		}
	}
	r.OK(rule, "return-values-compared", "-", fmt.Sprintf("%d pinned return values in scope compared, %d lost", n, lost))
}

func init() {
	for i := 1; i <= 20; i++ {
		p := fmt.Sprintf("C%02d", i)
		extend(p, func(r *Run) { returnValuesKept(r, p+"-RRV1") })
	}
}
