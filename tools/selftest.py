#!/usr/bin/env python3
"""Checker self-validation (not a registered check).

For every patch under /verif/mutants/*.patch and /verif/seeded/*/patch.diff:
apply it to /repo (git apply), run pv for the properties named in the patch
header line `# expect: C05 C06` (or all properties when absent), undo it
(git checkout), and report which properties raised VIOLATION. Evidence of these
runs goes to a scratch directory, never to /verif/evidence.

usage: selftest.py [pattern]
"""
import glob, json, os, re, shutil, subprocess, sys, tempfile

REPO = "/repo"
PV = os.environ.get("PV", "/verif/bin/pv")

def sh(*a, **k):
    return subprocess.run(a, capture_output=True, text=True, **k)

def expected(path):
    meta = os.path.join(os.path.dirname(path), "meta.json")
    if os.path.basename(path) == "patch.diff" and os.path.exists(meta):
        m = json.load(open(meta))
        p = m.get("property") or m.get("properties")
        return p if isinstance(p, list) else [p]
    for line in open(path):
        m = re.match(r"#\s*expect:\s*(.*)", line)
        if m:
            return m.group(1).split()
    return []

def main():
    args = [a for a in sys.argv[1:] if not a.startswith("-")]
    pat = args[0] if args else ""
    patches = sorted(glob.glob("/verif/mutants/*.patch") + glob.glob("/verif/seeded/*/patch.diff"))
    patches = [p for p in patches if pat in p]
    if sh("git", "-C", REPO, "status", "--porcelain").stdout.strip():
        print("refusing: /repo has uncommitted changes")
        return 2
    scratch = tempfile.mkdtemp(prefix="pvself")
    shutil.copy("/verif/known_findings.json", scratch)
    bad = 0
    table = {}
    try:
        for p in patches:
            exp = expected(p)
            a = sh("git", "-C", REPO, "apply", "--whitespace=nowarn", p)
            if a.returncode != 0:
                print(f"APPLY-FAIL {p}: {a.stderr.strip()[:200]}")
                bad += 1
                continue
            try:
                out = sh(PV, "-prop", "all", "-verif", scratch)
                fired = sorted(set(re.findall(r"VIOLATION property=(C\d+)", out.stdout)))
                undec = sorted(set(re.findall(r"UNDECIDED property=(C\d+)", out.stdout)))
                ok = all(e in fired for e in exp) and (fired or not exp)
                tag = "CAUGHT " if (fired and ok) else ("MISSED " if not fired else "PARTIAL")
                if tag != "CAUGHT ":
                    bad += 1
                name = p.replace("/verif/", "")
                keys = {}
                for l in out.stdout.splitlines():
                    m = re.match(r"\s+violated (C\d+)-(R\w+)/(\S+)", l)
                    if m:
                        keys.setdefault(m.group(1), [])
                        k = f"{m.group(1)}-{m.group(2)}/{m.group(3)}"
                        if k not in keys[m.group(1)]:
                            keys[m.group(1)].append(k)
                table[name] = {"expect": exp, "fired": fired, "instances": keys}
                print(f"{tag} {name:55s} expect={','.join(exp) or '-'} fired={','.join(fired) or '-'} undecided={','.join(undec) or '-'}")
                if "-v" in sys.argv:
                    for l in out.stdout.splitlines():
                        if l.strip().startswith("violated"):
                            print("     ", l.strip()[:300])
            finally:
                sh("git", "-C", REPO, "checkout", "--", ".")
                # remove files the patch added
                sh("git", "-C", REPO, "clean", "-fdq")
    finally:
        shutil.rmtree(scratch, ignore_errors=True)
    if not pat:
        json.dump(table, open("/verif/seeded/catch_table.json", "w"), indent=1, sort_keys=True)
    print(f"{len(patches)} patches, {bad} not fully caught")
    return 1 if bad else 0

if __name__ == "__main__":
    sys.exit(main())
