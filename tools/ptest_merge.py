#!/usr/bin/env python3
"""ptest_merge.py <regex>: run pv on the seeded patches whose directory name matches <regex> (scratch copies, as
ptest.py does) and merge the result into seeded/catch_table.json without re-running the whole corpus."""
import glob, json, os, re, subprocess, sys, tempfile, shutil
sys.path.insert(0, os.path.dirname(__file__))
import ptest
from concurrent.futures import ThreadPoolExecutor
rx = re.compile(sys.argv[1])
jobs = int(sys.argv[2]) if len(sys.argv) > 2 else 7
patches = sorted(p for p in glob.glob("/verif/seeded/*/patch.diff") if rx.search(os.path.basename(os.path.dirname(p))))
root = tempfile.mkdtemp(prefix="pvpt-")
import queue
q = queue.Queue()
for s in range(jobs):
    q.put(s)
def task(p):
    s = q.get()
    try:
        return ptest.run_one((p, root, s))
    finally:
        q.put(s)
try:
    with ThreadPoolExecutor(max_workers=jobs) as ex:
        results = list(ex.map(task, patches))
finally:
    shutil.rmtree(root, ignore_errors=True)
T = json.load(open("/verif/seeded/catch_table.json"))
bad = 0
for patch, out, err in results:
    name = patch.replace("/verif/", "")
    if out is None:
        print("ERROR", name, err); bad += 1; continue
    fired = sorted(set(re.findall(r"^VIOLATION property=(C\d+)", out, re.M)))
    keys = {}
    for l in out.splitlines():
        m = re.match(r"\s+violated (C\d+)-(R\w+)/(\S+)", l)
        if m:
            k = f"{m.group(1)}-{m.group(2)}/{m.group(3)}"
            keys.setdefault(m.group(1), [])
            if k not in keys[m.group(1)]:
                keys[m.group(1)].append(k)
    exp = ptest.expected(patch)
    ok = all(e in fired for e in exp) and bool(fired)
    if not ok:
        bad += 1
    print(("CAUGHT " if ok else "NOT    "), name, "expect=" + ",".join(exp), "fired=" + ",".join(fired))
    T[name] = {"expect": exp, "fired": fired, "instances": keys}
json.dump(T, open("/verif/seeded/catch_table.json", "w"), indent=1, sort_keys=True)
print(len(patches), "patches,", bad, "not fully caught;", len(T), "entries in the table")
