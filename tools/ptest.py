#!/usr/bin/env python3
"""Parallel checker self-validation on scratch copies of /repo (never touches /repo itself).

usage: ptest.py seeded [pattern]      every /verif/seeded/*/patch.diff and /verif/mutants/*.patch must be reported
                                      by the expected property's check; writes seeded/catch_table.json when no pattern
       ptest.py benign [pattern]      every /verif/benign/*.diff must leave all checks silent
       ptest.py dir <dir>... [-x]     agent output dirs (<dir>/{a,b,c}/patch.diff + meta.json): report what fires
options: -j N workers (default 6), -v print violated instances, PV=<binary> to test another build.
Scratch copies live under $TMPDIR/pvpt-*/ and are removed at the end.
"""
import glob, json, os, re, shutil, subprocess, sys, tempfile
from concurrent.futures import ThreadPoolExecutor

REPO = "/repo"
PV = os.environ.get("PV", "/verif/bin/pv")

def sh(*a, **k):
    return subprocess.run(a, capture_output=True, text=True, errors="replace", **k)

def expected(path):
    meta = os.path.join(os.path.dirname(path), "meta.json")
    if os.path.basename(path) == "patch.diff" and os.path.exists(meta):
        m = json.load(open(meta))
        p = m.get("property") or m.get("properties")
        return p if isinstance(p, list) else [p]
    for line in open(path):
        m = re.match(r"#\s*expect:\s*(.*)", line)
        if m:
            return m.group(1).split()
    return []

def run_one(args):
    patch, root, idx = args
    w = os.path.join(root, f"w{idx}")
    tree, ev = os.path.join(w, "repo"), os.path.join(w, "verif")
    os.makedirs(ev, exist_ok=True)
    shutil.copy("/verif/known_findings.json", ev)
    r = sh("rsync", "-a", "--delete", "--exclude", ".git", REPO + "/", tree + "/")
    if r.returncode != 0:
        return patch, None, "copy failed: " + r.stderr[:200]
    env = dict(os.environ, GIT_DIR="/nonexistent", GIT_CEILING_DIRECTORIES=root)
    a = sh("git", "apply", "--whitespace=nowarn", patch, cwd=tree, env=env)
    if a.returncode != 0:
        return patch, None, "APPLY-FAIL " + a.stderr.strip()[:200]
    out = sh(PV, "-prop", "all", "-repo", tree, "-verif", ev)
    return patch, out.stdout, ""

def main():
    argv = sys.argv[1:]
    verbose = "-v" in argv
    jobs = 6
    if "-j" in argv:
        jobs = int(argv[argv.index("-j") + 1])
        del argv[argv.index("-j"):argv.index("-j") + 2]
    argv = [a for a in argv if a != "-v"]
    mode = argv[0] if argv else "seeded"
    rest = argv[1:]
    if mode == "seeded":
        pat = rest[0] if rest else ""
        patches = sorted(glob.glob("/verif/mutants/*.patch") + glob.glob("/verif/seeded/*/patch.diff"))
        patches = [p for p in patches if pat in p]
    elif mode == "benign":
        pat = rest[0] if rest else ""
        patches = sorted(p for p in glob.glob("/verif/benign/*.diff") if pat in p)
    else:
        patches = []
        for d in rest:
            patches += sorted(glob.glob(os.path.join(d, "*", "patch.diff"))) + sorted(glob.glob(os.path.join(d, "r*.diff")))
        pat = "x"
    root = tempfile.mkdtemp(prefix="pvpt-")
    bad = 0
    table = {}
    try:
        # worker slots: each patch gets the slot of its position modulo jobs, executed by a pool of that size
        slots = list(range(jobs))
        import queue
        q = queue.Queue()
        for s in slots:
            q.put(s)
        def task(p):
            s = q.get()
            try:
                return run_one((p, root, s))
            finally:
                q.put(s)
        with ThreadPoolExecutor(max_workers=jobs) as ex:
            results = list(ex.map(task, patches))
        for patch, out, err in results:
            name = patch.replace("/verif/", "")
            if out is None:
                print(f"ERROR   {name}: {err}")
                bad += 1
                continue
            fired = sorted(set(re.findall(r"^VIOLATION property=(C\d+)", out, re.M)))
            undec = sorted(set(re.findall(r"^UNDECIDED property=(C\d+)", out, re.M)))
            keys = {}
            for l in out.splitlines():
                m = re.match(r"\s+violated (C\d+)-(R\w+)/(\S+)", l)
                if m:
                    k = f"{m.group(1)}-{m.group(2)}/{m.group(3)}"
                    keys.setdefault(m.group(1), [])
                    if k not in keys[m.group(1)]:
                        keys[m.group(1)].append(k)
            if mode == "benign" or (mode == "dir" and patch.endswith(".diff") and os.path.basename(patch).startswith("r")):
                if fired or undec:
                    bad += 1
                    print(f"ALARM   {name}: fired={','.join(fired) or '-'} undecided={','.join(undec) or '-'}")
                    for l in out.splitlines():
                        if l.strip().startswith(("violated", "undecided")):
                            print("     ", l.strip()[:330])
                else:
                    print(f"QUIET   {name}")
                continue
            exp = expected(patch)
            ok = all(e in fired for e in exp) and (fired or not exp)
            tag = "CAUGHT " if (fired and ok) else ("MISSED " if not fired else "OTHER  ")
            if tag != "CAUGHT ":
                bad += 1
            print(f"{tag} {name:50s} expect={','.join(exp) or '-'} fired={','.join(fired) or '-'} undecided={','.join(undec) or '-'}")
            if verbose or tag != "CAUGHT ":
                for l in out.splitlines():
                    if l.strip().startswith("violated"):
                        print("     ", l.strip()[:300])
            table[name] = {"expect": exp, "fired": fired, "instances": keys}
    finally:
        shutil.rmtree(root, ignore_errors=True)
    if mode == "seeded" and not pat:
        json.dump(table, open("/verif/seeded/catch_table.json", "w"), indent=1, sort_keys=True)
    print(f"{len(patches)} patches, {bad} " + ("alarms" if mode == "benign" else "not fully caught"))
    return 1 if bad else 0

if __name__ == "__main__":
    sys.exit(main())
