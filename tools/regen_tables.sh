#!/bin/bash
# Regenerates the pinned_*.json tables of the generic rules from /repo's CURRENT tree and rebuilds pv.
# Only to be run on the pinned tree (plus the fix: commits), after which the tables are read and committed.
set -e
cd /verif/tools/pv
export GOFLAGS=-mod=mod GOPROXY=off GOSUMDB=off GOTOOLCHAIN=local; unset GOWORK
go build -o /tmp/pv_regen .
/tmp/pv_regen -dump writeredges   > pinned_writer_edges.json
/tmp/pv_regen -dump writeguards   > pinned_write_guards.json
/tmp/pv_regen -dump successguards > pinned_success_guards.json
/tmp/pv_regen -dump fieldwrites   > pinned_field_writes.json
/tmp/pv_regen -dump leafterms     > pinned_leaf_terms.json
/tmp/pv_regen -dump codeccalls    > pinned_codec_calls.json
/tmp/pv_regen -dump switchatoms   > pinned_switch_atoms.json
/tmp/pv_regen -dump writeargs     > pinned_write_args.json
/tmp/pv_regen -dump returnvalues  > pinned_return_values.json
/tmp/pv_regen -dump calledges     > pinned_call_edges.json
/tmp/pv_regen -dump mustwrite     > pinned_must_write.json
/tmp/pv_regen -dump failureguards > pinned_failure_guards.json
/tmp/pv_regen -dump panicguards   > pinned_panic_guards.json
go build -o /verif/bin/pv .
rm -f /tmp/pv_regen
ls -la pinned_*.json
