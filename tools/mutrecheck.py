#!/usr/bin/env python3
"""Re-run the checks on the surviving mutants of a previous mutrun (no tests). usage: mutrecheck.py <mutants dir> <in.jsonl> <out.jsonl> [-all]"""
import json, os, queue, shutil, subprocess, sys, tempfile, re
from concurrent.futures import ThreadPoolExecutor
REPO="/repo"; PV=os.environ.get("PV","/verif/bin/pv")
mdir, inp, outp = sys.argv[1:4]
allsv = "-all" in sys.argv
rs=[json.loads(l) for l in open(inp)]
todo=[r for r in rs if r["status"]=="survived" and (allsv or not r.get("fired"))]
root=tempfile.mkdtemp(prefix="pvmr-"); q=queue.Queue()
for s in range(8): q.put(s)
def task(r):
    s=q.get()
    try:
        w=os.path.join(root,f"w{s}"); tree,ev=os.path.join(w,"repo"),os.path.join(w,"verif"); os.makedirs(ev,exist_ok=True)
        shutil.copy("/verif/known_findings.json",ev)
        subprocess.run(["rsync","-a","--delete","--exclude",".git",REPO+"/",tree+"/"],check=True)
        shutil.copy(os.path.join(mdir,r["id"],"file.go"),os.path.join(tree,r["File"]))
        p=subprocess.run([PV,"-prop","all","-repo",tree,"-verif",ev],capture_output=True,text=True,errors="replace")
        r=dict(r); r["fired"]=sorted(set(re.findall(r"^VIOLATION property=(C\d+)",p.stdout,re.M))); r["rules"]=sorted(set(re.findall(r"violated (C\d+-R\w+)",p.stdout)))[:12]
        return r
    finally: q.put(s)
with ThreadPoolExecutor(max_workers=8) as ex: res=list(ex.map(task,todo))
shutil.rmtree(root,ignore_errors=True)
with open(outp,"w") as f:
    for r in res: f.write(json.dumps(r)+"\n")
print(len(res),"rechecked;",sum(1 for r in res if r["fired"]),"now detected")
