#!/bin/bash
# mkmutant.sh <name> "<expected props>" <file> <python-replace-old> <python-replace-new>
# creates /verif/mutants/<name>.patch from a single textual replacement in /repo/<file> (restores /repo afterwards)
set -e
NAME="$1"; EXP="$2"; FILE="$3"; OLD="$4"; NEW="$5"
cd /repo
python3 - "$FILE" "$OLD" "$NEW" <<'PY'
import sys
p,old,new=sys.argv[1],sys.argv[2],sys.argv[3]
s=open(p).read()
assert s.count(old)>=1, "pattern not found: "+old
s=s.replace(old,new,1)
open(p,'w').write(s)
PY
export GOFLAGS=-mod=mod GOPROXY=off GOSUMDB=off GOTOOLCHAIN=local
if ! go build ./... 2>/tmp/mk.err; then echo "mutant $NAME does not build: $(head -3 /tmp/mk.err)"; git checkout -- .; exit 1; fi
{ echo "# expect: $EXP"; git diff; } > /verif/mutants/$NAME.patch
git checkout -- .
echo "created $NAME"
