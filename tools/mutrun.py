#!/usr/bin/env python3
"""Run syntactic mutants (from tools/mutgen) against the existing tests and, for the survivors, against the checks.
Validation tooling only (not a registered check). Works on scratch copies of /repo under $TMPDIR.

usage: mutrun.py <mutants dir> <out.jsonl> [-j N] [-step K] [-offset O]
"""
import json, os, queue, shutil, subprocess, sys, tempfile, re
from concurrent.futures import ThreadPoolExecutor

REPO = "/repo"
PV = os.environ.get("PV", "/verif/bin/pv")
ENV = dict(os.environ, GOFLAGS="-mod=mod", GOPROXY="off", GOSUMDB="off", GOTOOLCHAIN="local")
ENV.pop("GOWORK", None)

def tests_for(path):
    if path.startswith("x/pos"):
        return ["./x/pos/..."]
    if path.startswith("x/auth"):
        return ["./x/auth/...", "./x/pos/...", "./x/gov/..."]
    if path.startswith("x/gov"):
        return ["./x/gov/..."]
    if path.startswith("baseapp"):
        return ["./baseapp/...", "./x/..."]
    if path.startswith("store"):
        return ["./store/...", "./x/pos/keeper/", "./x/auth/keeper/"]
    if path.startswith("types"):
        return ["./types/...", "./x/...", "./store/..."]
    if path.startswith("crypto"):
        return ["./crypto/...", "./x/auth/..."]
    return ["./..."]

def sh(args, cwd, timeout=600):
    try:
        p = subprocess.run(args, cwd=cwd, env=ENV, capture_output=True, text=True, errors="replace", timeout=timeout)
        return p.returncode, p.stdout + p.stderr
    except subprocess.TimeoutExpired:
        return 124, "timeout"

def main():
    argv = sys.argv[1:]
    jobs, step, offset = 6, 1, 0
    for flag in ("-j", "-step", "-offset"):
        if flag in argv:
            i = argv.index(flag)
            v = int(argv[i + 1])
            del argv[i:i + 2]
            if flag == "-j": jobs = v
            elif flag == "-step": step = v
            else: offset = v
    mdir, outp = argv[0], argv[1]
    muts = sorted(d for d in os.listdir(mdir) if os.path.exists(os.path.join(mdir, d, "meta.json")))
    muts = muts[offset::step]
    done = set()
    if os.path.exists(outp):
        for l in open(outp):
            try: done.add(json.loads(l)["id"])
            except Exception: pass
    muts = [m for m in muts if m not in done]
    root = tempfile.mkdtemp(prefix="pvmut-")
    q = queue.Queue()
    for s in range(jobs): q.put(s)
    outf = open(outp, "a")
    def task(mid):
        s = q.get()
        try:
            meta = json.load(open(os.path.join(mdir, mid, "meta.json")))
            w = os.path.join(root, f"w{s}")
            tree, ev = os.path.join(w, "repo"), os.path.join(w, "verif")
            os.makedirs(ev, exist_ok=True)
            shutil.copy("/verif/known_findings.json", ev)
            subprocess.run(["rsync", "-a", "--delete", "--exclude", ".git", REPO + "/", tree + "/"], check=True)
            shutil.copy(os.path.join(mdir, mid, "file.go"), os.path.join(tree, meta["File"]))
            rec = {"id": mid, **meta}
            rc, out = sh(["go", "build", "./..."], tree, 300)
            if rc != 0:
                rec["status"] = "stillborn"
            else:
                rc, out = sh(["go", "test", "-vet=off", "-count=1", "-timeout", "8m"] + tests_for(meta["File"]), tree, 900)
                if rc != 0:
                    rec["status"] = "killed"
                else:
                    rec["status"] = "survived"
                    p = subprocess.run([PV, "-prop", "all", "-repo", tree, "-verif", ev], capture_output=True, text=True, errors="replace")
                    rec["fired"] = sorted(set(re.findall(r"^VIOLATION property=(C\d+)", p.stdout, re.M)))
                    rec["undecided"] = sorted(set(re.findall(r"^UNDECIDED property=(C\d+)", p.stdout, re.M)))
                    rec["rules"] = sorted(set(re.findall(r"violated (C\d+-R\w+)", p.stdout)))[:12]
            outf.write(json.dumps(rec) + "\n"); outf.flush()
            return rec["status"]
        finally:
            q.put(s)
    try:
        with ThreadPoolExecutor(max_workers=jobs) as ex:
            res = list(ex.map(task, muts))
    finally:
        shutil.rmtree(root, ignore_errors=True)
    from collections import Counter
    print(Counter(res))

if __name__ == "__main__":
    main()
